#!/usr/bin/env python3
"""tools/mkmut.py <out.patch> <repo-relative-file> <old> <new> [<old2> <new2> ...]  -- make a -p1 patch against /repo HEAD by exact, unique string replacement"""
import difflib, subprocess, sys
out, rel = sys.argv[1], sys.argv[2]
src = subprocess.run(["git", "-C", "/repo", "show", "HEAD:" + rel], capture_output=True, text=True, check=True).stdout
new = src
pairs = sys.argv[3:]
for i in range(0, len(pairs), 2):
    old, rep = pairs[i], pairs[i + 1]
    assert new.count(old) == 1, "pattern occurs %d times: %r" % (new.count(old), old)
    new = new.replace(old, rep)
d = "".join(difflib.unified_diff(src.splitlines(True), new.splitlines(True), "a/" + rel, "b/" + rel))
open(out, "w").write(d)
print(d)
