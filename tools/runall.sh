#!/bin/bash
# tools/runall.sh [tier] C01 C02 ...   -> one summary line per check (exit status + last line)
tier=$1; shift
for c in "$@"; do
  out=$(cd /verif && /venv/bin/python run_check.py $c --tier $tier 2>&1); rc=$?
  echo "$c exit=$rc $(echo "$out" | grep -E "^$c tier=" | cut -c1-220)"
  echo "$out" | grep -E "^VIOLATION|^  key=|^HARNESS|^KNOWN" | head -12
done
