#!/venv/bin/python
"""Regenerate MANIFEST.json from the check modules that exist (checks/cXX.py with a MANIFEST dict).
Properties without a module are listed under not_applicable with the reason recorded in PENDING below."""
import importlib, json, os, sys
VERIF = os.path.dirname(os.path.dirname(os.path.abspath(__file__)))
sys.path.insert(0, VERIF)
os.environ.setdefault("PYTHONHASHSEED", "0")

NOT_CLAIMED = {}   # property -> reason, filled by hand for properties deliberately not claimed

def main():
    props = [json.loads(l) for l in open(os.path.join(VERIF, "properties.jsonl"))]
    checks, na, engines = [], [], {}
    ready = set(open(os.path.join(VERIF, "tools", "ready.txt")).read().split())
    for p in props:
        pid = p["id"]
        path = os.path.join(VERIF, "checks", pid.lower() + ".py")
        if not os.path.exists(path) or pid in NOT_CLAIMED or pid not in ready:
            na.append({"property_id": pid, "reason": NOT_CLAIMED.get(pid, "no bounded-exhaustive check built for this property yet; nothing is claimed for it")})
            continue
        mod = importlib.import_module("checks." + pid.lower())
        m = mod.MANIFEST
        c = {
            "property_id": pid,
            "quick_cmd": "cd /verif && /venv/bin/python run_check.py %s --tier quick" % pid,
            "thorough_cmd": "cd /verif && /venv/bin/python run_check.py %s --tier thorough" % pid,
            "evidence_file": "/verif/evidence/%s.json" % pid,
            "replay_cmd_template": "cd /verif && /venv/bin/python run_check.py %s --replay {path}" % pid,
            "engine": m["engine"],
            "level_claimed": {"category": mod.LEVEL, "text": m["text"], "design_ref": m.get("design_ref", "DESIGN.md section 4, " + pid)},
            "level_note": m["note"],
            "technique": m["technique"],
        }
        checks.append(c)
        engines.setdefault(m["engine"], []).append(pid)
    ENG = {
        "E1-product": ("mc/core.py + checks", "exhaustive cartesian product of per-dimension alphabets fed to the real function and a reference model"),
        "E2-structures": ("gen/ + mc/core.py", "bounded enumeration of structures (instruction sequences, DEX models, graphs, XML/ARSC/zip models) serialised by independent writers and pushed through the real parser/analysis"),
        "E3-history-bfs": ("mc/core.py + checks", "breadth-first search over operation histories on real objects with canonical state hashing and a dictionary reference model"),
        "E4-faults": ("mc/budget.py + checks", "exhaustive single-fault enumeration (byte substitutions, truncations, field overwrites) under a deterministic line-event budget"),
        "E5-schedules": ("mc/sched.py + models/", "exhaustive interleaving exploration of real OS processes at owned scheduling points, plus a TLC model replayed against the implementation"),
        "E6-choice": ("checks/c22.py", "exploration of the decompiler's hidden nondeterminism (identity-hash order) under explorer-assigned hashes with a deviation bound"),
    }
    man = {
        "version": 1,
        "setup_cmd": "cd /verif && /venv/bin/python tools/setup.py",
        "hooks": {
            "guard": "ANDROGUARD_VERIF",
            "enable": "no source hooks: every seam is monkey-patched from /verif at run time; checks import /repo's working tree directly (editable install, VERIF_REPO overrides)",
            "baseline_off_cmd": "cd /repo && /venv/bin/python -m pytest -ra -q -p no:cacheprovider --timeout=900 --continue-on-collection-errors",
            "source_commits": [],
            "add_only": True,
        },
        "engines": [{"name": k, "path": ENG[k][0], "serves_properties": v, "kind_free_text": ENG[k][1]} for k, v in sorted(engines.items())],
        "checks": checks,
        "notes": "All checks decide their property by exhaustive enumeration of a stated bounded space (see evidence.coverage.rule/space); VERIF_SEED only rotates exploration order and sample choice. Known findings: /verif/known_findings.json.",
        "not_applicable": na,
    }
    with open(os.path.join(VERIF, "MANIFEST.json"), "w") as f:
        json.dump(man, f, indent=1)
    print("checks:", len(checks), "not claimed:", len(na))

main()
