#!/venv/bin/python
"""Run every own detection demonstration (mutants/Cxx_*.patch) against the current /repo HEAD and record the outcome in
mutants/RESULTS.json:  tools/run_mutants.py [Cxx ...] [--jobs N]
A patch that no longer applies is recorded as 'stale' (the code it mutated was changed by a fix: commit)."""
import concurrent.futures as cf, glob, json, os, re, subprocess, sys, tempfile, shutil

VERIF = os.path.dirname(os.path.dirname(os.path.abspath(__file__)))


def one(patch):
    name = os.path.basename(patch)[:-6]
    prop = name.split("_")[0]
    wt = tempfile.mkdtemp(prefix="verif_mut_", dir="/tmp"); os.rmdir(wt)
    subprocess.run(["git", "-C", "/repo", "worktree", "add", "--detach", "-f", wt, "HEAD"], capture_output=True)
    res = {"mutant": name, "property": prop}
    try:
        txt = "".join(l for l in open(patch) if not l.startswith("# "))
        r = subprocess.run(["git", "-C", wt, "apply", "-"], input=txt, capture_output=True, text=True)
        if r.returncode:
            res["status"] = "stale"; res["detail"] = r.stderr.strip()[-200:]
            return res
        evdir = tempfile.mkdtemp(prefix="verif_ev_", dir="/tmp")
        p = subprocess.run(["/venv/bin/python", os.path.join(VERIF, "run_check.py"), prop, "--tier", "quick"], capture_output=True, text=True,
                           env=dict(os.environ, VERIF_REPO=wt, VERIF_EVIDENCE_DIR=evdir))
        shutil.rmtree(evdir, ignore_errors=True)
        keys = [l.strip()[4:].split(" count=")[0] for l in p.stdout.splitlines() if l.strip().startswith("key=")]
        res["exit"] = p.returncode
        res["status"] = "detected" if p.returncode == 1 else ("harness-error" if p.returncode == 2 else "missed")
        res["keys"] = keys[:6]
    finally:
        subprocess.run(["git", "-C", "/repo", "worktree", "remove", "--force", wt], capture_output=True)
        shutil.rmtree(wt, ignore_errors=True)
    return res


def main():
    args = [a for a in sys.argv[1:] if not a.startswith("--")]
    jobs = 2
    for a in sys.argv[1:]:
        if a.startswith("--jobs"):
            jobs = int(a.split("=")[1])
    patches = sorted(glob.glob(os.path.join(VERIF, "mutants", "C*.patch")))
    if args:
        patches = [p for p in patches if os.path.basename(p).split("_")[0] in args]
    out_path = os.path.join(VERIF, "mutants", "RESULTS.json")
    results = json.load(open(out_path)) if os.path.exists(out_path) else {}
    head = subprocess.run(["git", "-C", "/repo", "rev-parse", "--short=8", "HEAD"], capture_output=True, text=True).stdout.strip()
    with cf.ThreadPoolExecutor(jobs) as ex:
        for r in ex.map(one, patches):
            r["repo_head"] = head
            results[r["mutant"]] = r
            print(r["mutant"], r["status"], r.get("keys", r.get("detail", ""))[:3] if isinstance(r.get("keys"), list) else r.get("detail", ""))
            json.dump(results, open(out_path, "w"), indent=1, sort_keys=True)
    subprocess.run(["git", "-C", "/repo", "worktree", "prune"])


main()
