#!/bin/bash
# tools/applyfix.sh <patch-with-#-commit-message-header>  : apply to /repo and commit with that message (one fix: commit)
set -e
p=$(realpath "$1")
grep '^#' "$p" | sed 's/^# \?//' | grep -v "^Apply on top" > /tmp/.fixmsg.$$
grep -v '^#' "$p" | git -C /repo apply
git -C /repo commit -q -a -F /tmp/.fixmsg.$$
rm -f /tmp/.fixmsg.$$
git -C /repo log --oneline | head -1
