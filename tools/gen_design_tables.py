#!/usr/bin/env python3
"""Regenerate the generated part of DESIGN.md (between the markers <!-- GENERATED:BEGIN --> and <!-- GENERATED:END -->):
repaired defects, known findings, seeded regressions and own mutants with the checks that catch them."""
import glob, json, os, re

VERIF = os.path.dirname(os.path.dirname(os.path.abspath(__file__)))


def main():
    kf = json.load(open(os.path.join(VERIF, "known_findings.json")))
    out = []
    out.append("### 12.4 Genuine defects found on the pinned tree and repaired (`fix:` commits in /repo)\n")
    out.append("| property | commit | what failed |\n|---|---|---|")
    for line in kf["fixed"]:
        m = re.match(r"fixed: property=(\S+) (\S+) (.*)", line)
        out.append("| %s | `%s` | %s |" % (m.group(1), m.group(2), m.group(3).replace("|", "\\|")))
    out.append("\n%d repairs.  Each is one unguarded commit; the 128 baseline tests pass with all of them (full run recorded in §12.7)." % len(kf["fixed"]))
    out.append("\n### 12.5 Genuine defects recorded as known findings (not repaired)\n")
    out.append("| property | key | what fails |\n|---|---|---|")
    for f in kf["findings"]:
        out.append("| %s | `%s` | %s |" % (f["property"], f["key"], f["what"].replace("|", "\\|")))
    for k, v in kf.get("_why_not_fixed", {}).items():
        out.append("\n*%s*: %s" % (k, v))
    # seeded
    out.append("\n### 12.6 Detection record\n")
    out.append("**Independently seeded regressions** (`seeded/<name>/`: written by fresh sub-agents that saw only the property text and a "
               "scratch worktree; each keeps the relevant baseline tests green, its `demo.py` fails with the change and passes without; "
               "evaluated by `tools/seedeval.py`).\n")
    out.append("| seeded change | property | what it needs to manifest | caught by | first keys | note |\n|---|---|---|---|---|---|")
    n = det = strengthened = 0
    for d in sorted(glob.glob(os.path.join(VERIF, "seeded", "*", "meta.json"))):
        m = json.load(open(d))
        notes = ""
        np_ = os.path.join(os.path.dirname(d), "notes.md")
        need = ""
        if os.path.exists(np_):
            txt = open(np_).read().strip().replace("\n", " ")
            need = txt[:160].replace("|", "\\|")
        keys = []
        for c, v in m.get("checks", {}).items():
            keys += [k.replace("key=", "").split(" count=")[0] for k in v.get("keys", [])[:2]]
        n += 1
        caught = ", ".join(m.get("detected_by", [])) or "**missed**"
        if m.get("detected_by"):
            det += 1
        if m.get("strengthened"):
            strengthened += 1
            st = m["strengthened"] if isinstance(m["strengthened"], str) else str(m.get("strengthening", "check strengthened"))
            notes = "missed at first; " + st[:220].replace("|", "\\|")
        if not m.get("valid_seed", True):
            notes = "(not a valid seed: demo/tests) " + notes
        out.append("| %s | %s | %s | %s | %s | %s |" % (m["name"], m["property"], need, caught, "; ".join("`%s`" % k for k in keys[:2]), notes))
    out.append("\n%d seeded changes, %d caught (%d of them only after the check was strengthened in response to the miss)." % (n, det, strengthened))
    rp = os.path.join(VERIF, "mutants", "RESULTS.json")
    if os.path.exists(rp):
        res = json.load(open(rp))
        out.append("\n**Own detection demonstrations** (`mutants/*.patch`, run by `tools/run_mutants.py` against the current /repo HEAD; "
                   "'stale' = the mutated code was since changed by a `fix:` commit).\n")
        out.append("| mutant | status | first keys |\n|---|---|---|")
        for k in sorted(res):
            r = res[k]
            out.append("| %s | %s | %s |" % (k, r["status"], "; ".join("`%s`" % x for x in r.get("keys", [])[:2])))
        c = {}
        for r in res.values():
            c[r["status"]] = c.get(r["status"], 0) + 1
        out.append("\n" + ", ".join("%s: %d" % kv for kv in sorted(c.items())))
    text = "\n".join(out) + "\n"
    p = os.path.join(VERIF, "DESIGN.md")
    s = open(p).read()
    B, E = "<!-- GENERATED:BEGIN -->", "<!-- GENERATED:END -->"
    if B not in s:
        s += "\n" + B + "\n" + E + "\n"
    s = s[:s.index(B) + len(B)] + "\n" + text + s[s.index(E):]
    open(p, "w").write(s)
    print("DESIGN.md updated: %d fixes, %d findings, %d seeded" % (len(kf["fixed"]), len(kf["findings"]), n))


main()
