#!/venv/bin/python
"""setup_cmd: nothing to build (pure Python, /repo is imported from its working tree).  Verifies that the
environment the checks need is present and that every registered check module imports."""
import importlib, json, os, shutil, sys
VERIF = os.path.dirname(os.path.dirname(os.path.abspath(__file__)))
sys.path.insert(0, VERIF); sys.path.insert(0, os.environ.get("VERIF_REPO", "/repo"))
import androguard  # noqa
man = json.load(open(os.path.join(VERIF, "MANIFEST.json")))
for c in man["checks"]:
    importlib.import_module("checks." + c["property_id"].lower())
for tool in ("javac", "java", "tlc"):
    print(tool, "->", shutil.which(tool))
os.makedirs(os.path.join(VERIF, "evidence"), exist_ok=True)
os.makedirs(os.path.join(VERIF, "replay"), exist_ok=True)
print("setup ok:", len(man["checks"]), "checks")
