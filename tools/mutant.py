#!/venv/bin/python
"""Detection demonstration driver.

  tools/mutant.py <patch.diff> <Cxx>[,<Cyy>...] [--tier quick|thorough] [--keep]

Creates a scratch git worktree of /repo outside /repo and /verif, applies the patch there, runs the named
checks with VERIF_REPO pointing at the scratch tree (evidence is written to a throw-away directory, the
committed evidence is not touched), prints each exit status, removes the worktree.
Exit 0 iff every named check reported a violation (exit 1) on the mutated tree.
"""
import argparse, os, shutil, subprocess, sys, tempfile

VERIF = os.path.dirname(os.path.dirname(os.path.abspath(__file__)))

def main():
    ap = argparse.ArgumentParser()
    ap.add_argument("patch"); ap.add_argument("props")
    ap.add_argument("--tier", default="quick"); ap.add_argument("--keep", action="store_true")
    a = ap.parse_args()
    patch = os.path.abspath(a.patch)
    wt = tempfile.mkdtemp(prefix="verif_mut_", dir="/tmp")
    os.rmdir(wt)
    subprocess.run(["git", "-C", "/repo", "worktree", "add", "--detach", "-f", wt, "HEAD"], check=True, capture_output=True)
    ok = True
    try:
        # carry uncommitted /repo edits? no: mutants are relative to committed HEAD
        r = subprocess.run(["git", "-C", wt, "apply", patch], capture_output=True, text=True)
        if r.returncode:
            print("PATCH DOES NOT APPLY:", r.stderr); return 3
        for prop in a.props.split(","):
            evdir = tempfile.mkdtemp(prefix="verif_ev_", dir="/tmp")
            env = dict(os.environ, VERIF_REPO=wt, VERIF_EVIDENCE_DIR=evdir)
            p = subprocess.run([sys.executable, os.path.join(VERIF, "run_check.py"), prop, "--tier", a.tier],
                               capture_output=True, text=True, env=env)
            lines = [l for l in p.stdout.splitlines() if l.startswith(("VIOLATION", "  key", "HARNESS", "KNOWN"))]
            print("== %s on %s: exit=%d" % (prop, os.path.basename(patch), p.returncode))
            for l in lines[:12]: print("   ", l)
            if p.returncode != 1:
                ok = False
                print(p.stdout[-1500:]); print(p.stderr[-1500:])
            shutil.rmtree(evdir, ignore_errors=True)
    finally:
        if not a.keep:
            subprocess.run(["git", "-C", "/repo", "worktree", "remove", "--force", wt], capture_output=True)
            shutil.rmtree(wt, ignore_errors=True)
            subprocess.run(["git", "-C", "/repo", "worktree", "prune"], capture_output=True)
    print("DETECTED" if ok else "MISSED")
    return 0 if ok else 1

sys.exit(main())
