#!/venv/bin/python
"""Writer/reader conformance (run by setup and on demand):
 (a) gen/dexread must read every shipped DEX file; every instruction of every code item must decode with gen/dalvik and
     re-encode to the same bytes (payloads located through their 31t instructions);
 (b) dexread -> dexgen -> dexread is the identity on the canonical model (writer round trip on real, dx/d8-produced files);
 (c) androguard accepts the regenerated file and reports the same class/method/field names and code bytes as on the original.
"""
import glob, io, os, sys, zipfile
VERIF = os.path.dirname(os.path.dirname(os.path.abspath(__file__)))
sys.path.insert(0, VERIF); sys.path.insert(0, os.environ.get("VERIF_REPO", "/repo"))
from loguru import logger; logger.remove()
from gen import dalvik as D, dexgen as G, dexread as R

def shipped(repo="/repo"):
    out = []
    for p in sorted(glob.glob(repo + "/tests/data/APK/*.dex")):
        out.append((os.path.basename(p), open(p, "rb").read()))
    for p in ("hello-world.apk", "TestActivity.apk", "multidex.apk"):
        try:
            z = zipfile.ZipFile(repo + "/tests/data/APK/" + p)
            for n in z.namelist():
                if n.startswith("classes") and n.endswith(".dex"):
                    out.append((p + ":" + n, z.read(n)))
        except Exception as e:
            print("skip", p, e)
    return out

def sweep(code):
    """reference linear sweep over a code item's insns: returns instruction count; asserts re-encoding."""
    b = code.insns; off = 0; n = 0; payload_at = {}
    while off < len(b):
        if off in payload_at or (b[off] == 0 and b[off+1] in (1, 2, 3) and off % 4 == 0 and False):
            pass
        u0 = b[off] | (b[off+1] << 8)
        if u0 in (0x0100, 0x0200, 0x0300):
            off += 2 * D.payload_units(b, off); continue
        i = D.decode(b, off); n += 1
        off += i.length
    assert off == len(b)
    return n

def main():
    from androguard.core import dex
    tot_i = tot_c = 0
    for name, raw in shipped():
        if raw[:4] != b"dex\n":
            print("skip (not dex)", name); continue
        r = R.Reader(raw); m = r.model()
        for c in m.classes:
            for meth in c.dmethods + c.vmethods:
                if meth.code: tot_i += sweep(meth.code)
        tot_c += len(m.classes)
        regen = G.build(m)
        m2 = R.Reader(regen).model()
        assert R.canon(m) == R.canon(m2), "round trip differs: " + name
        def dump(v):
            return [(c.get_name(), c.get_superclassname(), c.get_access_flags(),
                     [(f.get_name(), f.get_descriptor(), f.get_access_flags()) for f in c.get_fields()],
                     [(x.get_name(), x.get_descriptor(), x.get_access_flags(), x.get_code().get_bc().get_raw() if x.get_code() else None) for x in c.get_methods()])
                    for c in v.get_classes()]
        assert dump(dex.DEX(raw)) == dump(dex.DEX(regen)), "androguard view differs: " + name
        print("ok %-40s classes=%d size %d -> %d" % (name, len(m.classes), len(raw), len(regen)))
    print("conformance ok: classes=%d instructions=%d" % (tot_c, tot_i))

main()
