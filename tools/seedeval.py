#!/venv/bin/python
"""Evaluate independently seeded regressions.

  tools/seedeval.py <dir-with-patch.diff+demo.py> <Cxx> [--tests "tests/test_a.py tests/test_b.py"] [--tier quick] [--checks Cxx,Cyy]

Steps (all in a scratch worktree of /repo HEAD outside /repo and /verif, removed afterwards):
  1. demo.py on the pristine tree must exit 0; with the patch applied it must exit 1
  2. the named test modules must pass with the patch (the 6 baseline always-fail tests are deselected)
  3. the property's check (and optional extra checks) is run with VERIF_REPO=<patched tree>; exit 1 = detected
The seeded change is then recorded in /verif/seeded/<name>/ (patch.diff, demo.py, notes.md, meta.json).
"""
import argparse, json, os, shutil, subprocess, sys, tempfile, time

VERIF = os.path.dirname(os.path.dirname(os.path.abspath(__file__)))
DESELECT = ["tests/test_apk.py::APKTest::testAPK", "tests/test_apk.py::APKTest::testCustomPermissionProtectionLevel",
            "tests/test_apk.py::APKTest::testFeatures", "tests/test_apk.py::APKTest::testFrameworkResAPK",
            "tests/test_apk.py::APKTest::testMultipleLocaleAppName", "tests/test_strings.py::StringTest::testMUTF8"]
TESTS_FOR = {
    "androguard/core/dex/__init__.py": "tests/test_dex.py tests/test_dexcodeparsing.py tests/test_rename.py tests/test_annotations.py tests/test_strings.py tests/test_analysis.py",
    "androguard/core/dex/dex_types.py": "tests/test_dex.py tests/test_dexcodeparsing.py tests/test_loadorder.py",
    "androguard/core/analysis/analysis.py": "tests/test_analysis.py tests/test_callgraph.py",
    "androguard/core/axml/__init__.py": "tests/test_axml.py tests/test_arsc.py",
    "androguard/core/apk/__init__.py": "tests/test_apk.py",
    "androguard/misc.py": "tests/test_misc.py",
    "androguard/session.py": "tests/test_types.py tests/test_cli_decompile.py",
    "androguard/cli/main.py": "tests/test_cli_decompile.py",
    "androguard/core/androconf.py": "tests/test_apk.py",
    "androguard/core/api_specific_resources/__init__.py": "tests/test_apk.py",
    "androguard/core/mutf8/__init__.py": "tests/test_strings.py tests/test_dex.py",
    "androguard/core/bytecode.py": "tests/test_dex.py tests/test_analysis.py",
}
DECOMP = "tests/test_decompiler.py tests/test_decompiler_dataflow.py tests/test_decompiler_dominator.py tests/test_decompiler_rpo.py tests/test_decompiler_native.py tests/test_cli_decompile.py"


def sh(cmd, **kw):
    return subprocess.run(cmd, capture_output=True, text=True, **kw)


def main():
    ap = argparse.ArgumentParser()
    ap.add_argument("dir"); ap.add_argument("prop")
    ap.add_argument("--tests"); ap.add_argument("--tier", default="quick"); ap.add_argument("--checks")
    ap.add_argument("--skip-tests", action="store_true")
    a = ap.parse_args()
    d = os.path.abspath(a.dir)
    name = os.path.basename(d.rstrip("/"))
    patch = os.path.join(d, "patch.diff")
    demo = os.path.join(d, "demo.py")
    touched = [l[6:].strip() for l in open(patch) if l.startswith("+++ b/")]
    tests = a.tests
    if tests is None:
        ts = []
        for f in touched:
            t = TESTS_FOR.get(f) or (DECOMP if f.startswith("androguard/decompiler/") else "")
            for x in t.split():
                if x not in ts:
                    ts.append(x)
        tests = " ".join(ts)
    wt = tempfile.mkdtemp(prefix="verif_seed_", dir="/tmp"); os.rmdir(wt)
    sh(["git", "-C", "/repo", "worktree", "add", "--detach", "-f", wt, "HEAD"])
    meta = {"name": name, "property": a.prop, "touched": touched, "repo_head": sh(["git", "-C", "/repo", "rev-parse", "--short=8", "HEAD"]).stdout.strip()}
    try:
        env = dict(os.environ, PYTHONPATH=wt, PYTHONHASHSEED="0")
        r0 = sh(["/venv/bin/python", demo], env=env, cwd=wt, timeout=1800)
        meta["demo_pristine_exit"] = r0.returncode
        ap_ = sh(["git", "-C", wt, "apply", patch])
        if ap_.returncode:
            meta["error"] = "patch does not apply: " + ap_.stderr[-300:]
            print(json.dumps(meta, indent=1)); return 3
        r1 = sh(["/venv/bin/python", demo], env=env, cwd=wt, timeout=1800)
        meta["demo_patched_exit"] = r1.returncode
        meta["demo_patched_output"] = (r1.stdout + r1.stderr)[-400:]
        if tests and not a.skip_tests:
            t0 = time.time()
            cmd = ["/venv/bin/python", "-m", "pytest", "-q", "-p", "no:cacheprovider", "--timeout=1800"] + tests.split()
            for x in DESELECT:
                cmd += ["--deselect", x]
            rt = sh(cmd, env=env, cwd=wt, timeout=7200)
            meta["tests_run"] = tests
            meta["tests_exit"] = rt.returncode
            meta["tests_summary"] = rt.stdout.strip().splitlines()[-1] if rt.stdout.strip() else rt.stderr[-200:]
            meta["tests_wall_s"] = round(time.time() - t0)
        det = {}
        for chk in (a.checks or a.prop).split(","):
            evdir = tempfile.mkdtemp(prefix="verif_ev_", dir="/tmp")
            rc = sh(["/venv/bin/python", os.path.join(VERIF, "run_check.py"), chk, "--tier", a.tier],
                    env=dict(os.environ, VERIF_REPO=wt, VERIF_EVIDENCE_DIR=evdir), timeout=14400)
            keys = [l.strip() for l in rc.stdout.splitlines() if l.strip().startswith("key=")]
            det[chk] = {"exit": rc.returncode, "keys": keys[:8], "harness": [l[:300] for l in rc.stdout.splitlines() if l.startswith("HARNESS")][:3]}
            shutil.rmtree(evdir, ignore_errors=True)
        meta["checks"] = det
        meta["tier"] = a.tier
        meta["detected_by"] = [c for c, v in det.items() if v["exit"] == 1]
    finally:
        sh(["git", "-C", "/repo", "worktree", "remove", "--force", wt]); shutil.rmtree(wt, ignore_errors=True)
        sh(["git", "-C", "/repo", "worktree", "prune"])
    valid = meta.get("demo_pristine_exit") == 0 and meta.get("demo_patched_exit") == 1 and (a.skip_tests or meta.get("tests_exit", 0) == 0)
    meta["valid_seed"] = valid
    out = os.path.join(VERIF, "seeded", name)
    os.makedirs(out, exist_ok=True)
    for f in ("patch.diff", "demo.py", "notes.md"):
        if os.path.exists(os.path.join(d, f)):
            shutil.copy(os.path.join(d, f), os.path.join(out, f))
    json.dump(meta, open(os.path.join(out, "meta.json"), "w"), indent=1)
    print(json.dumps({k: meta[k] for k in ("name", "valid_seed", "demo_pristine_exit", "demo_patched_exit", "tests_exit", "tests_summary", "detected_by", "checks") if k in meta}, indent=1))
    return 0


sys.exit(main())
