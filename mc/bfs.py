"""Breadth-first explicit-state search over operation histories on REAL objects (engine E3).

The objects under test cannot be copied, so a state is identified with a history: `execute(history)` builds a
fresh object, replays the history and returns a `Result`.  The search is level order (all histories of length k
before any of length k+1), a violating history is reported and NOT extended, so every reported history has no
failing proper prefix.

Nothing is pruned by state equality: two histories that reach equal observations may still differ in caches the
future depends on, and a search that merges them is only as sound as its canonical form.  The canonical form is
used for COUNTING distinct states only (`acc.state`).

`minimize` reduces a failing history to a 1-minimal one (no single operation can be removed, no single operand
can be replaced by a simpler one, without losing the SAME failure), which is what violation keys are built from:
the key then describes the cause, not the incidental operations around it.
"""


class Result:
    __slots__ = ("canon", "outcome", "violations", "info")

    def __init__(self, canon, outcome, violations, info=None):
        self.canon = canon              # hashable canonical state (implementation internals + model state)
        self.outcome = outcome          # hashable observation (vacuity counter)
        self.violations = violations    # list of hashable violation elements; empty = invariant holds
        self.info = info                # free: messages etc.


def explore(ops, execute, prefix, max_depth, acc, on_violation, on_ok=None, subtree=True):
    """Level-order search of all histories prefix + w, |prefix + w| <= max_depth (only `prefix` itself if not subtree).

    execute(history: tuple) -> Result.  Proper prefixes of `prefix` are executed first (uncounted: they belong to
    other shards); if one of them violates, nothing below it is part of the space and the shard is empty.
    on_violation(history, result) is called once per violating history; on_ok(history, result) per holding one.
    Counters: acc.traces / acc.n per executed history, acc.transitions per edge of the history tree (one per
    non-empty history executed), extra counter 'ops_applied_incl_replay' for the replay work actually done.
    """
    prefix = tuple(prefix)
    for k in range(len(prefix)):
        if execute(prefix[:k]).violations:
            acc.count("shards_below_a_violating_prefix")
            return
    frontier = [prefix]
    while frontier:
        nxt = []
        for h in frontier:
            r = execute(h)
            acc.n += 1
            acc.nt_disjoint += 1 if h else 0
            acc.traces += 1
            if h:
                acc.transitions += 1
            acc.count("ops_applied_incl_replay", len(h))
            acc.count("histories_len_%d" % len(h))
            acc.state(r.canon)
            if len(acc.outcomes) < 100000:
                from mc.core import h8
                acc.outcomes.add(h8(r.outcome))
            if r.violations:
                acc.count("violating_histories_not_expanded")
                on_violation(h, r)
                continue
            if on_ok is not None:
                on_ok(h, r)
            if subtree and len(h) < max_depth:
                nxt.extend(h + (op,) for op in ops)
        frontier = nxt


def minimize(history, fails, simpler=None):
    """Greedy 1-minimisation.  fails(history) -> bool must be deterministic ('the same failure is still present').
    simpler(op) -> iterable of candidate replacement ops, simplest first (optional).
    Removal is tried left to right and restarted after every success; then operand simplification; then removal
    again, until nothing changes."""
    h = tuple(history)
    changed = True
    while changed:
        changed = False
        i = 0
        while i < len(h):
            cand = h[:i] + h[i + 1:]
            if fails(cand):
                h = cand
                changed = True
                i = 0
            else:
                i += 1
        if simpler is not None:
            for i, op in enumerate(h):
                for s in simpler(op):
                    if s == op:
                        continue
                    cand = h[:i] + (s,) + h[i + 1:]
                    if fails(cand):
                        h = cand
                        changed = True
                        break
    return h
