"""Deterministic step budget: run a callable under a bound on interpreter events (sys.monitoring, Python 3.12).

'Does not finish in time bounded by the input size' is decided by counting events, not by a wall clock, so the
same input gives the same verdict on every machine and under any load.

Counted events: PY_START (every Python function entry), JUMP (every backward/forward unconditional jump, i.e. every
loop iteration) and BRANCH.  A Python-level loop cannot iterate without a JUMP or BRANCH event, a recursion cannot
descend without PY_START.  (C-level loops - e.g. bytes * n - are not counted; memory errors surface as exceptions.)

Optional second bound `cpu_seconds` for work that happens inside ONE C call and therefore produces no events (a
backtracking regular expression is the realistic case in a pure-Python parser): ITIMER_VIRTUAL counts the user CPU time of
this process only (not wall time, so machine load does not matter); callers set it orders of magnitude above the time the
event budget itself can take, so the verdict for Python-level work is still the deterministic event count.  The `re`
engine polls for signals while matching, so the handler's exception interrupts it.
"""
import signal
import sys

mon = sys.monitoring
TOOL = mon.PROFILER_ID


class BudgetExceeded(BaseException):
    """Derives from BaseException so that 'except Exception' blocks in the code under test cannot swallow it."""


def run_with_budget(fn, budget, cpu_seconds=None):
    """Returns (status, value, events): status in {'ok', 'exc', 'budget'}; value = result / exception
    (value == 'cpu' when status == 'budget' because the CPU-time bound, not the event bound, was hit)."""
    count = [0]
    ev = mon.events
    old = None
    if cpu_seconds:
        def on_alarm(_s, _f):
            raise BudgetExceeded("cpu")
        old = signal.signal(signal.SIGVTALRM, on_alarm)
        signal.setitimer(signal.ITIMER_VIRTUAL, cpu_seconds)

    def tick(*_a):
        count[0] += 1
        if count[0] > budget:
            mon.set_events(TOOL, 0)
            raise BudgetExceeded()

    try:
        mon.use_tool_id(TOOL, "verif-budget")
    except ValueError:
        mon.free_tool_id(TOOL)
        mon.use_tool_id(TOOL, "verif-budget")
    mon.register_callback(TOOL, ev.PY_START, tick)
    mon.register_callback(TOOL, ev.JUMP, tick)
    mon.register_callback(TOOL, ev.BRANCH, tick)
    mon.set_events(TOOL, ev.PY_START | ev.JUMP | ev.BRANCH)
    try:
        try:
            r = fn()
            return "ok", r, count[0]
        except BudgetExceeded as e:
            return "budget", ("cpu" if e.args == ("cpu",) else None), count[0]
        except RecursionError as e:
            return "exc", e, count[0]
        except Exception as e:     # noqa
            return "exc", e, count[0]
    finally:
        if cpu_seconds:
            signal.setitimer(signal.ITIMER_VIRTUAL, 0)
            signal.signal(signal.SIGVTALRM, old if old is not None else signal.SIG_DFL)
        mon.set_events(TOOL, 0)
        mon.register_callback(TOOL, ev.PY_START, None)
        mon.register_callback(TOOL, ev.JUMP, None)
        mon.register_callback(TOOL, ev.BRANCH, None)
        mon.free_tool_id(TOOL)
