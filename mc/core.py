"""Runner core: sharded exhaustive exploration, deterministic merge, confirmation of
violations in a fresh process, known-finding matching, evidence writing.

A check module (checks/cXX.py) provides

    PROPERTY = "C03"
    LEVEL    = "exploration" | "fault_enumeration" | "model_checking" | "translation_validation"
    RULE     = "how cases are enumerated and what makes one non-trivial"
    def shards(ctx)            -> list of picklable shard descriptors (the whole space, partitioned)
    def run_shard(ctx, shard)  -> Acc
    def replay(ctx, witness)   -> None if the property holds on this witness, else a message (str)
  optional
    ASSUMPTIONS = [...]
    SERIAL = True              # run shards in the main process (checks that manage their own processes)
    def finalize(ctx, acc)     # vacuity self-tests / extra evidence; may call acc.harness_error(msg)
"""
import hashlib
import importlib
import json
import multiprocessing
import os
import subprocess
import sys
import time
import traceback

VERIF = os.path.dirname(os.path.dirname(os.path.abspath(__file__)))
MAX_SAMPLES = 4
MAX_WITNESS_PER_KEY = 1
MAX_CONFIRM = 12


class Ctx:
    def __init__(self, tier="quick", seed=0, repo="/repo", workers=None):
        self.tier = tier
        self.seed = seed
        self.repo = repo
        self.workers = workers or min(16, os.cpu_count() or 1)

    @property
    def thorough(self):
        return self.tier == "thorough"


def h8(x):
    """Stable 64-bit hash of a repr()-able key (independent of PYTHONHASHSEED)."""
    if not isinstance(x, (bytes, bytearray)):
        x = repr(x).encode("utf-8", "surrogatepass")
    return int.from_bytes(hashlib.blake2b(bytes(x), digest_size=8).digest(), "little")


class Acc:
    """Accumulator for one shard; merged deterministically by the runner."""

    def __init__(self):
        self.n = 0                 # evaluations
        self.nt = set()            # hashes of distinct non-trivial cases
        self.nt_disjoint = 0       # non-trivial cases distinct by construction (enumeration index)
        self.outcomes = set()      # distinct observed outcomes (hashes) -- vacuity guard
        self.samples = []
        self.viol = {}             # key -> {"witness":..., "msg":..., "count": n}
        self.extra = {}            # name -> int (summed) ; free-form measured counters
        self.states = set()        # canonical state hashes (model_checking)
        self.transitions = 0
        self.traces = 0
        self.notes = []
        self.harness_errors = []
        self.capped = None         # reason string if a cap was hit

    # -- recording -----------------------------------------------------------------
    def case(self, nontrivial=None, outcome=None):
        self.n += 1
        if nontrivial is not None:
            self.nt.add(h8(nontrivial))
        if outcome is not None and len(self.outcomes) < 100000:
            self.outcomes.add(h8(outcome))

    def count(self, name, k=1):
        self.extra[name] = self.extra.get(name, 0) + k

    def sample(self, x):
        if len(self.samples) < MAX_SAMPLES:
            self.samples.append(x)

    def state(self, canon):
        self.states.add(h8(canon))

    def violation(self, key, witness, msg):
        v = self.viol.get(key)
        if v is None:
            self.viol[key] = {"witness": witness, "msg": str(msg)[:2000], "count": 1}
        else:
            v["count"] += 1

    def note(self, s):
        if s not in self.notes and len(self.notes) < 50:
            self.notes.append(s)

    def harness_error(self, msg):
        self.harness_errors.append(str(msg)[:4000])

    # -- merging -------------------------------------------------------------------
    def merge(self, o):
        self.n += o.n
        self.nt |= o.nt
        self.nt_disjoint += o.nt_disjoint
        self.outcomes |= o.outcomes
        for s in o.samples:
            self.sample(s)
        for k, v in o.viol.items():
            if k in self.viol:
                self.viol[k]["count"] += v["count"]
            else:
                self.viol[k] = v
        for k, v in o.extra.items():
            self.extra[k] = self.extra.get(k, 0) + v
        self.states |= o.states
        self.transitions += o.transitions
        self.traces += o.traces
        for s in o.notes:
            self.note(s)
        self.harness_errors += o.harness_errors
        if o.capped and not self.capped:
            self.capped = o.capped


# ---------------------------------------------------------------------------------
_MOD = None
_CTX = None


def _die_with_parent():
    """pool initializer: a worker must not outlive the runner (a runner killed by a time limit would otherwise leave
    workers behind that keep a CPU busy for ever if the code under test loops)"""
    try:
        import ctypes
        import signal
        ctypes.CDLL(None).prctl(1, signal.SIGKILL)      # PR_SET_PDEATHSIG
        if os.getppid() == 1:
            os._exit(1)
    except Exception:      # noqa
        pass


def _worker(args):
    idx, shard = args
    try:
        acc = _MOD.run_shard(_CTX, shard)
    except BaseException:
        acc = Acc()
        acc.harness_error("shard %r crashed:\n%s" % (shard, traceback.format_exc()))
    return idx, acc


def quiet_logs():
    try:
        from loguru import logger
        logger.remove()
    except Exception:
        pass


def load_known():
    p = os.path.join(VERIF, "known_findings.json")
    if not os.path.exists(p):
        return {"findings": [], "fixed": []}
    with open(p) as f:
        return json.load(f)


def load_check(prop):
    return importlib.import_module("checks." + prop.lower())


def explore(mod, ctx):
    global _MOD, _CTX
    _MOD, _CTX = mod, ctx
    shards = list(mod.shards(ctx))
    order = list(range(len(shards)))
    if shards:
        r = ctx.seed % len(shards)
        order = order[r:] + order[:r]          # VERIF_SEED only rotates exploration order
    results = {}
    if getattr(mod, "SERIAL", False) or ctx.workers == 1 or len(shards) <= 1:
        for i in order:
            results[i] = _worker((i, shards[i]))[1]
    else:
        mpx = multiprocessing.get_context("fork")
        with mpx.Pool(min(ctx.workers, len(shards)), initializer=_die_with_parent) as pool:
            for i, acc in pool.imap_unordered(_worker, [(i, shards[i]) for i in order]):
                results[i] = acc
    total = Acc()
    for k, i in enumerate(order):
        a = results[i]
        # samples: take from shards in the (seed-rotated) exploration order
        total.merge(a)
    return total, len(shards)


def confirm_fresh(prop, witness, ctx):
    """Re-run one witness in a fresh process; returns (reproduced, output)."""
    os.makedirs(os.path.join(VERIF, "replay"), exist_ok=True)
    tmp = os.path.join(VERIF, "replay", ".confirm_%s_%d.json" % (prop, os.getpid()))
    with open(tmp, "w") as f:
        json.dump({"property": prop, "witness": witness}, f)
    try:
        p = subprocess.run([sys.executable, os.path.join(VERIF, "run_check.py"), prop, "--replay", tmp],
                           capture_output=True, text=True, timeout=1800,
                           env=dict(os.environ, VERIF_REPO=ctx.repo))
        return p.returncode == 1, (p.stdout + p.stderr)[-2000:]
    finally:
        try:
            os.remove(tmp)
        except OSError:
            pass


def write_evidence(mod, ctx, acc, wall, nshards, nviol):
    level = mod.LEVEL
    nontriv = len(acc.nt) + acc.nt_disjoint
    cov = {
        "evaluations": acc.n,
        "distinct_nontrivial": nontriv,
        "rule": mod.RULE,
        "samples": acc.samples[:MAX_SAMPLES] or ["<no sample recorded>"],
        "exhaustive": acc.capped is None,
        "distinct_outcomes": len(acc.outcomes),
        "shards": nshards,
    }
    if acc.capped:
        cov["cap_hit"] = acc.capped
    if level == "model_checking":
        cov["states"] = len(acc.states)
        cov["transitions"] = acc.transitions
        cov["traces_validated_against_impl"] = acc.traces
    if level == "translation_validation":
        cov["programs"] = acc.extra.get("programs", 0)
        cov["disagreements_checked"] = acc.extra.get("disagreements_checked", 0)
    for k, v in sorted(acc.extra.items()):
        cov.setdefault(k, v)
    if acc.notes:
        cov["notes"] = acc.notes
    space = getattr(mod, "space", None)
    if callable(space):
        cov["space"] = space(ctx)
    ev = {
        "property_id": mod.PROPERTY,
        "tier": ctx.tier,
        "seed": ctx.seed,
        "level": level,
        "coverage": cov,
        "assumptions": list(getattr(mod, "ASSUMPTIONS", [])),
        "wall_s": round(wall, 2),
        "violations": nviol,
        "known_findings_observed": sorted(k for k in acc.viol if k in _known_keys(mod.PROPERTY)),
        "repo": ctx.repo,
    }
    evdir = os.environ.get("VERIF_EVIDENCE_DIR") or os.path.join(VERIF, "evidence")
    os.makedirs(evdir, exist_ok=True)
    path = os.path.join(evdir, mod.PROPERTY + ".json")
    with open(path + ".tmp", "w") as f:
        json.dump(ev, f, indent=1, sort_keys=True, default=str)
    os.replace(path + ".tmp", path)
    return path


def _known_keys(prop):
    return {f["key"]: f for f in load_known().get("findings", []) if f["property"] == prop}


def main_check(prop, ctx):
    quiet_logs()
    t0 = time.time()
    mod = load_check(prop)
    acc, nshards = explore(mod, ctx)
    if hasattr(mod, "finalize"):
        mod.finalize(ctx, acc)
    known = _known_keys(prop)
    unknown = []
    confirmed = 0
    for key in sorted(acc.viol):
        v = acc.viol[key]
        if confirmed < MAX_CONFIRM:
            ok, out = confirm_fresh(prop, v["witness"], ctx)
            confirmed += 1
            if not ok:
                acc.harness_error("violation %s did not reproduce in a fresh process:\n%s\noriginal: %s"
                                  % (key, out, v["msg"]))
                continue
        if key in known:
            print("KNOWN-FINDING: property=%s %s %s (x%d)" % (prop, key, known[key].get("what", ""), v["count"]))
        else:
            unknown.append(key)
    for key in sorted(known):
        if key not in acc.viol:
            print("NOTE: listed known finding not observed in this tier: property=%s %s" % (prop, key))
    for key in unknown:
        v = acc.viol[key]
        rp = os.path.join(VERIF, "replay", "%s_%016x.json" % (prop, h8(key)))
        with open(rp, "w") as f:
            json.dump({"property": prop, "key": key, "witness": v["witness"], "msg": v["msg"],
                       "count": v["count"], "tier": ctx.tier}, f, indent=1, default=str)
        print("VIOLATION property=%s replay=%s" % (prop, rp))
        print("  key=%s count=%d\n  %s" % (key, v["count"], v["msg"].replace("\n", "\n  ")))
    wall = time.time() - t0
    path = write_evidence(mod, ctx, acc, wall, nshards, len(unknown))
    print("%s tier=%s seed=%d evaluations=%d nontrivial=%d outcomes=%d states=%d transitions=%d "
          "violations(unknown)=%d known=%d wall=%.1fs evidence=%s"
          % (prop, ctx.tier, ctx.seed, acc.n, len(acc.nt) + acc.nt_disjoint, len(acc.outcomes),
             len(acc.states), acc.transitions, len(unknown),
             len([k for k in acc.viol if k in known]), wall, path))
    if acc.harness_errors:
        for e in acc.harness_errors[:10]:
            print("HARNESS-ERROR property=%s %s" % (prop, e))
        return 2
    return 1 if unknown else 0


def main_replay(prop, path, ctx):
    quiet_logs()
    mod = load_check(prop)
    with open(path) as f:
        d = json.load(f)
    msg = mod.replay(ctx, d["witness"])
    if msg is None:
        print("replay: property holds on this witness")
        return 0
    print("VIOLATION property=%s replay=%s" % (prop, path))
    print("  " + str(msg).replace("\n", "\n  "))
    return 1
