"""Multi-process step scheduler (engine E5): exhaustive exploration of the interleavings of real OS processes.

Processes.  A *zygote* (this file run with --zygote) imports the code under test from the tree named on its command
line (first on sys.path) and a *task module* (e.g. checks.c36) once, then forks a *worker* process for every 'spawn'
request; each worker connects back to the controller over a Unix socket.  The task module provides

    wk_preload()         optional, in the zygote: import everything heavy
    wk_warm()            optional, in a fresh worker after 'ready': touch what the first step would otherwise fault in
    wk_install(api)      in the worker: install hooks; a hook calls api.point(kind, info) at every scheduling point
                         and api.flag(name) to raise a flag (e.g. 'blocked') that travels with the next event
    wk_run(arg) -> json  the operation whose steps are interleaved (e.g. construct a Session)
    wk_failed()          optional: the operation raised; release what a terminating process would release
    wk_reset()           drop everything the last run left open

A *Group* is one controller with n long-lived workers and a private scratch directory.  The controller owns every
scheduling decision: exactly one worker runs at any time, all others are idle (operation not started), paused inside
api.point() or finished.  One *step* of worker w = "let w run until it is about to execute its next scheduling point,
or until its operation ends".  A worker's operation is started lazily by its first grant and its first scheduling
point is not paused at: everything before the first point commutes with the other workers' steps or is a lock
acquisition (a right mover), so [prologue + first point] is one step.  Hence an operation with k scheduling points
has k steps and n such operations have (n*k)! / (k!)^n schedules.

Exploration is stateless depth-first search with prefix replay: every schedule is run from a fresh initial state
(task callback), following a prefix of forced choices and then the default policy 'lowest eligible worker'; every
untaken alternative met on the way becomes a new prefix.  Points are discovered dynamically, nothing about their
number is assumed.  If the granted worker reports the flag 'blocked' while another worker is paused mid-operation,
the granted worker was not enabled there: the schedule is infeasible and is pruned.

No wall clock takes part in any verdict: a lock conflict is made an immediate error by the task (timeout 0), which is
deterministic because no two workers ever run at the same time.  REPLY_TIMEOUT only guards the harness itself (a
worker that never answers is killed and reported as a harness error).  Horizons: MAX_POINTS steps per worker and
schedule, MAX_SCHEDULES schedule runs per exploration (hitting one marks the evidence as capped).

Scratch: everything lives under the pool's root directory (VERIF_SCHED_ROOT in the zygote and its workers).
Clean-up: workers exit on socket EOF, on 'quit', when their parent (the zygote) disappears; the zygote exits on stdin
EOF; the controller kills by PID what is left (also from atexit).
"""
import atexit
import collections
import importlib
import json
import os
import select
import shutil
import signal
import socket
import subprocess
import sys
import tempfile
import threading
import time
import traceback

REPLY_TIMEOUT = 300.0      # harness guard only (seconds without an answer from a granted worker)
BLOCKED_GRACE = 10.0       # harness guard only: a worker that reported 'blocked' while another is paused and then does
                           # not end its step (it spins on the lock) is killed; the schedule is infeasible either way
MAX_POINTS = 32            # horizon: steps of one worker in one schedule
MAX_SCHEDULES = 20000      # horizon: schedule runs of one exploration


class SchedError(Exception):
    """The scheduling machinery itself failed (never a verdict about the code under test)."""


# =====================================================================================================
# worker side
# =====================================================================================================
class _WorkerApi:
    def __init__(self, fin, fout):
        self.fin = fin
        self.fout = fout
        self.passed = []
        self.flags = set()
        self.free = 0

    def send(self, obj):
        self.fout.write(json.dumps(obj, default=repr) + "\n")
        self.fout.flush()

    def recv(self):
        try:
            line = self.fin.readline()
        except OSError:
            line = ""
        if not line:
            os._exit(0)            # controller is gone
        return json.loads(line)

    def event(self, ev, **kw):
        kw.update(ev=ev, passed=self.passed, flags=sorted(self.flags))
        self.passed = []
        self.flags = set()
        self.send(kw)

    # ---- called by the task's hooks, inside the operation --------------------------------------------
    def flag(self, name):
        if name not in self.flags:
            self.flags.add(name)
            self.send({"ev": "flag", "name": name})      # at once: the operation may never get to its next event

    def point(self, kind, info=None):
        if self.free > 0:          # first point of a lazily started operation: part of the first step
            self.free -= 1
            self.passed.append([kind, info])
            return
        self.event("point", kind=kind, info=info)
        self.passed.append([kind, info])
        while True:
            cmd = self.recv()
            if cmd["cmd"] == "go":
                return
            if cmd["cmd"] == "quit":
                os._exit(0)
            self.send({"ev": "protocol-error", "got": cmd})


def _watch_parent(ppid):
    while True:
        time.sleep(1.0)
        if os.getppid() != ppid:
            os._exit(3)


def _worker_loop(task, sockpath, token, ppid):
    signal.signal(signal.SIGCHLD, signal.SIG_DFL)
    s = socket.socket(socket.AF_UNIX, socket.SOCK_STREAM)
    s.connect(sockpath)
    api = _WorkerApi(s.makefile("r"), s.makefile("w"))
    threading.Thread(target=_watch_parent, args=(ppid,), daemon=True).start()
    try:
        task.wk_install(api)
        import androguard
        api.send({"ev": "ready", "token": token, "pid": os.getpid(),
                  "androguard": os.path.dirname(os.path.abspath(androguard.__file__))})
    except BaseException:
        api.send({"ev": "fatal", "token": token, "pid": os.getpid(), "trace": traceback.format_exc()})
        os._exit(4)
    if hasattr(task, "wk_warm"):
        task.wk_warm()               # all workers warm up in parallel while the controller goes on spawning
    while True:
        cmd = api.recv()
        c = cmd["cmd"]
        if c == "quit":
            os._exit(0)
        elif c == "run":
            api.passed, api.flags = [], set()
            api.free = 1 if cmd.get("lazy", True) else 0
            try:
                out = ("done", {"result": task.wk_run(cmd["arg"])})
            except BaseException as e:
                out = ("exc", {"type": type(e).__name__, "msg": str(e)[:600]})
            if out[0] == "exc" and hasattr(task, "wk_failed"):
                try:
                    task.wk_failed()        # the exception and its frames are gone here
                except BaseException:
                    api.send({"ev": "fatal", "trace": traceback.format_exc()})
                    os._exit(4)
            api.event(out[0], **out[1])
        elif c == "reset":
            try:
                task.wk_reset()
                api.send({"ev": "reset"})
            except BaseException:
                api.send({"ev": "fatal", "trace": traceback.format_exc()})
                os._exit(4)
        else:
            api.send({"ev": "protocol-error", "got": cmd})


def zygote_main(argv):
    repo, verif, task_name, sockpath = argv[:4]
    fout = os.fdopen(os.dup(1), "w")
    devnull = os.open(os.devnull, os.O_WRONLY)
    os.dup2(devnull, 1)                       # the code under test must not be able to talk on a protocol channel
    sys.stdout = open(os.devnull, "w")
    sys.path.insert(0, verif)
    sys.path.insert(0, repo)                  # the tree under test wins over any installed copy
    try:
        try:
            from loguru import logger
            logger.remove()
        except Exception:
            pass
        task = importlib.import_module(task_name)
        if hasattr(task, "wk_preload"):
            task.wk_preload()
        signal.signal(signal.SIGCHLD, signal.SIG_IGN)      # workers are reaped automatically
        fout.write(json.dumps({"ev": "ready", "pid": os.getpid()}) + "\n")
        fout.flush()
    except BaseException:
        fout.write(json.dumps({"ev": "fatal", "trace": traceback.format_exc()}) + "\n")
        fout.flush()
        os._exit(4)
    me = os.getpid()
    while True:
        line = sys.stdin.readline()
        if not line:
            os._exit(0)                       # controller is gone; the workers notice the parent change / socket EOF
        cmd = json.loads(line)
        if cmd["cmd"] == "spawn":
            if os.fork() == 0:
                try:
                    fout.close()
                    os.close(0)
                    _worker_loop(task, sockpath, cmd["token"], me)
                finally:
                    os._exit(5)
        elif cmd["cmd"] == "quit":
            os._exit(0)


# =====================================================================================================
# controller side
# =====================================================================================================
_LIVE_PIDS = set()
_LIVE_ROOTS = set()
_LIVE_LOCK = threading.Lock()


def kill_all_workers():
    """Last-resort cleanup (atexit): kill by PID every process this module started and has not seen exit, and
    remove the scratch directories of pools that were not closed."""
    with _LIVE_LOCK:
        pids = list(_LIVE_PIDS)
        _LIVE_PIDS.clear()
        roots = list(_LIVE_ROOTS)
        _LIVE_ROOTS.clear()
    for pid in pids:
        try:
            os.kill(pid, signal.SIGKILL)
        except OSError:
            pass
    for r in roots:
        shutil.rmtree(r, ignore_errors=True)


atexit.register(kill_all_workers)


def _track(pid, on=True):
    with _LIVE_LOCK:
        (_LIVE_PIDS.add if on else _LIVE_PIDS.discard)(pid)


class _Line:
    """Line-oriented JSON reader with a timeout on a file descriptor."""
    def __init__(self, fd, recv, who):
        self.fd, self._recv, self.who, self.buf = fd, recv, who, b""

    def get(self, timeout=REPLY_TIMEOUT):
        deadline = time.monotonic() + timeout
        while b"\n" not in self.buf:
            left = deadline - time.monotonic()
            if left <= 0:
                raise SchedError("%s did not answer within %.0f s (harness horizon)" % (self.who, timeout))
            r, _, _ = select.select([self.fd], [], [], min(left, 5.0))
            if r:
                try:
                    chunk = self._recv(65536)
                except OSError as e:
                    raise SchedError("%s: %s" % (self.who, e))
                if not chunk:
                    raise SchedError("%s closed its channel" % self.who)
                self.buf += chunk
        line, self.buf = self.buf.split(b"\n", 1)
        ev = json.loads(line)
        if ev.get("ev") in ("fatal", "protocol-error"):
            raise SchedError("%s: %r" % (self.who, ev))
        return ev


class Worker:
    def __init__(self, sock, ready):
        self.sock = sock
        self.pid = ready["pid"]
        self.info = ready
        self.rd = _Line(sock.fileno(), sock.recv, "worker %d" % self.pid)
        _track(self.pid)

    def send(self, obj):
        try:
            self.sock.sendall((json.dumps(obj) + "\n").encode())
        except OSError as e:
            raise SchedError("worker %d is gone: %s" % (self.pid, e))

    def recv(self, timeout=REPLY_TIMEOUT):
        return self.rd.get(timeout)

    def kill(self):
        if self.pid in _LIVE_PIDS:
            try:
                os.kill(self.pid, signal.SIGKILL)
            except OSError:
                pass
            _track(self.pid, False)
        try:
            self.sock.close()
        except OSError:
            pass

    def quit(self):
        try:
            self.send({"cmd": "quit"})
            r, _, _ = select.select([self.sock.fileno()], [], [], 5.0)
            if r and self.sock.recv(1) == b"":
                _track(self.pid, False)          # it exited by itself
        except (SchedError, OSError):
            pass
        self.kill()


Step = collections.namedtuple("Step", "w eligible ev blocked obs")


class Run:
    """One schedule executed on the real workers."""
    def __init__(self, n, prefix):
        self.n = n
        self.prefix = tuple(prefix)
        self.steps = []
        self.status = None        # complete | infeasible | invalid-prefix | horizon | incomplete (strict replay ran out)
        self.obs0 = None
        self.final = None         # per worker: last event ('done' / 'exc') or None

    @property
    def schedule(self):
        return tuple(s.w for s in self.steps)

    def observations(self):
        """What the determinism re-run compares: the structure of the run (who ran, who was eligible, which points were
        passed, how each step ended, returned results, exception types, the task's view of the shared state).  Free
        text (exception messages) is left out: it may quote values the implementation stores, e.g. timestamps."""
        keep = ("ev", "kind", "info", "passed", "flags", "result", "type", "killed", "blocked_by_long_pause")
        return [self.status, self.obs0,
                [[s.w, list(s.eligible), {k: s.ev[k] for k in keep if k in s.ev}, s.blocked, s.obs] for s in self.steps]]


class Group:
    """One controller: `size` workers plus a scratch directory."""

    def __init__(self, pool, workers, scratch):
        self.pool = pool
        self.dir = scratch
        os.makedirs(self.dir, exist_ok=True)
        self.workers = workers

    def close(self):
        for w in self.workers:
            w.quit()
        self.workers = []

    def _respawn(self, i):
        self.workers[i].kill()
        self.workers[i] = self.pool.spawn()

    def _await(self, i, others_mid):
        """The event that ends worker i's step ('point' / 'done' / 'exc').  'flag' notifications are folded in."""
        w = self.workers[i]
        flags = set()
        while True:
            spinning = others_mid and "blocked" in flags
            try:
                ev = w.recv(BLOCKED_GRACE if spinning else REPLY_TIMEOUT)
            except SchedError:
                if not spinning:
                    raise
                self._respawn(i)
                return {"ev": "exc", "type": "<killed by the harness: no progress after a lock conflict>", "msg": "",
                        "passed": [], "flags": sorted(flags), "killed": True}
            if ev.get("ev") == "flag":
                flags.add(ev["name"])
                continue
            ev["flags"] = sorted(flags | set(ev.get("flags", ())))
            return ev

    def call(self, i, arg):
        """Run the operation in worker i without any pausing (warm-up helper); returns the final event."""
        w = self.workers[i]
        w.send({"cmd": "run", "arg": arg, "lazy": True})
        for _ in range(MAX_POINTS + 1):
            ev = self._await(i, False)
            if ev["ev"] != "point":
                return ev
            w.send({"cmd": "go"})
        raise SchedError("operation did not end within %d points" % MAX_POINTS)

    def reset(self, idx):
        for i in idx:
            self.workers[i].send({"cmd": "reset"})
        for i in idx:
            ev = self._await(i, False)
            if ev.get("ev") != "reset":
                raise SchedError("reset answered %r" % (ev,))

    def run(self, n, prefix, fresh, observe, strict=False, lazy=True, long_pause=None):
        """Execute one schedule: forced choices `prefix`, then (unless strict) lowest-eligible-first.

        lazy=True: a worker's first step is [prologue + first point] (see module docstring).  lazy=False: its first step
        is the prologue alone (it pauses AT its first point), for initial states in which the prologue does not commute
        with the other workers' steps (e.g. it reads a schema another worker may change).

        fresh(group) -> arg handed to every worker's wk_run (a dict), or a list with one arg per worker (actors of
        different kinds);  observe(group) -> JSON-able view of the shared state.

        long_pause(point_event) -> True if a worker paused at that point stands for an unboundedly long computation
        (not for a momentary preemption).  A granted worker that reports 'blocked' while every other paused worker is
        in a long pause was enabled and really failed (no waiting within a bounded timeout would have helped): the
        step is NOT pruned, its event gets 'blocked_by_long_pause'.  Blocked by a worker in an ordinary pause: not
        enabled, schedule infeasible, as before.
        """
        arg = fresh(self)
        run = Run(n, prefix)
        run.obs0 = observe(self)
        args = arg if isinstance(arg, list) else [arg] * n
        status = ["idle"] * n
        count = [0] * n
        final = [None] * n
        paused_at = [None] * n
        try:
            depth = 0
            while True:
                eligible = tuple(w for w in range(n) if status[w] in ("idle", "paused"))
                if not eligible:
                    run.status = "complete"
                    break
                if depth < len(prefix):
                    w = prefix[depth]
                    if w not in eligible:
                        run.status = "invalid-prefix"
                        break
                elif strict:
                    run.status = "incomplete"
                    break
                else:
                    w = eligible[0]
                wk = self.workers[w]
                if status[w] == "idle":
                    wk.send({"cmd": "run", "arg": args[w], "lazy": bool(lazy)})
                else:
                    wk.send({"cmd": "go"})
                status[w] = "running"
                others_mid = any(status[o] == "paused" for o in range(n) if o != w)
                ev = self._await(w, others_mid)
                count[w] += 1
                kind = ev["ev"]
                if ev.get("killed"):
                    status[w] = "idle"               # a fresh worker took its place
                elif kind == "point":
                    status[w] = "paused"
                    paused_at[w] = ev
                elif kind in ("done", "exc"):
                    status[w] = kind
                    final[w] = ev
                else:
                    raise SchedError("unexpected event %r" % (ev,))
                blocked = "blocked" in ev.get("flags", ()) and others_mid
                if blocked and long_pause is not None and not ev.get("killed") and all(
                        long_pause(paused_at[o]) for o in range(n) if o != w and status[o] == "paused"):
                    blocked = False
                    ev["blocked_by_long_pause"] = True
                run.steps.append(Step(w, eligible, ev, blocked, observe(self)))
                depth += 1
                if blocked:
                    run.status = "infeasible"
                    break
                if count[w] > MAX_POINTS:
                    run.status = "horizon"
                    break
            run.final = final
        finally:
            self._drain(n, status)
        return run

    def _drain(self, n, status):
        """Bring every worker back to idle: let paused ones run to the end of their operation, then reset."""
        for w in range(n):
            try:
                k = 0
                while status[w] == "paused":
                    self.workers[w].send({"cmd": "go"})
                    ev = self._await(w, any(status[o] == "paused" for o in range(n) if o != w))
                    k += 1
                    if ev.get("killed"):
                        status[w] = "idle"
                    elif ev["ev"] in ("done", "exc"):
                        status[w] = ev["ev"]
                    elif k > MAX_POINTS:
                        raise SchedError("drain horizon")
                if status[w] == "running":
                    raise SchedError("worker left running")
            except SchedError:
                self._respawn(w)
                status[w] = "idle"
        try:
            self.reset([w for w in range(n) if status[w] != "idle"])
        except SchedError:
            for w in range(n):
                self._respawn(w)


class Pool:
    """One zygote, T groups of `size` workers, driven by T controller threads that share one work list."""

    def __init__(self, ngroups, size, repo, task_name):
        self.repo = repo
        self.root = tempfile.mkdtemp(prefix="verif_sched_")
        with _LIVE_LOCK:
            _LIVE_ROOTS.add(self.root)
        self.groups = []
        self.zygote = None
        self.lock = threading.Lock()
        self.ntok = 0
        try:
            self.sockpath = os.path.join(self.root, "ctl.sock")
            self.listener = socket.socket(socket.AF_UNIX, socket.SOCK_STREAM)
            self.listener.bind(self.sockpath)
            self.listener.listen(128)
            verif = os.path.dirname(os.path.dirname(os.path.abspath(__file__)))
            self.zygote = subprocess.Popen(
                [sys.executable, os.path.abspath(__file__), "--zygote", repo, verif, task_name, self.sockpath],
                stdin=subprocess.PIPE, stdout=subprocess.PIPE, stderr=subprocess.DEVNULL,
                env=dict(os.environ, PYTHONHASHSEED="0", VERIF_SCHED_ROOT=self.root), close_fds=True)
            _track(self.zygote.pid)
            self.zrd = _Line(self.zygote.stdout.fileno(), lambda k: os.read(self.zygote.stdout.fileno(), k), "zygote")
            ev = self.zrd.get()
            if ev.get("ev") != "ready":
                raise SchedError("zygote start-up: %r" % (ev,))
            ws = self.spawn(ngroups * size)
            for g in range(ngroups):
                self.groups.append(Group(self, ws[g * size:(g + 1) * size], os.path.join(self.root, "g%d" % g)))
        except BaseException:
            self.close()
            raise

    def spawn(self, k=None):
        """Fork one worker (k=None) or k workers at once (their start-up then overlaps)."""
        many = [None] * (1 if k is None else k)
        with self.lock:
            tokens = []
            for _ in many:
                self.ntok += 1
                tokens.append("w%d" % self.ntok)
                try:
                    self.zygote.stdin.write((json.dumps({"cmd": "spawn", "token": tokens[-1]}) + "\n").encode())
                    self.zygote.stdin.flush()
                except (OSError, ValueError) as e:
                    raise SchedError("zygote is gone: %s" % e)
            got = {}
            want = os.path.join(os.path.realpath(self.repo), "androguard")
            for _ in many:
                r, _, _ = select.select([self.listener.fileno()], [], [], REPLY_TIMEOUT)
                if not r:
                    raise SchedError("forked worker did not connect")
                sock, _ = self.listener.accept()
                ready = _Line(sock.fileno(), sock.recv, "new worker").get()
                if ready.get("ev") != "ready" or ready.get("token") not in tokens or ready["token"] in got:
                    sock.close()
                    raise SchedError("worker start-up: %r" % (ready,))
                got[ready["token"]] = Worker(sock, ready)
                if os.path.realpath(ready["androguard"]) != want:
                    raise SchedError("worker imported androguard from %s, expected %s" % (ready["androguard"], want))
            out = [got[t] for t in tokens]
            return out[0] if k is None else out

    def close(self):
        for g in self.groups:
            try:
                g.close()
            except Exception:
                pass
        self.groups = []
        z = self.zygote
        if z is not None:
            try:
                z.stdin.close()
                z.wait(timeout=5)
            except Exception:
                pass
            try:
                z.kill()
                z.wait(timeout=10)
            except Exception:
                pass
            try:
                z.stdout.close()
            except Exception:
                pass
            _track(z.pid, False)
            self.zygote = None
        try:
            self.listener.close()
        except Exception:
            pass
        shutil.rmtree(self.root, ignore_errors=True)
        with _LIVE_LOCK:
            _LIVE_ROOTS.discard(self.root)

    def map_dynamic(self, roots, handle):
        """Process a growing work list: handle(group, item) -> iterable of new items.  LIFO; returns when empty.

        Exceptions raised by handle are collected and returned (list of traceback strings)."""
        lock = threading.Condition()
        todo = list(reversed(list(roots)))
        state = {"busy": 0}
        errors = []

        def loop(group):
            while True:
                with lock:
                    while not todo and state["busy"] and not errors:
                        lock.wait()
                    if errors or not todo:
                        lock.notify_all()
                        return
                    item = todo.pop()
                    state["busy"] += 1
                try:
                    new = list(handle(group, item))
                except BaseException:
                    with lock:
                        errors.append(traceback.format_exc())
                        state["busy"] -= 1
                        lock.notify_all()
                    return
                with lock:
                    todo.extend(reversed(new))
                    state["busy"] -= 1
                    lock.notify_all()

        threads = [threading.Thread(target=loop, args=(g,)) for g in self.groups]
        for t in threads:
            t.start()
        for t in threads:
            t.join()
        return errors


class Exploration:
    """Result of exploring all schedules of n workers."""
    def __init__(self, n):
        self.n = n
        self.complete = {}        # schedule tuple -> Run
        self.infeasible = {}      # schedule tuple (ending in the blocked grant) -> Run
        self.nodes = {}           # prefix tuple -> [eligible tuple, set(blocked workers)]
        self.errors = []          # harness errors (strings)
        self.capped = None
        self.runs = 0
        self.reruns = 0

    def deadlocks(self):
        """Prefixes after which every eligible worker is blocked by a paused one."""
        return sorted(p for p, (el, bl) in self.nodes.items() if el and set(el) == bl)


def explore(pool, n, fresh, observe, rerun=True, lazy=True, long_pause=None):
    """All interleavings of n workers' steps (stateless DFS with prefix replay, points discovered dynamically)."""
    ex = Exploration(n)
    lock = threading.Lock()

    def handle(group, prefix):
        with lock:
            ex.runs += 1
            if ex.runs > MAX_SCHEDULES:
                ex.capped = "more than %d schedule runs for N=%d" % (MAX_SCHEDULES, n)
                return []
        run = group.run(n, prefix, fresh, observe, lazy=lazy, long_pause=long_pause)
        sched = run.schedule
        with lock:
            for d, s in enumerate(run.steps):
                node = ex.nodes.setdefault(sched[:d], [s.eligible, set()])
                if node[0] != s.eligible:
                    ex.errors.append("eligible set after %r differs between runs: %r vs %r" % (sched[:d], node[0], s.eligible))
                if s.blocked:
                    node[1].add(s.w)
        if run.status == "complete":
            if rerun:
                again = group.run(n, sched, fresh, observe, strict=True, lazy=lazy, long_pause=long_pause)
                with lock:
                    ex.reruns += 1
                    if again.observations() != run.observations():
                        ex.errors.append("schedule %r is not reproducible:\n first: %s\n again: %s"
                                         % (sched, json.dumps(run.observations(), default=repr)[:1500],
                                            json.dumps(again.observations(), default=repr)[:1500]))
            with lock:
                ex.complete[sched] = run
        elif run.status == "infeasible":
            with lock:
                ex.infeasible[sched] = run
        elif run.status == "horizon":
            with lock:
                ex.capped = "a worker passed more than %d points in schedule %r" % (MAX_POINTS, sched)
            return []
        else:
            with lock:
                ex.errors.append("prefix %r could not be followed (%s): exploration is not deterministic" % (prefix, run.status))
            return []
        new = []
        for d in range(len(prefix), len(run.steps)):
            s = run.steps[d]
            for alt in s.eligible:
                if alt != s.w:
                    new.append(sched[:d] + (alt,))
        return new

    ex.errors += pool.map_dynamic([()], handle)
    return ex


if __name__ == "__main__":
    if len(sys.argv) > 1 and sys.argv[1] == "--zygote":
        zygote_main(sys.argv[2:])
