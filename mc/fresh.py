"""Pristine-process execution and history-aware violation recording.

Why: some defects need a HISTORY (a module- or class-level cache filled by an earlier call).  A check whose shards run
one after another in a re-used worker process then sees violations that depend on which shards that worker happened
to run before - not reproducible, a HARNESS-ERROR.  The remedy is to make histories explicit:

  * isolated(fn, *args)      run fn in a fork of the calling process and return its result.  A pool worker that never
                             calls into the code under test (it may import it) stays pristine, so every shard started
                             through isolated() begins with pristine module state and its call sequence IS its history.
  * Pristine()               a fork server created while the process is still pristine; .call(fn, *args) runs fn in a
                             fresh fork of that pristine image (used to confirm a candidate history from inside a shard
                             whose own state is already dirty).
  * HistoryAcc               an Acc whose violation() classifies each new kind of violation by re-running it in pristine
                             forks: the judged call alone -> plain key; the explicit history recorded by the check ->
                             "<hkey>" (e.g. "fraction:after:dimension"); the shard prefix -> "<key>:history-dependent".
                             The stored witness is the shortest history that reproduces, so replay() in a fresh process
                             reproduces it too.  Nothing reproducible -> harness error.
"""
import gc
import os
import pickle
import struct
import traceback

from mc.core import Acc


def _send(fd, obj):
    data = pickle.dumps(obj, pickle.HIGHEST_PROTOCOL)
    data = struct.pack("<Q", len(data)) + data
    view = memoryview(data)
    while view:
        n = os.write(fd, view[:1 << 16])
        view = view[n:]


def _read(fd, n):
    chunks = []
    while n:
        b = os.read(fd, min(n, 1 << 20))
        if not b:
            raise EOFError
        chunks.append(b)
        n -= len(b)
    return b"".join(chunks)


def _recv(fd):
    (n,) = struct.unpack("<Q", _read(fd, 8))
    return pickle.loads(_read(fd, n))


def isolated(fn, *args):
    """fn(*args) in a fork of this process; the result comes back pickled.  Exceptions are re-raised as RuntimeError."""
    r, w = os.pipe()
    gc.freeze()          # keep the child's collector from touching (= copying) every inherited page
    pid = os.fork()
    if pid == 0:
        try:
            os.close(r)
            try:
                out = ("ok", fn(*args))
            except BaseException:      # noqa
                out = ("err", traceback.format_exc())
            try:
                _send(w, out)
            except BaseException:      # noqa
                pass
        finally:
            os._exit(0)
    os.close(w)
    try:
        kind, val = _recv(r)
    except EOFError:
        kind, val = "err", "isolated child %d died without a result" % pid
    finally:
        os.close(r)
        os.waitpid(pid, 0)
    if kind == "err":
        raise RuntimeError(val)
    return val


class Pristine:
    """Fork server holding the (pristine) image of the process at construction time."""

    def __init__(self):
        self.owner = os.getpid()
        req_r, self._req_w = os.pipe()
        self._res_r, res_w = os.pipe()
        self._pid = os.fork()
        if self._pid == 0:
            try:
                os.close(self._req_w)
                os.close(self._res_r)
                while True:
                    try:
                        fn, args = _recv(req_r)
                    except EOFError:
                        break
                    try:
                        out = ("ok", isolated(fn, *args))
                    except BaseException:      # noqa
                        out = ("err", traceback.format_exc())
                    _send(res_w, out)
            finally:
                os._exit(0)
        os.close(req_r)
        os.close(res_w)

    def call(self, fn, *args):
        _send(self._req_w, (fn, args))
        kind, val = _recv(self._res_r)
        if kind == "err":
            raise RuntimeError(val)
        return val

    def close(self):
        for fd in (self._req_w, self._res_r):
            try:
                os.close(fd)
            except OSError:
                pass
        os.waitpid(self._pid, 0)


class HistoryAcc(Acc):
    """Acc for a shard that started in a pristine process.

    The check reports  violation(key, witness, msg)  with
        witness["history"]   list of call descriptors, the last one is the judged call (required)
        witness["_hkey"]     key to use when the explicit history (len > 1) is what reproduces it (optional)
        witness["_alone"]    the judged call stripped of its context when that is not simply history[-1:] (e.g. a
                             one-attribute document for an attribute judged inside a two-attribute document) (optional)
        witness["_pkey"]     key to use when only the shard prefix reproduces it (default key + ":history-dependent")
        witness["_prefix"]   descriptor from which replay can re-run the shard up to the judged call (optional)
    replay_fn(ctx, witness) -> None | str  must understand {"history": [...]} and {"prefix": ..., "history": [last]}.
    """

    def __init__(self, srv, replay_fn, ctx):
        super().__init__()
        self._srv, self._replay, self._ctx = srv, replay_fn, ctx
        self._cls = {}

    def __reduce__(self):
        # travels back to the runner as a plain Acc
        a = Acc()
        a.__dict__.update({k: v for k, v in self.__dict__.items() if not k.startswith("_")})
        return (_rebuild, (a.__dict__,))

    def _confirm(self, w):
        try:
            return self._srv.call(self._replay, self._ctx, w) is not None
        except RuntimeError as e:
            self.harness_error("pristine replay crashed: %s" % e)
            return False

    def violation(self, key, witness, msg):
        hist = witness["history"]
        hkey = witness.get("_hkey")
        prefix = witness.get("_prefix")
        pub = {k: v for k, v in witness.items() if not k.startswith("_")}
        sig = (key, hkey)
        # a history-/prefix-dependent classification is shared by all keys that fold into the same final key
        coarse = ("coarse", witness.get("_pkey") or key, hkey)
        alone = witness.get("_alone") or hist[-1:]
        mode = self._cls.get(sig) or self._cls.get(coarse)
        if mode is None:
            if self._confirm(dict(pub, history=alone)):
                mode = "alone"
            elif alone != hist and self._confirm(pub):
                mode = "history"
            elif prefix is not None and self._confirm(dict(pub, history=hist[-1:], prefix=prefix)):
                mode = "prefix"
            else:
                self.harness_error("violation %s seen in-process is reproduced neither alone, nor by its recorded history, "
                                   "nor by the shard prefix: %s" % (key, msg))
                return
            self._cls[sig] = mode
            if mode != "alone":
                self._cls[coarse] = mode
        if mode == "alone":
            super().violation(key, dict(pub, history=alone), msg)
        elif mode == "history":
            super().violation(hkey or key + ":after-history", pub, msg + "  [after %r]" % (hist[:-1],))
        else:
            super().violation(witness.get("_pkey") or key + ":history-dependent", dict(pub, history=hist[-1:], prefix=prefix),
                              msg + "  [only after the preceding calls of shard %r]" % (prefix,))


def _rebuild(d):
    a = Acc()
    a.__dict__.update(d)
    return a
