"""Independent Dalvik interpreter for the int/long subset (reference model of C21).

Written from the Dalvik bytecode specification ("Summary of bytecode set"); decoding uses gen/dalvik.py (the
framework's own opcode table), nothing from androguard.

Register file: `registers` 32-bit slots (stored as unsigned ints); a wide value occupies the pair (v, v+1),
low word first.  Arguments are placed in the LAST `ins` registers in declaration order (long = 2 slots).

Semantics implemented
  * int arithmetic wraps modulo 2^32, long modulo 2^64 (two's complement);
  * shl/shr/ushr: the count is taken from an *int* register (also for the -long forms) and masked with
    0x1f (int) / 0x3f (long); shr is arithmetic, ushr logical;
  * div/rem: truncation toward zero, remainder takes the sign of the dividend, divisor 0 raises
    java.lang.ArithmeticException, MIN / -1 == MIN and MIN % -1 == 0 (no exception);
  * rsub-int(/lit8): literal - register;  lit16 / lit8 literals are sign extended;
  * int-to-long sign-extends, long-to-int truncates, int-to-byte/short sign-extend the low 8/16 bits,
    int-to-char zero-extends the low 16 bits;
  * neg = 0 - x, not = x ^ -1;  cmp-long: -1 / 0 / 1;
  * const/4, const/16, const, const/high16 (lit << 16), const-wide/16, const-wide/32 (sign extended to 64),
    const-wide, const-wide/high16 (lit << 48);
  * move, move/from16, move/16 and the -wide forms; nop;
  * if-<test> vA,vB / if-<test>z vA: signed 32-bit comparison, branch offset in code units relative to the
    instruction; goto, goto/16, goto/32;
  * packed-switch / sparse-switch: payload located relative to the switch instruction, targets relative to
    the switch instruction, no match falls through to the next instruction (3 units further);
  * return vA / return-wide vA / return-void.

execute() returns ("ret", python int) | ("exc", "java.lang.ArithmeticException").  Termination is enforced by
a step budget (StepLimit), never by time.
"""
import struct

from gen import dalvik as D

M32 = 0xffffffff
M64 = 0xffffffffffffffff
ARITH = "java.lang.ArithmeticException"


class StepLimit(Exception):
    pass


class Unsupported(Exception):
    pass


class _Arith(Exception):
    pass


def s32(v):
    v &= M32
    return v - 0x100000000 if v & 0x80000000 else v


def s64(v):
    v &= M64
    return v - 0x10000000000000000 if v & 0x8000000000000000 else v


def _div(a, b):
    if b == 0:
        raise _Arith()
    q = abs(a) // abs(b)
    return -q if (a < 0) != (b < 0) else q


def _rem(a, b):
    if b == 0:
        raise _Arith()
    r = abs(a) % abs(b)
    return -r if a < 0 else r


# value-level operators on *signed* python ints of the operand width; result is wrapped by the caller
ARITH_OPS = {
    "add": lambda a, b: a + b,
    "sub": lambda a, b: a - b,
    "mul": lambda a, b: a * b,
    "div": _div,
    "rem": _rem,
    "and": lambda a, b: a & b,
    "or": lambda a, b: a | b,
    "xor": lambda a, b: a ^ b,
}


def _shift(op, a, n, bits):
    """a: signed value of width bits; n: already masked count"""
    if op == "shl":
        return a << n
    if op == "shr":
        return a >> n
    mask = (1 << bits) - 1
    return (a & mask) >> n          # ushr


IF_TESTS = {
    "eq": lambda a, b: a == b,
    "ne": lambda a, b: a != b,
    "lt": lambda a, b: a < b,
    "ge": lambda a, b: a >= b,
    "gt": lambda a, b: a > b,
    "le": lambda a, b: a <= b,
}


class Machine:
    def __init__(self, code, registers):
        self.code = bytes(code)
        self.nreg = registers
        self.cache = {}

    def ins_at(self, pc):
        i = self.cache.get(pc)
        if i is None:
            i = self.cache[pc] = self._prep(D.decode(self.code, pc), pc)
        return i

    def _prep(self, i, pc):
        """-> (kind, a, b, c, length_bytes) small tuples interpreted by run()"""
        n, r, ln = i.name, i.regs, i.length
        if n == "nop":
            return ("nop", 0, 0, 0, ln)
        if n in ("move", "move/from16", "move/16"):
            return ("move", r[0], r[1], 0, ln)
        if n in ("move-wide", "move-wide/from16", "move-wide/16"):
            return ("movew", r[0], r[1], 0, ln)
        if n in ("const/4", "const/16", "const", "const/high16"):
            return ("const", r[0], i.lit & M32, 0, ln)
        if n in ("const-wide/16", "const-wide/32", "const-wide", "const-wide/high16"):
            return ("constw", r[0], i.lit & M64, 0, ln)
        if n == "return":
            return ("ret", r[0], 0, 0, ln)
        if n == "return-wide":
            return ("retw", r[0], 0, 0, ln)
        if n == "return-void":
            return ("retv", 0, 0, 0, ln)
        if n in ("goto", "goto/16", "goto/32"):
            return ("goto", pc + 2 * i.branch, 0, 0, ln)
        if n.startswith("if-"):
            t = n[3:]
            if t.endswith("z"):
                return ("ifz", IF_TESTS[t[:-1]], r[0], pc + 2 * i.branch, ln)
            return ("if", IF_TESTS[t], (r[0], r[1]), pc + 2 * i.branch, ln)
        if n in ("packed-switch", "sparse-switch"):
            po = pc + 2 * i.branch
            ident, size = struct.unpack_from("<HH", self.code, po)
            table = {}
            if n == "packed-switch":
                assert ident == 0x0100, "bad packed payload"
                first, = struct.unpack_from("<i", self.code, po + 4)
                for k in range(size):
                    t, = struct.unpack_from("<i", self.code, po + 8 + 4 * k)
                    table[first + k] = pc + 2 * t
            else:
                assert ident == 0x0200, "bad sparse payload"
                for k in range(size):
                    key, = struct.unpack_from("<i", self.code, po + 4 + 4 * k)
                    t, = struct.unpack_from("<i", self.code, po + 4 + 4 * size + 4 * k)
                    table[key] = pc + 2 * t
            return ("switch", r[0], table, 0, ln)
        if n == "cmp-long":
            return ("cmpl", r[0], r[1], r[2], ln)
        if n in ("neg-int", "not-int", "neg-long", "not-long"):
            return ("un" + ("w" if n.endswith("long") else ""), r[0], r[1], n[:3], ln)
        if n == "int-to-long":
            return ("i2l", r[0], r[1], 0, ln)
        if n == "long-to-int":
            return ("l2i", r[0], r[1], 0, ln)
        if n in ("int-to-byte", "int-to-char", "int-to-short"):
            return ("i2" + n[7], r[0], r[1], 0, ln)
        # binary operators
        base, _, form = n.partition("/")
        if base == "rsub-int":
            return ("rsub", r[0], r[1], i.lit, ln)
        op, _, ty = base.partition("-")
        if ty in ("int", "long") and (op in ARITH_OPS or op in ("shl", "shr", "ushr")):
            wide = ty == "long"
            if form in ("lit8", "lit16"):
                assert not wide
                return ("binlit", r[0], r[1], (op, i.lit), ln)
            if form == "2addr":
                dst, x, y = r[0], r[0], r[1]
            elif form == "":
                dst, x, y = r
            else:
                raise Unsupported(n)
            return ("binw" if wide else "bin", dst, (x, y), op, ln)
        raise Unsupported(n)

    def run(self, regs, max_steps):
        """regs: list of unsigned 32-bit ints (mutated)."""
        pc = 0
        steps = 0
        ins_at = self.ins_at
        cache = self.cache

        def getw(v):
            return s64(regs[v] | (regs[v + 1] << 32))

        def setw(v, x):
            x &= M64
            regs[v] = x & M32
            regs[v + 1] = x >> 32

        try:
            while True:
                steps += 1
                if steps > max_steps:
                    raise StepLimit("more than %d steps" % max_steps)
                t = cache.get(pc)
                if t is None:
                    t = ins_at(pc)
                k, a, b, c, ln = t
                if k == "bin":
                    x, y = s32(regs[b[0]]), s32(regs[b[1]])
                    if c in ARITH_OPS:
                        regs[a] = ARITH_OPS[c](x, y) & M32
                    else:
                        regs[a] = _shift(c, x, y & 31, 32) & M32
                elif k == "binlit":
                    op, lit = c
                    x = s32(regs[b])
                    if op in ARITH_OPS:
                        regs[a] = ARITH_OPS[op](x, lit) & M32
                    else:
                        regs[a] = _shift(op, x, lit & 31, 32) & M32
                elif k == "rsub":
                    regs[a] = (c - s32(regs[b])) & M32
                elif k == "binw":
                    x = getw(b[0])
                    if c in ARITH_OPS:
                        setw(a, ARITH_OPS[c](x, getw(b[1])))
                    else:
                        setw(a, _shift(c, x, regs[b[1]] & 63, 64))
                elif k == "if":
                    if a(s32(regs[b[0]]), s32(regs[b[1]])):
                        pc = c
                        continue
                elif k == "ifz":
                    if a(s32(regs[b]), 0):
                        pc = c
                        continue
                elif k == "goto":
                    pc = a
                    continue
                elif k == "const":
                    regs[a] = b
                elif k == "constw":
                    setw(a, b)
                elif k == "move":
                    regs[a] = regs[b]
                elif k == "movew":
                    setw(a, getw(b))
                elif k == "ret":
                    return ("ret", s32(regs[a]))
                elif k == "retw":
                    return ("ret", getw(a))
                elif k == "retv":
                    return ("ret", None)
                elif k == "switch":
                    tgt = b.get(s32(regs[a]))
                    if tgt is not None:
                        pc = tgt
                        continue
                elif k == "cmpl":
                    x, y = getw(b), getw(c)
                    regs[a] = (0 if x == y else (1 if x > y else -1)) & M32
                elif k == "un":
                    x = s32(regs[b])
                    regs[a] = (-x if c == "neg" else ~x) & M32
                elif k == "unw":
                    x = getw(b)
                    setw(a, -x if c == "neg" else ~x)
                elif k == "i2l":
                    setw(a, s32(regs[b]))
                elif k == "l2i":
                    regs[a] = regs[b]            # low word of the pair
                elif k == "i2b":
                    v = regs[b] & 0xff
                    regs[a] = (v - 0x100 if v & 0x80 else v) & M32
                elif k == "i2s":
                    v = regs[b] & 0xffff
                    regs[a] = (v - 0x10000 if v & 0x8000 else v) & M32
                elif k == "i2c":
                    regs[a] = regs[b] & 0xffff
                elif k == "nop":
                    pass
                else:
                    raise Unsupported(k)
                pc += ln
        except _Arith:
            return ("exc", ARITH)


def place_args(registers, params, args):
    """params: string over 'I','J' (also B,S,C,Z treated as int); -> register list with args in the last slots."""
    width = sum(2 if p == "J" else 1 for p in params)
    regs = [0] * registers
    v = registers - width
    for p, x in zip(params, args):
        if p == "J":
            x &= M64
            regs[v] = x & M32
            regs[v + 1] = x >> 32
            v += 2
        else:
            regs[v] = x & M32
            v += 1
    return regs


def execute(code, registers, params, args, max_steps=20000, machine=None):
    m = machine or Machine(code, registers)
    return m.run(place_args(registers, params, args), max_steps)
