"""Reference meaning of a typed resource value (Res_value dataType + data), after AOSP
android.util.TypedValue (complexToFloat, coerceToString) and ResourceTypes.h.

Two things are provided:

  meaning(t, d)          -> the value as *data*: (kind, ...) - independent of any textual convention
  matches(t, d, text)    -> None if `text` denotes that value, else a reason (str); "unjudged" kinds return None
  canonical(t, d)        -> one conventional spelling (only used for messages / samples)

Textual conventions the property does not fix (number of decimals, %f vs shortest repr, case and padding of hex
digits) are NOT compared: numbers are parsed from the text and compared numerically (relative tolerance REL plus
the resolution of a six-decimal print ABS), the sign/marker/unit/prefix parts are compared exactly.
"""
import math
import re
import struct

TYPE_NULL = 0x00
TYPE_REFERENCE = 0x01
TYPE_ATTRIBUTE = 0x02
TYPE_STRING = 0x03
TYPE_FLOAT = 0x04
TYPE_DIMENSION = 0x05
TYPE_FRACTION = 0x06
TYPE_DYNAMIC_REFERENCE = 0x07
TYPE_DYNAMIC_ATTRIBUTE = 0x08
TYPE_INT_DEC = 0x10
TYPE_INT_HEX = 0x11
TYPE_INT_BOOLEAN = 0x12
TYPE_INT_COLOR_ARGB8 = 0x1C
TYPE_INT_COLOR_RGB8 = 0x1D
TYPE_INT_COLOR_ARGB4 = 0x1E
TYPE_INT_COLOR_RGB4 = 0x1F

TYPE_NAMES = {0x00: "null", 0x01: "reference", 0x02: "attribute", 0x03: "string", 0x04: "float", 0x05: "dimension",
              0x06: "fraction", 0x07: "dynamic_reference", 0x08: "dynamic_attribute", 0x10: "int_dec", 0x11: "int_hex",
              0x12: "int_boolean", 0x1C: "color_argb8", 0x1D: "color_rgb8", 0x1E: "color_argb4", 0x1F: "color_rgb4"}

# TypedValue.COMPLEX_*
COMPLEX_UNIT_SHIFT, COMPLEX_UNIT_MASK = 0, 0xF
COMPLEX_RADIX_SHIFT, COMPLEX_RADIX_MASK = 4, 0x3
COMPLEX_MANTISSA_SHIFT, COMPLEX_MANTISSA_MASK = 8, 0xFFFFFF
DIMENSION_UNITS = ["px", "dip", "sp", "pt", "in", "mm"]     # COMPLEX_UNIT_PX .. COMPLEX_UNIT_MM
FRACTION_UNITS = ["%", "%p"]                                  # COMPLEX_UNIT_FRACTION, _FRACTION_PARENT
# radix 0: 23p0, 1: 16p7, 2: 8p15, 3: 0p23  ->  mantissa * 2^-(0|7|15|23); all exact binary fractions
RADIX_SHIFTS = [0, 7, 15, 23]

REL = 1e-6
ABS = 6e-7      # a six-decimal print of x is within 5e-7 of x


def typename(t):
    return TYPE_NAMES.get(t, "type_%02x" % t)


def s32(d):
    d &= 0xFFFFFFFF
    return d - (1 << 32) if d & 0x80000000 else d


def mantissa(d):
    """Signed 24-bit mantissa: the upper 24 bits of the 32-bit two's complement word, arithmetic shift."""
    return s32(d) >> COMPLEX_MANTISSA_SHIFT


def radix(d):
    return (d >> COMPLEX_RADIX_SHIFT) & COMPLEX_RADIX_MASK


def unit(d):
    return (d >> COMPLEX_UNIT_SHIFT) & COMPLEX_UNIT_MASK


def complex_to_float(d):
    """TypedValue.complexToFloat: (int)(data & 0xffffff00) * (1/256) * 2^-radixshift, exactly (as a Python float,
    which holds every such product exactly: 24 significant bits and a power-of-two scale)."""
    return math.ldexp(mantissa(d), -RADIX_SHIFTS[radix(d)])


def float_from_bits(d):
    return struct.unpack("<f", struct.pack("<I", d & 0xFFFFFFFF))[0]


def meaning(t, d):
    d &= 0xFFFFFFFF
    if t == TYPE_DIMENSION:
        u = unit(d)
        return ("number+unit", complex_to_float(d), DIMENSION_UNITS[u]) if u < len(DIMENSION_UNITS) else ("undefined-unit", u)
    if t == TYPE_FRACTION:
        u = unit(d)
        return ("number+unit", complex_to_float(d) * 100, FRACTION_UNITS[u]) if u < len(FRACTION_UNITS) else ("undefined-unit", u)
    if t == TYPE_FLOAT:
        return ("number+unit", float_from_bits(d), "")
    if t == TYPE_INT_DEC:
        return ("decimal", s32(d))
    if t == TYPE_INT_HEX:
        return ("hex", "0x", d)
    if t == TYPE_INT_BOOLEAN:
        return ("literal", "true" if d != 0 else "false")
    if TYPE_INT_COLOR_ARGB8 <= t <= TYPE_INT_COLOR_RGB4:
        return ("hex", "#", d)
    if t == TYPE_REFERENCE:
        return ("hex", "@android:" if d >> 24 == 0x01 else "@", d)
    if t == TYPE_ATTRIBUTE:
        return ("hex", "?android:" if d >> 24 == 0x01 else "?", d)
    if t == TYPE_STRING:
        return ("string", d)
    if t == TYPE_NULL:
        return ("null", d)         # 0 = undefined, 1 = empty; no textual form is fixed by the property
    return ("undefined-type", t)


_NUM = re.compile(r"^([-+]?(?:\d+\.?\d*(?:[eE][-+]?\d+)?|\.\d+(?:[eE][-+]?\d+)?|inf|nan))(.*)$", re.S)


def close(got, want):
    if math.isnan(want):
        return math.isnan(got)
    if math.isinf(want):
        return got == want
    if math.isinf(got) or math.isnan(got):
        return False
    return abs(got - want) <= max(REL * abs(want), ABS)


def matches(t, d, text, string=None):
    """None if text denotes (t, d) (or the pair is outside Android's definition), else a reason."""
    m = meaning(t, d)
    k = m[0]
    if not isinstance(text, str):
        return "not a string: %r" % (text,)
    if k == "number+unit":
        mm = _NUM.match(text)
        if not mm:
            return "no number in %r" % text
        if mm.group(2) != m[2]:
            return "unit %r, expected %r" % (mm.group(2), m[2])
        if not close(float(mm.group(1)), m[1]):
            return "number %s, expected %r" % (mm.group(1), m[1])
        return None
    if k == "decimal":
        if not re.match(r"^-?\d+$", text) or int(text) != m[1]:
            return "expected %d" % m[1]
        return None
    if k == "hex":
        prefix = m[1]
        if not text.startswith(prefix):
            return "expected prefix %r" % prefix
        rest = text[len(prefix):]
        if prefix != "0x" and rest[:2] in ("0x", "0X"):
            rest = rest[2:]
        if not re.match(r"^[0-9a-fA-F]+$", rest) or int(rest, 16) != m[2]:
            return "expected %s%08x" % (prefix, m[2])
        return None
    if k == "literal":
        return None if text == m[1] else "expected %r" % m[1]
    if k == "string":
        if string is not None and text != string:
            return "expected the pool string %r" % string
        return None
    return None        # null / undefined unit / undefined type: not judged


def judged(t, d):
    return meaning(t, d)[0] in ("number+unit", "decimal", "hex", "literal", "string")


def canonical(t, d, string=None):
    m = meaning(t, d)
    k = m[0]
    if k == "number+unit":
        return "%r%s" % (m[1], m[2])
    if k == "decimal":
        return "%d" % m[1]
    if k == "hex":
        return "%s%08x" % (m[1], m[2])
    if k == "literal":
        return m[1]
    if k == "string":
        return string if string is not None else "<string %d>" % m[1]
    return "<%s>" % k


def feature(t, d):
    """Input-side classification used for violation keys: type + the feature of the data that matters."""
    d &= 0xFFFFFFFF
    n = typename(t)
    if t in (TYPE_DIMENSION, TYPE_FRACTION):
        lim = len(DIMENSION_UNITS) if t == TYPE_DIMENSION else len(FRACTION_UNITS)
        if unit(d) >= lim:
            return n + ":undefined-unit"
        if mantissa(d) < 0:
            return n + ":negative-mantissa"
        return n + ":radix%d" % radix(d)
    if t == TYPE_FLOAT:
        f = float_from_bits(d)
        if math.isnan(f) or math.isinf(f):
            return n + ":nonfinite"
        return n + (":negative" if d & 0x80000000 else ":finite")
    if t in (TYPE_REFERENCE, TYPE_ATTRIBUTE):
        p = d >> 24
        return n + (":package-android" if p == 1 else ":package-zero" if p == 0 else ":package-other")
    if t == TYPE_INT_BOOLEAN:
        return n + (":zero" if d == 0 else ":one" if d == 1 else ":other-nonzero")
    if t == TYPE_STRING:
        return n
    if 0x10 <= t <= 0x1F:
        return n + (":sign-bit" if d & 0x80000000 else ":positive")
    return n
