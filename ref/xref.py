"""Reference cross-reference relations (C13-C16), computed without androguard.

Two independent derivations that must agree on generated programs (the checks assert it):
  * `expected(model)`      from the generating model (gen/xrefmodels.Model): every item's offset is known by construction;
  * `from_bytes(raws)`     from DEX bytes: gen/dexread (id tables, class data) + a linear sweep of every code item with the
                           gen/dalvik reference decoder.  Used alone for the shipped corpus.

Both return an `Exp`:
    dex_of_class   {class name: index of the DEX file that defines it}
    methods        {(class, name, descriptor)}   defined (encoded) methods; descriptor without blanks, e.g. '(IJ)V'
    coded          subset of methods that have a code item
    fields         {(class, name, type): dex index}   defined (encoded) fields
    calls          {(caller, off, mnemonic, target)}    target = (class, name, descriptor) exactly as the method id says
    reads, writes  {(accessor, off, mnemonic, field)}   field = (class, name, type) exactly as the field id says
    strings        {(method, off, mnemonic, value)}
    news, consts   {(method, off, type descriptor)}     new-instance / const-class
    after_payload  {(method, off)} reference instructions located behind a switch / array-data payload inside the method
    pool_strings   union of the string pools (from_bytes only, else None)
Offsets are byte offsets from the start of the method's instruction array.
"""
from gen import dalvik as D

INVOKES = {"invoke-virtual", "invoke-super", "invoke-direct", "invoke-static", "invoke-interface"}


class Exp:
    def __init__(self):
        self.dex_of_class = {}
        self.methods, self.coded = set(), set()
        self.fields = {}
        self.calls, self.reads, self.writes = set(), set(), set()
        self.strings, self.news, self.consts = set(), set(), set()
        self.after_payload = set()
        self.pool_strings = None

    def relations(self):
        return {"calls": self.calls, "reads": self.reads, "writes": self.writes, "strings": self.strings,
                "news": self.news, "consts": self.consts, "methods": self.methods, "coded": self.coded,
                "fields": set(self.fields), "classes": set(self.dex_of_class), "after_payload": self.after_payload}


def _classify(exp, me, off, name, tgt):
    base = name.split("/")[0]
    if base in INVOKES:
        exp.calls.add((me, off, name, tgt))
    elif base.startswith(("iget", "sget")):
        exp.reads.add((me, off, name, tgt))
    elif base.startswith(("iput", "sput")):
        exp.writes.add((me, off, name, tgt))
    elif base == "const-string":
        exp.strings.add((me, off, name, tgt))
    elif name == "new-instance":
        exp.news.add((me, off, tgt))
    elif name == "const-class":
        exp.consts.add((me, off, tgt))
    else:
        return False
    return True


def expected(model):
    from gen import xrefmodels as X
    exp = Exp()
    for di, c in model.classes():
        exp.dex_of_class[c.name] = di
        for n, t in c.ifields + c.sfields:
            exp.fields[(c.name, n, t)] = di
        for m in c.methods:
            me = (c.name, m.name, m.desc())
            exp.methods.add(me)
            if m.body is None:
                continue
            exp.coded.add(me)
            behind = False
            for off, (op, tgt) in X.layout(m.body):
                if op == X.PAYLOAD:
                    behind = True
                    continue
                if X.kind_of(op) == "method":
                    tgt = (tgt[0], tgt[1], X.mdesc(tgt[2], tgt[3]))
                if _classify(exp, me, off, op, tgt) and behind:
                    exp.after_payload.add((me, off))
    return exp


def sweep(insns):
    """Linear reference sweep: yields (byte offset, Ins, behind) for every real instruction; payloads are skipped;
    behind = a payload was met before this instruction."""
    off = 0
    n = len(insns)
    behind = False
    while off < n:
        u0 = insns[off] | (insns[off + 1] << 8)
        if u0 in (0x0100, 0x0200, 0x0300):
            off += 2 * D.payload_units(insns, off)
            behind = True
            continue
        i = D.decode(insns, off)
        yield off, i, behind
        off += i.length


def from_bytes(raws):
    from gen import dexread as R
    exp = Exp()
    exp.pool_strings = set()
    for di, raw in enumerate(raws):
        r = R.Reader(raw)
        exp.pool_strings |= set(r.strings)
        m = r.model()
        for c in m.classes:
            exp.dex_of_class[c.name] = di
            for f in c.sfields + c.ifields:
                exp.fields[(c.name, f.name, f.type)] = di
            for meth in c.dmethods + c.vmethods:
                me = (c.name, meth.name, "(" + "".join(meth.params) + ")" + meth.ret)
                exp.methods.add(me)
                if meth.code is None:
                    continue
                exp.coded.add(me)
                for off, ins, behind in sweep(meth.code.insns):
                    if ins.kind == "method":
                        t = r.methods[ins.ref]
                        tgt = (t[0], t[1], "(" + "".join(t[3]) + ")" + t[2])
                    elif ins.kind == "field":
                        tgt = r.fields[ins.ref]
                    elif ins.kind == "string":
                        tgt = r.strings[ins.ref]
                    elif ins.kind == "type":
                        tgt = r.types[ins.ref]
                    else:
                        continue
                    if _classify(exp, me, off, ins.name, tgt) and behind:
                        exp.after_payload.add((me, off))
    return exp


def strip_array(t):
    return t.lstrip("[")


def is_class_type(t):
    """A (possibly array of) reference type has a class to hang an xref on; arrays of primitives do not."""
    return strip_array(t).startswith("L")
