"""Reference control-flow model of one Dalvik method and the judges of C10, C11, C12, C40.

Input side (`RM`): the instruction list the generator KNOWS (gen/methods.Built) or, for shipped code items, the list the
independent decoder gen/dalvik yields (`from_bytes`):  ins = [(off, length, kind, targets, payload_off)] in address order,
byte offsets, kind in plain | nop | return | throw | goto | if | switch | array | payload;  tries = [(start, end_excl,
[(type|None, handler_addr)])].

Observation side (`obs`): plain data extracted from androguard by checks/cfgcommon.observe():
    obs["idx"]    = [(off, length, op_value)]                       EncodedMethod.get_instructions_idx()
    obs["blocks"] = [{"start","end","ins":[(length, op_value)],"childs":[block_start],"fathers":[block_start],
                      "exc": None | {"start","end","handlers":[(type, addr, block_start|None)]},
                      "special": {idx: (found_off|None, desc|None)}}]
Nothing here imports androguard; every judge returns [(key, message)] with keys chosen from the INPUT side.
"""
import struct

from gen import dalvik as D

BRANCHING = ("return", "throw", "goto", "if", "switch")


class RM:
    __slots__ = ("ins", "tries", "size", "by_off", "order")

    def __init__(self, ins, tries, size):
        self.ins, self.tries, self.size = list(ins), list(tries), size
        self.by_off = {i[0]: i for i in self.ins}
        self.order = [i[0] for i in self.ins]


def from_built(b):
    return RM(b.ins, b.rtries, b.size)


def payload_desc(buf, off):
    ident, = struct.unpack_from("<H", buf, off)
    if ident == 0x0100:
        n, first = struct.unpack_from("<Hi", buf, off + 2)
        return ("packed", [first + i for i in range(n)], list(struct.unpack_from("<%di" % n, buf, off + 8)))
    if ident == 0x0200:
        n, = struct.unpack_from("<H", buf, off + 2)
        return ("sparse", list(struct.unpack_from("<%di" % n, buf, off + 4)),
                list(struct.unpack_from("<%di" % n, buf, off + 4 + 4 * n)))
    w, n = struct.unpack_from("<HI", buf, off + 2)
    return ("array", w, bytes(buf[off + 8:off + 8 + w * n]))


def _kind(name):
    if name.startswith("return"):
        return "return"
    if name == "throw":
        return "throw"
    if name.startswith("goto"):
        return "goto"
    if name.startswith("if-"):
        return "if"
    if name in ("packed-switch", "sparse-switch"):
        return "switch"
    if name == "fill-array-data":
        return "array"
    if name == "nop":
        return "nop"
    return "plain"


def from_bytes(insns, tries=(), handlers=()):
    """Linear sweep with the reference decoder.  tries/handlers as in gen/dexgen.Code (code units)."""
    b = bytes(insns)
    ins = []
    off = 0
    while off < len(b):
        u0 = b[off] | (b[off + 1] << 8)
        if u0 in (0x0100, 0x0200, 0x0300):
            n = 2 * D.payload_units(b, off)
            ins.append((off, n, "payload", (), payload_desc(b, off)))
            off += n
            continue
        i = D.decode(b, off)
        k = _kind(i.name)
        tg, po = (), None
        if k in ("goto", "if"):
            tg = (off + 2 * i.branch,)
        elif k in ("switch", "array"):
            po = off + 2 * i.branch
        ins.append((off, i.length, k, tg, po))
        off += i.length
    # switch targets: only when a switch payload STARTS at the encoded offset (the sweep decides where payloads start)
    starts = {x[0]: x for x in ins if x[2] == "payload"}
    for n, x in enumerate(ins):
        if x[2] == "switch" and x[4] in starts and starts[x[4]][4][0] in ("packed", "sparse"):
            ins[n] = (x[0], x[1], x[2], tuple(x[0] + 2 * t for t in starts[x[4]][4][2]), x[4])
    rt = []
    for (s, c, hi) in tries:
        h = handlers[hi]
        hl = [(t, a * 2) for t, a in h.pairs]
        if h.catch_all is not None:
            hl.append((None, h.catch_all * 2))
        rt.append((s * 2, (s + c) * 2, hl))
    return RM(ins, rt, len(b))


def same_listing(a, b):
    """Generator knowledge vs reference decoder on the assembled bytes (harness self-check)."""
    return [(i[0], i[1], i[2], tuple(i[3])) for i in a.ins] == [(i[0], i[1], i[2], tuple(i[3])) for i in b.ins] \
        and a.tries == b.tries and a.size == b.size


# --------------------------------------------------------------------------------------------------- derived facts
def leader_reasons(rm):
    """offset -> set of reasons the STATEMENT of C10 lists (branch target, switch target, try start, handler)."""
    r = {}
    for off, n, k, tg, _ in rm.ins:
        for t in tg:
            r.setdefault(t, set()).add({"goto": "goto-target", "if": "if-target", "switch": "switch-target"}[k])
    for s, e, hl in rm.tries:
        r.setdefault(s, set()).add("try-start")
        for ty, a in hl:
            r.setdefault(a, set()).add("handler-catchall" if ty is None else "handler-typed")
    return r


def leaders(rm):
    """Full leader set of the reference model (DESIGN: {0} + targets + after-branch + try starts + handlers)."""
    L = {0} | set(leader_reasons(rm))
    for off, n, k, tg, _ in rm.ins:
        if k in BRANCHING and off + n < rm.size:
            L.add(off + n)
    return L


def succ_offsets(rm, i):
    off, n, k, tg, _ = i
    if k in ("return", "throw"):
        return set()
    if k == "goto":
        return set(tg)
    nxt = {off + n} if off + n < rm.size else set()
    if k in ("if", "switch"):
        return nxt | set(tg)
    return nxt


def features(rm):
    """Coarse, input-side description of a method (used for non-trivial keys and vacuity counters)."""
    f = set()
    for off, n, k, tg, _ in rm.ins:
        if k in BRANCHING:
            f.add(k)
        for t in tg:
            if t < off:
                f.add("back-edge")
            elif t == off:
                f.add("self-edge")
            if t == off + n:
                f.add("coincide")
            if t == 0:
                f.add("to-first")
        if k == "switch" and len(set(tg)) < len(tg):
            f.add("dup-switch-target")
    if rm.tries:
        f.add("try")
    return f


def _block_of(blocks, off):
    for b in blocks:
        if b["start"] <= off < b["end"]:
            return b
    return None


def _last_ins(rm, b):
    """Reference instruction with the greatest offset inside the observed block."""
    last = None
    for off in rm.order:
        if off >= b["end"]:
            break
        if off >= b["start"]:
            last = rm.by_off[off]
    return last


# --------------------------------------------------------------------------------------------------- C10
def judge_c10(rm, obs):
    v = []
    bl = obs["blocks"]
    if not bl:
        return [("cover:no-blocks", "method with %d instructions has no basic block" % len(rm.ins))]
    # contiguous, disjoint, ordered, covering [0, size)
    pos = 0
    for b in bl:
        if b["start"] != pos or b["end"] <= b["start"]:
            i = rm.by_off.get(min(pos, b["start"]))
            v.append(("cover:%s" % (i[2] if i else "non-instruction-offset"),
                      "blocks not contiguous/ordered: block [%#x,%#x) follows end %#x" % (b["start"], b["end"], pos)))
            break
        pos = b["end"]
    else:
        if pos != rm.size:
            i = rm.by_off.get(pos)
            v.append(("cover:%s" % (i[2] if i else "non-instruction-offset"),
                      "blocks end at %#x but the code is %#x bytes long" % (pos, rm.size)))
    # every instruction exactly once, in order: per block the instructions at the reference offsets in [start, end)
    if not v:
        for b in bl:
            want = [(rm.by_off[o][1]) for o in rm.order if b["start"] <= o < b["end"]]
            got = [x[0] for x in b["ins"]]
            if b["start"] not in rm.by_off:
                v.append(("cover:non-instruction-offset", "block starts at %#x which is not an instruction" % b["start"]))
                break
            if want != got:
                v.append(("cover:%s" % rm.by_off[b["start"]][2],
                          "block [%#x,%#x) yields instruction lengths %r, the code has %r there"
                          % (b["start"], b["end"], got, want)))
                break
    starts = {b["start"] for b in bl}
    for off, reasons in sorted(leader_reasons(rm).items()):
        if off not in starts:
            for r in sorted(reasons):
                v.append(("leader:%s" % r, "%s %#x does not begin a basic block (block starts: %s)"
                          % (r, off, sorted(starts))))
    for b in bl:
        inside = [rm.by_off[o] for o in rm.order if b["start"] <= o < b["end"]]
        for i in inside[:-1]:
            if i[2] in BRANCHING:
                v.append(("midblock:%s" % i[2], "%s at %#x is not the last instruction of its block [%#x,%#x)"
                          % (i[2], i[0], b["start"], b["end"])))
    return v


# --------------------------------------------------------------------------------------------------- C11
def _edge_feature(rm, i):
    off, n, k, tg, _ = i
    if any(t == off for t in tg):
        return ":self"
    if any(t == off + n for t in tg):
        return ":coincide"
    if len(set(tg)) < len(tg):
        return ":dup"
    if any(t == 0 for t in tg):
        return ":first"
    if any(t < off for t in tg):
        return ":back"
    return ""


def judge_c11(rm, obs):
    """-> (violations, number of tolerated exception edges).  Successors are compared as SETS of blocks."""
    v = []
    tolerated = 0
    bl = obs["blocks"]
    succ_obs = {}
    for b in bl:
        last = _last_ins(rm, b)
        if last is None:
            continue
        got = set(b["childs"])
        succ_obs[b["start"]] = set(got)
        if last[2] == "payload" and last[0] + last[1] < rm.size:
            continue                      # a payload followed by code: never executed, successors not judged
        want = set()
        for t in succ_offsets(rm, last):
            tb = _block_of(bl, t)
            if tb is not None:
                want.add(tb["start"])
        extra = got - want
        if extra and rm.tries:
            # exception edges: tolerated iff they are exactly handler blocks of a try covering an instruction of the block
            offs = [o for o in rm.order if b["start"] <= o < b["end"]]
            hb = set()
            for t in rm.tries:
                if any(t[0] <= o < t[1] for o in offs):
                    for _, a in t[2]:
                        hbk = _block_of(bl, a)
                        if hbk is not None:
                            hb.add(hbk["start"])
            if extra <= hb:
                tolerated += len(extra)
                got = got - extra
        if got != want:
            v.append(("succ:%s%s" % (last[2], _edge_feature(rm, last)),
                      "block [%#x,%#x) ending in %s@%#x (targets %s): successors %s, the bytecode allows %s"
                      % (b["start"], b["end"], last[2], last[0], [hex(t) for t in last[3]],
                         [hex(x) for x in sorted(got)], [hex(x) for x in sorted(want)])))
    # predecessors = inverse of the (observed) successor relation
    for b in bl:
        want = {s for s, ch in succ_obs.items() if b["start"] in ch}
        got = set(b["fathers"])
        if got != want:
            # classify by the last instruction of a predecessor on which the two relations disagree
            d = sorted(got ^ want)[0]
            pb = _block_of(bl, d)
            li = _last_ins(rm, pb) if pb else None
            v.append(("pred:%s%s" % ((li[2], _edge_feature(rm, li)) if li else ("none", "")),
                      "block [%#x,%#x): predecessors %s but the blocks that list it as successor are %s"
                      % (b["start"], b["end"], [hex(x) for x in sorted(got)], [hex(x) for x in sorted(want)])))
    return v, tolerated


# --------------------------------------------------------------------------------------------------- C12
def try_relation(t, b):
    s, e = t[0], t[1]
    if s > b["start"]:
        return "try-starts-mid-block"
    if e >= b["end"]:
        return "try-covers-block"
    if s == b["start"]:
        return "try-within-block"
    return "try-ends-mid-block"


def judge_c12(rm, obs):
    """-> (violations, relations seen) ; relations feed the vacuity counters."""
    v = []
    seen = []
    bl = obs["blocks"]
    for b in bl:
        offs = [o for o in rm.order if b["start"] <= o < b["end"]]
        hit = [t for t in rm.tries if any(t[0] <= o < t[1] for o in offs)]
        ex = b["exc"]
        for t in hit:
            seen.append(try_relation(t, b))
        if len(hit) > 1:
            seen.append("two-tries-in-one-block")
            # only one slot exists in the API; judged: the reported one must be one of them
            if ex is None or ex["start"] not in [t[0] for t in hit]:
                v.append(("two-tries-in-one-block", "block [%#x,%#x) intersects %d try ranges, reports %r"
                          % (b["start"], b["end"], len(hit), ex)))
            continue
        if not hit:
            if ex is not None:
                v.append(("foreign-try-reported", "block [%#x,%#x) reports try range %#x..%#x which covers none of its "
                          "instructions" % (b["start"], b["end"], ex["start"], ex["end"])))
            continue
        t = hit[0]
        rel = try_relation(t, b)
        if ex is None:
            v.append((rel, "block [%#x,%#x) has an instruction inside try [%#x,%#x) but reports no exception "
                      "information" % (b["start"], b["end"], t[0], t[1])))
            continue
        if ex["start"] != t[0] or not (t[1] - 4 <= ex["end"] <= t[1]):
            other = [u for u in rm.tries if u[0] == ex["start"]]
            v.append(("foreign-try-reported" if other else rel + ":wrong-range",
                      "block [%#x,%#x) lies in try [%#x,%#x) but reports %#x..%#x"
                      % (b["start"], b["end"], t[0], t[1], ex["start"], ex["end"])))
            continue
        want = sorted(a for _, a in t[2])
        got = sorted(h[1] for h in ex["handlers"])
        bad = got != want or any(h[2] != h[1] for h in ex["handlers"])
        if bad:
            v.append(("handler-block-wrong", "block [%#x,%#x) in try [%#x,%#x): handlers (type, addr, block) %r, "
                      "the try table says handler addresses %s" % (b["start"], b["end"], t[0], t[1],
                                                                  ex["handlers"], [hex(a) for a in want])))
    return v, seen


# --------------------------------------------------------------------------------------------------- C40
def offset_class(rm, off):
    """Input-side class of an encoded 31t offset at which no payload starts."""
    if off < 0 or off >= rm.size:
        return "outside-code"
    i = rm.by_off.get(off)
    if i is not None:
        return "at-instruction"
    for x in rm.ins:
        if x[0] < off < x[0] + x[1]:
            return "inside-payload" if x[2] == "payload" else "inside-instruction"
    return "outside-code"


def judge_c40(rm, obs, layout="aligned"):
    """-> (violations, n_links_checked, {counter: n} of shapes deliberately not judged).  Offsets reported by the analysis vs offsets of the disassembler (obs['idx'])."""
    v = []
    pre = "misaligned-payload:" if layout in ("misaligned", "first-mis") else ""
    S = {o for o, _, _ in obs["idx"]}
    end = (obs["idx"][-1][0] + obs["idx"][-1][1]) if obs["idx"] else 0
    links = 0
    skipped = {}
    for b in obs["blocks"]:
        if b["start"] not in S:
            v.append((pre + "block-start", "block start %#x is not a disassembler offset" % b["start"]))
        if b["end"] not in S and b["end"] != end:
            v.append((pre + "block-end", "block end %#x is not a disassembler offset (code end %#x)" % (b["end"], end)))
        for idx in b["special"]:
            i = rm.by_off.get(idx)
            if idx not in S:
                v.append((pre + "special-key", "special_ins key %#x is not a disassembler offset" % idx))
            elif i is None or i[2] not in ("switch", "array"):
                v.append((pre + "special-key", "special_ins key %#x is not a switch/fill-array-data instruction" % idx))
    for i in rm.ins:
        if i[2] not in ("switch", "array"):
            continue
        b = _block_of(obs["blocks"], i[0])
        if b is None:
            continue
        links += 1
        want_off = i[4]
        want = rm.by_off.get(want_off)
        sp = b["special"].get(i[0])
        if want is None or want[2] != "payload":
            # no payload starts at the encoded offset: nothing that starts elsewhere may be linked, and a switch may
            # not gain case successors from some other payload
            cls = offset_class(rm, want_off)
            if sp is not None and (sp[0] is not None or sp[1] is not None) and sp[0] != want_off:
                v.append((pre + "bogus-link:%s:%s" % (i[2], cls),
                          "%s@%#x encodes offset %#x (%s), where no payload starts; get_special_ins is %s"
                          % (i[2], i[0], want_off, cls, "the object the sweep yields at %#x: %r" % (sp[0], sp[1])
                             if sp[0] is not None else "an object outside the sweep: %r" % (sp[1],))))
            if i[2] == "switch" and _last_ins(rm, b) == i:
                nxt = _block_of(obs["blocks"], i[0] + i[1])
                allowed = {nxt["start"]} if nxt else set()
                extra = set(b["childs"]) - allowed
                if extra:
                    if want_off % 4 == 2:
                        skipped["bogus_succ_off2mod4_not_judged"] = skipped.get("bogus_succ_off2mod4_not_judged", 0) + 1
                    else:
                        v.append((pre + "bogus-succ:%s" % cls,
                                  "switch@%#x encodes offset %#x (%s), where no payload starts, but its block has the "
                                  "successors %s besides the fall-through" % (i[0], want_off, cls,
                                                                            [hex(x) for x in sorted(extra)])))
            continue
        kind = want[4][0]
        key = pre + "link:%s:%s" % (i[2], "backward" if want_off < i[0] else "forward")
        if sp is None:
            v.append((key, "%s@%#x encodes payload offset %#x but its block has no special_ins entry" % (i[2], i[0], want_off)))
        elif sp[0] != want_off:
            v.append((key, "%s@%#x encodes payload offset %#x; get_special_ins is %s"
                      % (i[2], i[0], want_off, "the object the sweep yields at %#x" % sp[0] if sp[0] is not None
                         else "no object of the sweep (%r)" % (sp[1],))))
        elif sp[1] != want[4]:
            v.append((key, "%s@%#x -> %#x: linked payload content %r, the code has %r (%s)"
                      % (i[2], i[0], want_off, sp[1], want[4], kind)))
    return v, links, skipped
