"""Reference model of how Java (JLS 17) reads ONE string literal.

    read_string_literal(text, dialect) -> list of UTF-16 code units denoted by the literal
                                 raises JavaLexError if `text` is not exactly one well-formed string literal
    read_both(text) -> the reading under both dialects ("jls" = the specification, "javac" = javac 17 as observed)

Two phases, as in the language specification:

1. JLS 3.3 Unicode escapes.  The raw text is a sequence of UTF-16 code units.  A backslash is *eligible* to begin a
   Unicode escape iff the number of backslashes contiguously preceding it in the RAW input is even.  An eligible
   backslash followed by one or more `u` must be followed by exactly four hex digits (else compile-time error) and is
   replaced by that code unit; the produced unit never takes part in another Unicode escape (`\\u005cu0041` is a
   backslash followed by the five characters u0041).  Everything else is copied.
2. JLS 3.10.5 / 3.10.7 on the TRANSLATED units:  `"` {StringCharacter} `"` where a StringCharacter is any unit except
   `"`, `\\`, CR, LF, or an EscapeSequence  \\b \\s \\t \\n \\f \\r \\" \\' \\\\  or an octal escape  \\[0-3][0-7][0-7] |
   \\[0-7][0-7] | \\[0-7]  (longest match).  `\\<line terminator>` exists only in text blocks.  Because phase 1 runs
   first, `\\u000a` / `\\u000d` inside a literal are raw line terminators (invalid) and `\\u0022` closes the literal.

Dialects: "jls" is the rule above.  "javac" is the one deviation javac 17 shows (see translate_unicode_escapes); a
literal is only read the same by every Java tool if both dialects agree, and checks should require both.

Nothing may follow the closing quote.  A raw unpaired surrogate in the text is an ordinary input unit (it denotes
itself) although no UTF-8 source file can hold it.  This module knows nothing about androguard.
"""

HEX = set("0123456789abcdefABCDEF")
BS, QUOTE, CR, LF = 0x5C, 0x22, 0x0D, 0x0A
SIMPLE = {ord("b"): 0x08, ord("s"): 0x20, ord("t"): 0x09, ord("n"): 0x0A, ord("f"): 0x0C, ord("r"): 0x0D,
          ord('"'): 0x22, ord("'"): 0x27, ord("\\"): 0x5C}


class JavaLexError(ValueError):
    pass


def utf16_units(s):
    """Code units of a Python string (lone surrogates allowed)."""
    b = s.encode("utf-16-le", "surrogatepass")
    return [b[i] | (b[i + 1] << 8) for i in range(0, len(b), 2)]


def _raw_units(text):
    """The raw input as UTF-16 code units (JLS 3.1).  A raw unpaired surrogate is an input unit like any other here;
    it cannot be stored in a UTF-8 source file, so callers that feed a real compiler must leave such texts out."""
    return utf16_units(text)


def has_raw_unpaired_surrogate(text):
    try:
        text.encode("utf-8")
        return False
    except UnicodeEncodeError:
        return True


def _escape_at(raw, i):
    """raw[i] is a backslash followed by 'u': returns (code unit, index after the escape)."""
    n = len(raw)
    j = i + 1
    while j < n and raw[j] == 0x75:
        j += 1
    digits = raw[j:j + 4]
    if len(digits) < 4 or any(d > 0x7F or chr(d) not in HEX for d in digits):
        raise JavaLexError("illegal unicode escape at raw offset %d" % i)
    return int("".join(chr(d) for d in digits), 16), j + 4


def translate_unicode_escapes(raw, dialect="jls"):
    r"""JLS 3.3 on a list of raw code units -> (translated code units, an escape produced a backslash).

    dialect "jls":   eligibility = even number of contiguous RAW backslashes before this one (the specification).
    dialect "javac": what javac 17 does (com.sun.tools.javac.parser.UnicodeReader, observed through the compiler): a
                     backslash PRODUCED by a Unicode escape counts as the first half of a backslash pair for the raw
                     backslash that follows it:  \u005c \ \uu0041  (six + one + seven raw characters) is the three
                     characters  \ \ A  for javac, and  \ \ \ u u 0 0 4 1  for the specification.
                     The two dialects can only differ after an escape that produced a backslash.
    """
    out = []
    n = len(raw)
    i = 0
    made_bs = False
    if dialect == "jls":
        run = 0                   # backslashes contiguously preceding position i in the raw input
        while i < n:
            c = raw[i]
            if c != BS:
                out.append(c)
                run = 0
                i += 1
            elif run % 2 == 0 and i + 1 < n and raw[i + 1] == 0x75:      # eligible backslash followed by 'u'
                v, i = _escape_at(raw, i)
                out.append(v)
                made_bs = made_bs or v == BS
                run = 0           # the escape's last raw character is a hex digit, not a backslash
            else:
                out.append(BS)
                run += 1
                i += 1
        return out, made_bs
    was_bs = was_ue = False
    while i < n:
        c = raw[i]
        if c == BS and (not was_bs or was_ue):
            if i + 1 < n and raw[i + 1] == 0x75:
                v, i = _escape_at(raw, i)
                out.append(v)
                made_bs = made_bs or v == BS
                was_ue = True
                was_bs = v == BS and not was_bs
            else:
                out.append(BS)
                was_ue = False
                was_bs = not was_bs
                i += 1
        else:
            out.append(c)
            was_bs = was_ue = False
            i += 1
    return out, made_bs


def read_both(text):
    """{'jls': units | JavaLexError, 'javac': units | JavaLexError}; computed once when the dialects cannot differ."""
    try:
        raw = _raw_units(text)
        u, made_bs = translate_unicode_escapes(raw, "jls")
    except JavaLexError as e:
        raw, u, made_bs = None, e, True
    res = {}
    res["jls"] = _try(u)
    if raw is not None and not made_bs:
        res["javac"] = res["jls"]
    else:
        try:
            res["javac"] = _try(translate_unicode_escapes(_raw_units(text), "javac")[0])
        except JavaLexError as e:
            res["javac"] = e
    return res


def _try(u):
    if isinstance(u, JavaLexError):
        return u
    try:
        return read_translated(u)
    except JavaLexError as e:
        return e


def read_string_literal(text, dialect="jls"):
    return read_translated(translate_unicode_escapes(_raw_units(text), dialect)[0])


def read_translated(u):
    n = len(u)
    if n < 2 or u[0] != QUOTE:
        raise JavaLexError("does not start with a double quote")
    out = []
    i = 1
    while True:
        if i >= n:
            raise JavaLexError("unterminated string literal")
        c = u[i]
        if c == QUOTE:
            if i != n - 1:
                raise JavaLexError("literal closed by the quote at translated offset %d, %d unit(s) follow" % (i, n - 1 - i))
            return out
        if c == CR or c == LF:
            raise JavaLexError("line terminator inside the literal (translated offset %d)" % i)
        if c != BS:
            out.append(c)
            i += 1
            continue
        i += 1
        if i >= n:
            raise JavaLexError("unterminated string literal (ends in a backslash)")
        e = u[i]
        if e in SIMPLE:
            out.append(SIMPLE[e])
            i += 1
            continue
        if 0x30 <= e <= 0x37:
            v = e - 0x30
            i += 1
            maxlen = 3 if e <= 0x33 else 2
            k = 1
            while k < maxlen and i < n and 0x30 <= u[i] <= 0x37:
                v = v * 8 + (u[i] - 0x30)
                i += 1
                k += 1
            out.append(v)
            continue
        raise JavaLexError("illegal escape sequence backslash + U+%04X" % e)
