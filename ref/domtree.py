"""Reference dominator tree by the textbook definition (node removal).  Independent of androguard.

d dominates v  <=>  every path entry ->* v passes through d  <=>  v is not reachable from the entry once d is removed
(d = v and d = entry dominate trivially).  The immediate dominator of v != entry is the strict dominator of v that every
other strict dominator of v dominates (the closest one); the entry has none.

Nodes are 0..n-1, `rows[u]` is the bit set of successors of u.  Cost O(n * (n + e)): fine for the tiny graphs enumerated
and for real method CFGs of a few hundred nodes.
"""


def _reach(rows, start, removed):
    if start == removed:
        return 0
    ban = ~(1 << removed) if removed >= 0 else -1
    seen = 1 << start
    todo = [start]
    while todo:
        u = todo.pop()
        new = rows[u] & ban & ~seen
        seen |= new
        while new:
            low = new & -new
            todo.append(low.bit_length() - 1)
            new ^= low
    return seen


def dominator_sets(n, rows, entry=0):
    """dom[v] = bit set of all dominators of v (including v) for reachable v; 0 for unreachable v."""
    reachable = _reach(rows, entry, -1)
    dom = [0] * n
    for v in range(n):
        if (reachable >> v) & 1:
            dom[v] = 1 << v
    for d in range(n):
        if not (reachable >> d) & 1:
            continue
        lost = reachable & ~_reach(rows, entry, d)      # nodes that need d (d itself included)
        for v in range(n):
            if (lost >> v) & 1:
                dom[v] |= 1 << d
    return dom


def idoms(n, rows, entry=0, dom=None):
    """{v: immediate dominator or None} for every node reachable from the entry (dom: precomputed dominator_sets)."""
    if dom is None:
        dom = dominator_sets(n, rows, entry)
    out = {}
    for v in range(n):
        if not dom[v]:
            continue
        if v == entry:
            out[v] = None
            continue
        strict = dom[v] & ~(1 << v)
        best = None
        for d in range(n):
            if (strict >> d) & 1 and (dom[d] & strict) == strict:
                # every strict dominator of v dominates d  -> d is the closest one
                if best is not None:
                    raise AssertionError("two immediate dominators: reference model broken")
                best = d
        if best is None:
            raise AssertionError("no immediate dominator: reference model broken")
        out[v] = best
    return out
