"""Reference resolution of a resource model (gen/arscgen.Table): what androguard's ARSCParser listings and resolver
have to report, computed from the model alone (no bytes, no androguard).

The *shape* of the answers is the API's (read off ARSCParser.ResourceResolver.resolve / put_ate_value / put_item_value
and the listing methods):
  get_resolved_res_configs(rid, config=None) -> list of (config, value)
        plain / compact entry      -> (config, formatted value); a TYPE_REFERENCE value is replaced by the resolution
                                      of the referenced id (for the same *wanted* config; all configs if None)
        complex entry              -> (config, [item, ...]) where a non-reference item is its formatted value and a
                                      reference item is replaced (inline) by the (config, value) tuples of its target
  get_res_configs(rid, config=None) -> list of (config, entry)
  get_locales(pkg) -> locale spellings, default locale = '\\x00\\x00';  get_types(pkg, locale) -> type names (+ 'public')
  get_type_configs(pkg, type) -> {type: [config, ...]};  get_res_id_by_key(pkg, type, key) -> id
  get_string(pkg, key, locale) -> [key, text]
The *content* is the model's.  Comparisons are made on canonical forms (canon_value / canon_result) so that value
spelling details that belong to property C27 (hex digit case, 'dip' vs 'dp', float digits) cannot alarm here.

Not defined (raise Unjudged): selecting a configuration the resource (or a resource on its reference path) does not
store -- androguard documents a 'generous' fallback there, the property does not constrain it.
"""
import re

from gen import arscgen as G

DEFAULT_LOCALE = "\x00\x00"
DIM_UNITS = {0: "px", 1: "dp", 2: "sp", 3: "pt", 4: "in", 5: "mm"}
RADIX = [1.0 / (1 << 8), 1.0 / (1 << 15), 1.0 / (1 << 23), 1.0 / (1 << 31)]   # applied to mantissa << 8 (ResourceTypes.h)


class Unjudged(Exception):
    pass


# ---- values ------------------------------------------------------------------------------------------------------
def signed32(x):
    x &= 0xFFFFFFFF
    return x - (1 << 32) if x & 0x80000000 else x


def expected_value(v):
    """Canonical form of a concrete model value."""
    if v[0] == "str":
        c = canon_value(v[1])
        assert c == ("str", v[1]), "string alphabet collides with a value spelling: %r" % (v[1],)
        return c
    dtype, data = v[1], v[2]
    if dtype == G.TYPE_INT_DEC:
        return ("int", signed32(data))
    if dtype == G.TYPE_INT_HEX:
        return ("hex", data)
    if dtype == G.TYPE_INT_BOOLEAN:
        return ("bool", data != 0)
    if G.TYPE_INT_COLOR_ARGB8 <= dtype <= 0x1F:
        return ("color", data)
    if dtype == G.TYPE_DIMENSION:
        mant = signed32(data & 0xFFFFFF00)          # sign-extended 24 bit mantissa, still shifted by 8
        return ("dim", round(mant * RADIX[(data >> 4) & 3], 4), DIM_UNITS[data & 0xF])
    raise AssertionError("value type 0x%x is outside the alphabet of this reference" % dtype)


_RX = [
    (re.compile(r"^-?\d+$"), lambda m: ("int", int(m.group(0)))),
    (re.compile(r"^0[xX]([0-9a-fA-F]{8})$"), lambda m: ("hex", int(m.group(1), 16))),
    (re.compile(r"^#([0-9a-fA-F]{8})$"), lambda m: ("color", int(m.group(1), 16))),
    (re.compile(r"^(true|false)$", re.I), lambda m: ("bool", m.group(1).lower() == "true")),
    (re.compile(r"^(-?\d+(?:\.\d+)?)(px|dip|dp|sp|pt|in|mm)$"),
     lambda m: ("dim", round(float(m.group(1)), 4), "dp" if m.group(2) == "dip" else m.group(2))),
]


def canon_value(s):
    """Canonical form of a value string returned by the API."""
    if not isinstance(s, str):
        return ("nonstr", repr(s))
    for rx, f in _RX:
        m = rx.match(s)
        if m:
            return f(m)
    return ("str", s)


def is_ref(v):
    return v[0] == "raw" and v[1] == G.TYPE_REFERENCE


def canon_result(res, cfgkey=lambda c: c, value=lambda s: s):
    """Canonical multiset form of a resolver result (nested lists of (config, value) tuples and plain values).
    Top level: multiset.  Inside a complex entry the item order is kept, but a maximal run of (config, value) tuples
    (the inline expansion of reference items) is a multiset."""
    def item(x):
        if isinstance(x, tuple) and len(x) == 2 and not isinstance(x[0], str):
            c, v = x
            if isinstance(v, list):
                return ("cfg", cfgkey(c), ("list", seq(v)))
            return ("cfg", cfgkey(c), value(v))
        return ("val", value(x))

    def seq(lst):
        out, run = [], []
        for x in lst:
            y = item(x)
            if y[0] == "cfg":
                run.append(y)
            else:
                if run:
                    out.append(("run", tuple(sorted(run, key=repr))))
                    run = []
                out.append(y)
        if run:
            out.append(("run", tuple(sorted(run, key=repr))))
        return tuple(out)
    return tuple(sorted((item(x) for x in res), key=repr))


def flat_values(res):
    """All plain values at any depth of a resolver result (configs dropped)."""
    out = []
    for x in res:
        if isinstance(x, tuple) and len(x) == 2 and not isinstance(x[0], str):
            x = x[1]
        if isinstance(x, list):
            out.extend(flat_values(x))
        else:
            out.append(x)
    return out


# ---- the reference -----------------------------------------------------------------------------------------------
class RefResolver:
    def __init__(self, table):
        self.table = table
        self.res = {}            # rid -> (package, type, entry)
        for rid, p, t, e in table.iter_entries():
            self.res[rid] = (p, t, e)

    # -- listings --
    def get_packages_names(self):
        return [p.name for p in self.table.packages]

    def _pkg(self, name):
        return [p for p in self.table.packages if p.name == name][0]

    @staticmethod
    def locale_of(cfg):
        return cfg.locale_string() or DEFAULT_LOCALE

    def get_locales(self, pkg):
        return {self.locale_of(c) for t in self._pkg(pkg).types for c in t.configs()}

    def get_types(self, pkg, locale=DEFAULT_LOCALE):
        return {t.name for t in self._pkg(pkg).types for c in t.configs() if self.locale_of(c) == locale}

    def get_type_configs(self, pkg, type_name=None):
        out = {}
        for t in self._pkg(pkg).types:
            if t.entries and (type_name is None or t.name == type_name) and t.configs():
                out.setdefault(t.name, []).extend(c.words() for c in t.configs())
        return {k: sorted(v) for k, v in out.items()}

    def get_res_id_by_key(self, pkg, type_name, key):
        hits = [rid for rid, (p, t, e) in self.res.items() if p.name == pkg and t.name == type_name and e.key == key]
        return hits[0] if len(hits) == 1 else (None if not hits else set(hits))

    def get_string(self, pkg, key, locale=DEFAULT_LOCALE):
        """Set of acceptable texts (one per configuration of that locale that stores a TYPE_STRING value), or None
        when the key does not exist in that locale; raises Unjudged when a stored value is not a string."""
        texts = set()
        for rid, (p, t, e) in self.res.items():
            if p.name == pkg and t.name == "string" and e.key == key:
                for c, ev in e.values.items():
                    if self.locale_of(c) == locale:
                        if ev.kind == "complex" or ev.value[0] != "str":
                            raise Unjudged("non-string value in type string")
                        texts.add(ev.value[1])
        return texts or None

    # -- entries --
    def select(self, rid, wanted=None):
        """[(Cfg, entry value)] for the wanted configuration (None = all, in stored order)."""
        if rid not in self.res:
            return []
        vals = self.res[rid][2].values
        if wanted is None:
            return list(vals.items())
        if wanted in vals:
            return [(wanted, vals[wanted])]
        raise Unjudged("resource 0x%08x does not store configuration %r" % (rid, wanted))

    def get_res_configs(self, rid, wanted=None):
        """[(config words, key, flags, kind, payload)] with raw payloads."""
        out = []
        if rid not in self.res:
            return out
        e = self.res[rid][2]
        for c, ev in self.select(rid, wanted):
            if ev.kind == "complex":
                payload = (ev.parent, tuple((n,) + self.raw(v) for n, v in ev.items))
            else:
                payload = self.raw(ev.value)
            out.append((c.words(), e.key, e.flags, ev.kind, payload))
        return out

    @staticmethod
    def raw(v):
        """(dataType, data) with string data given as ('str', text) (pool indices are a writer detail)."""
        if v[0] == "str":
            return (G.TYPE_STRING, ("str", v[1]))
        return (v[1], v[2])

    def get_resolved_res_configs(self, rid, wanted=None, _path=()):
        """API-shaped result with canonical values and config words; a reference back into the current resolution
        path contributes nothing (a cycle stores no further concrete value)."""
        out = []
        path = _path + (rid,)
        for c, ev in self.select(rid, wanted):
            if ev.kind == "complex":
                arr = []
                for _name, v in ev.items:
                    if is_ref(v):
                        if v[2] and v[2] not in path:
                            arr.extend(self.get_resolved_res_configs(v[2], wanted, path))
                    else:
                        arr.append(expected_value(v))
                out.append((c.words(), arr))
            else:
                v = ev.value
                if is_ref(v):
                    if v[2] and v[2] not in path:
                        out.extend(self.get_resolved_res_configs(v[2], wanted, path))
                else:
                    out.append((c.words(), expected_value(v)))
        return out

    def canon_resolved(self, rid, wanted=None):
        return canon_result(self.get_resolved_res_configs(rid, wanted))

    # -- reachability (C29) --
    def reachable_values(self, rid):
        """Set of canonical concrete values stored by any resource reachable from rid (any configuration)."""
        seen, todo, vals = set(), [rid], set()
        while todo:
            r = todo.pop()
            if r in seen or r not in self.res:
                continue
            seen.add(r)
            for _c, ev in self.res[r][2].values.items():
                for v in ([x for _n, x in ev.items] if ev.kind == "complex" else [ev.value]):
                    if is_ref(v):
                        if v[2]:
                            todo.append(v[2])
                    else:
                        vals.add(expected_value(v))
        return vals

    def reference_depth(self, rid, _path=()):
        """Longest reference chain starting at rid (number of reference hops); None if a cycle is reachable."""
        if rid in _path:
            return None
        best = 0
        if rid not in self.res:
            return 0
        for _c, ev in self.res[rid][2].values.items():
            for v in ([x for _n, x in ev.items] if ev.kind == "complex" else [ev.value]):
                if is_ref(v) and v[2]:
                    d = self.reference_depth(v[2], _path + (rid,))
                    if d is None:
                        return None
                    best = max(best, d + 1)
        return best
