"""Reference use-def chains by backward path search.  Independent of androguard (no data-flow equations, no fixpoint).

Program model
  stmts[b]  = list of (uses, lhs) for block b: `uses` a tuple of registers read, `lhs` the register written or None;
              an instruction reads before it writes (r = f(r) sees the previous r)
  preds[b]  = list of predecessor blocks (normal and catch edges alike: control leaves a block at its end)
  entry     = entry block; params = list of registers that hold a parameter on entry (definition site ('param', k))

A definition site is (block, index) or ('param', k).  A definition d of register x reaches a use u of x iff some path
from d to u carries no other definition of x.  Searching backwards from u and stopping at the first definition met on
each path yields exactly that set.
"""


def _last_def(stmts_b, var, before):
    for k in range(before - 1, -1, -1):
        if stmts_b[k][1] == var:
            return k
    return None


def reaching(stmts, preds, entry, params, block, idx, var):
    """Set of definition sites of `var` reaching instruction `idx` of `block` (just before it executes)."""
    k = _last_def(stmts[block], var, idx)
    if k is not None:
        return {(block, k)}
    found = set()
    reached_start = set()           # blocks whose beginning is reachable backwards without meeting a definition
    todo = [block]
    while todo:
        b = todo.pop()
        if b in reached_start:
            continue
        reached_start.add(b)
        if b == entry and var in params:
            found.add(("param", params.index(var)))
        for p in preds[b]:
            k = _last_def(stmts[p], var, len(stmts[p]))
            if k is not None:
                found.add((p, k))
            else:
                todo.append(p)
    return found


def use_def(stmts, preds, entry, params):
    """{(var, (block, idx)): set of definition sites} for every register read of every instruction."""
    ud = {}
    for b, lst in enumerate(stmts):
        for i, (uses, _lhs) in enumerate(lst):
            for var in uses:
                ud[var, (b, i)] = reaching(stmts, preds, entry, params, b, i, var)
    return ud


def def_use(ud):
    """Exact inverse of a use-def map: {(var, definition site): set of use sites}."""
    du = {}
    for (var, use), defs in ud.items():
        for d in defs:
            du.setdefault((var, d), set()).add(use)
    return du
