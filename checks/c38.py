"""C38  Cleaned file names are portable  (engine E1: finite-domain product with a modelled file system).

Code under test: androguard/misc.py:clean_file_name.

Space: paths  DIR + A^i c1 A^j c2 [ '.' E^k ]  with i, j, k from a length alphabet chosen around the limits of the
function (0, 1, 2, half of 230, 227..233, 300, 600), c1 and c2 from a token alphabet (letter, space, dot, every
reserved character, three control characters incl. DEL, two non-ASCII letters, three device names), four
directory parts, replace in {'_', '-'}, force_nt in {False, True} and the environment dimension
(unique=False) + (unique=True x model file system FS_m, m = 0..3).

File system: androguard.misc sees a copy of the `os` module whose path.isfile/exists/lexists answer from a model
file system (a set of paths).  FS_0 is empty and FS_m = FS_(m-1) + {the name returned under FS_(m-1)}: exactly the
deviation "the first m names the function would like to use are taken".  A probe cap (256 probes per call) turns
a non-terminating search into a verdict.
Boundary grid: all-letter names of every basename length 226..232 x extension {none, '.', '.e', longest possible}
x directory {'', 'd/e'} x force_nt x FS_0..FS_100 (every number of colliding files from 0 to 100, each judged).
Decoy history: before every family the same basename is cleaned once in another directory (unique=True, result
ignored), inside the shared family() so that replay does the same: state carried from one call to the next shows.
Deep chains: for the names whose basename has >= 225 characters with c1, c2 in {letter, space, dot, '<'} (every
directory part and replace, force_nt=False) the chain is continued to FS_12 (11 or more colliding files: the counter
gets two digits); in the thorough tier the all-letter names with directory '' and replace '_' are continued to
FS_101 (three digits).

Invariant (the statement, nothing more), on the basename of the result:
  no reserved character  < > : " / \\ | ? *        no control character below 0x20
  does not end with ' ' or '.'                      at most 230 characters
  dirname(result) == dirname(input)                 unique=True: the result is not a member of the model FS
Not judged: DEL (0x7f) and C1 controls (the statement does not define 'control character' and the function
targets 0x00-0x1f only), reserved device names CON/NUL/COM1 (not in the statement), byte length in any encoding,
a stem that ends with a space before the extension.

Keys come from the input side:  <kind>:<cause> (reserved-char:U+XXXX / control-char:U+XXXX name the input
character and carry a cause only when it is nt-cut or unique-suffix), cause in
  direct            basename needs no truncation (<= 230 characters)
  after-truncation  basename longer than 230 characters (the 230 cut is involved)
  long-extension    basename longer than 230 whose part after the last dot has >= 229 characters
  nt-cut            occurs with force_nt=True only (same input is fine with force_nt=False)
  unique-suffix     occurs only when the model FS contains names (same input is fine on the empty FS)
  ...:counter>=10   (>=100) occurs only once the uniqueness counter has two (three) digits
"""
import os
import shutil
import tempfile
import types

from mc.core import Acc, h8

PROPERTY = "C38"
LEVEL = "exploration"

LEN_QUICK = [0, 1, 114, 115, 227, 228, 229, 230, 300]
EXT_QUICK = [None, 0, 1, 2, 114, 229, 230]
LEN_FULL = [0, 1, 2, 114, 115, 227, 228, 229, 230, 231, 232, 233, 300, 600]
EXT_FULL = [None] + LEN_FULL
TOKENS = ["a", " ", ".", "<", ">", ":", '"', "/", "\\", "|", "?", "*", "\x00", "\x1f", "\x7f",
          "é", "文", "CON", "NUL", "COM1"]
DIRS = ["", "d", "d/e", "/abs"]
REPLACE = ["_", "-"]
NT = [False, True]
MS = [0, 1, 2, 3]
# deep environment chains: where length boundaries matter the model FS keeps growing (FS_4 .. FS_12, thorough also
# FS_13 .. FS_101 for the all-letter names) so that the uniqueness counter gets two (three) digits
DEEP_TOKENS = ["a", " ", ".", "<"]
DEEP_MIN_LEN = 225          # input basename length from which the deep chain is run
DEEP_M = 12
DEEP_M_LONG = 101
# boundary grid: basename length x number of colliding files as a full product around both boundaries
GRID_LEN = [226, 227, 228, 229, 230, 231, 232]
GRID_M = 100                # chain FS_0 .. FS_100, every member judged (covers 0, 1, 9, 10, 11, 99, 100 colliding files)
GRID_EXT = ["none", 0, 1, "max"]
GRID_DIRS = ["", "d/e"]
DECOY_DIR = "decoy"         # history: the same basename is cleaned in another directory first, result ignored
FILL, EXTFILL = "a", "e"
LIMIT = 230
PROBE_CAP = 256
CWD_LEN = 20            # len(os.getcwd()) during the calls: force_nt consults os.path.abspath

RULE = ("full product: i x j x k(ext) length alphabets x 20x20 tokens (c1,c2) x 4 directories x 2 replace x 2 force_nt x "
        "(unique=False + unique=True on model FS_0..FS_3, continued to FS_12 (thorough: FS_101 for all-letter names) for "
        "basenames >= 225 characters over a 4-token sub-alphabet); distinct by construction (enumeration index); non-trivial = "
        "the cleaning changed the basename or the model FS contained the first choice")
ASSUMPTIONS = [
    "androguard.misc reaches the file system only through os.path.isfile/exists/lexists of its module-global `os` "
    "(replaced by a model FS; finalize checks that probes were observed)",
    "cwd during the calls is a scratch directory whose path has exactly %d characters (force_nt is cwd dependent)" % CWD_LEN,
    "DEL (0x7f), device names (CON, NUL, COM1...) and byte lengths are not judged: not in the statement",
    "os.path.dirname/basename/normpath of the standard library are trusted",
]
MANIFEST = {
    "engine": "E1-product",
    "technique": "exhaustive finite-domain enumeration against an invariant, file system modelled as enumerated environment answers",
    "text": "Every path of the shape DIR + A^i c1 A^j c2 [.E^k] over boundary length alphabets around the 230 limit and a "
            "20-token character alphabet (all reserved characters, control characters, space, dot, non-ASCII, device "
            "names), for all parameter combinations and for model file systems in which the first 0..3 names the function "
            "wants are already taken, is run through the real clean_file_name and the stated invariant is checked on each "
            "result; complete for the stated space, which is built around every length threshold of the function.",
    "note": "Trusted: the invariant in checks/c38.py (set membership, endswith, len, dirname). os.path.isfile as seen by "
            "androguard.misc is a model; cwd is a fixed-length scratch directory. DEL, device names, byte length not judged.",
}

RESERVED = frozenset('<>:"/\\|?*')
CONTROL = frozenset(chr(c) for c in range(0x20))
BAD = RESERVED | CONTROL
DEVICE = ("CON", "PRN", "AUX", "NUL", "COM", "LPT")


def _lens(ctx):
    return (LEN_FULL, EXT_FULL) if ctx.thorough else (LEN_QUICK, EXT_QUICK)


def deep_upto(ctx, i, c1, j, c2, k, d, replace, nt):
    """How far the model-FS chain is continued for this input (input-side rule); 3 = the ordinary family."""
    if nt or c1 not in DEEP_TOKENS or c2 not in DEEP_TOKENS:
        return MS[-1]
    if i + len(c1) + j + len(c2) + (0 if k is None else k + 1) < DEEP_MIN_LEN:
        return MS[-1]
    if ctx.thorough and c1 == FILL and c2 == FILL and d == "" and replace == REPLACE[0]:
        return DEEP_M_LONG
    return DEEP_M


def _deep_sizes(ctx):
    ln, ex = _lens(ctx)
    names = calls = long_names = 0
    for i in ln:
        for j in ln:
            for k in ex:
                for c1 in DEEP_TOKENS:
                    for c2 in DEEP_TOKENS:
                        if deep_upto(ctx, i, c1, j, c2, k, "d", REPLACE[1], False) > MS[-1]:
                            names += 1
                            for d in DIRS:
                                for r in REPLACE:
                                    u = deep_upto(ctx, i, c1, j, c2, k, d, r, False)
                                    calls += u - MS[-1]
                                    long_names += u == DEEP_M_LONG
    return names, calls, long_names


def grid_specs(L):
    """(i, c1, j, c2, k, dir, replace, nt) of the boundary grid for basename length L (all letters)."""
    for e in GRID_EXT:
        k = {"none": None, "max": L - 3}.get(e, e)
        i = L - 2 - (0 if k is None else k + 1)
        for d in GRID_DIRS:
            for nt in NT:
                yield (i, FILL, 0, FILL, k, d, REPLACE[0], nt)


def _grid_chains():
    return sum(1 for L in GRID_LEN for _ in grid_specs(L))


def space(ctx):
    ln, ex = _lens(ctx)
    names = len(ln) * len(ln) * len(ex) * len(TOKENS) ** 2
    dn, dc, dl = _deep_sizes(ctx)
    return {"shape": "DIR + A^i c1 A^j c2 ['.' E^k]", "i,j": ln, "k": ["no extension" if k is None else k for k in ex],
            "c1,c2": [t if t.isprintable() else repr(t) for t in TOKENS], "dir": DIRS, "replace": REPLACE,
            "force_nt": NT, "environment": "unique=False; unique=True x model FS_m (first m wanted names exist), m in %r" % MS,
            "deep_chains": {"rule": "basename >= %d characters, c1,c2 in %r, force_nt=False: FS_m continued to m=%d%s"
                                    % (DEEP_MIN_LEN, DEEP_TOKENS, DEEP_M,
                                       "; all-letter names with dir '' and replace '_' to m=%d" % DEEP_M_LONG if ctx.thorough else ""),
                            "names": dn, "extra_calls": dc, "chains_to_%d" % DEEP_M_LONG: dl},
            "boundary_grid": {"basename_length": GRID_LEN, "extension": GRID_EXT, "dir": GRID_DIRS, "force_nt": NT,
                              "colliding_files": [0, GRID_M], "chains": _grid_chains(), "calls": _grid_chains() * (GRID_M + 2)},
            "decoy_history": "clean_file_name(%r/<same basename>, unique=True) before every family" % DECOY_DIR,
            "names": names,
            "calls": names * len(DIRS) * len(REPLACE) * len(NT) * (1 + len(MS)) + dc + _grid_chains() * (GRID_M + 2),
            "limit": LIMIT, "probe_cap": PROBE_CAP, "cwd_len": CWD_LEN}


def shards(ctx):
    ln, _ = _lens(ctx)
    return [(i, j) for i in ln for j in ln] + [("grid", L) for L in GRID_LEN]


# ------------------------------------------------------------------------------------- environment
class ProbeLoop(BaseException):
    pass


def _norm(p):
    if "//" in p or "/." in p or p[:1] == ".":
        return os.path.normpath(p)
    return p


class ModelFS:
    def __init__(self):
        self.files = set()
        self.probes = 0
        self.total = 0

    def isfile(self, p):
        self.probes += 1
        self.total += 1
        if self.probes > PROBE_CAP:
            raise ProbeLoop()
        return _norm(os.fspath(p)) in self.files

    def add(self, p):
        if not p.endswith("/") and p:           # "d/" or "" is not a file name
            self.files.add(_norm(p))

    def has(self, p):
        return _norm(p) in self.files


class Env:
    """Installs the model FS into androguard.misc and a fixed-length cwd; restore() undoes both."""

    def __init__(self):
        from androguard import misc
        self.misc = misc
        self.fs = ModelFS()
        self.decoys = 0
        pshim = types.ModuleType("c38_os_path")
        pshim.__dict__.update({k: v for k, v in os.path.__dict__.items() if not k.startswith("__")})
        pshim.isfile = pshim.exists = pshim.lexists = self.fs.isfile
        oshim = types.ModuleType("c38_os")
        oshim.__dict__.update({k: v for k, v in os.__dict__.items() if not k.startswith("__")})
        oshim.path = pshim
        self.saved_os = misc.os
        misc.os = oshim
        self.saved_cwd = os.getcwd()
        self.tmp = tempfile.mkdtemp(prefix="c38_", dir="/tmp")
        cwd = os.path.join(self.tmp, "w" * max(1, CWD_LEN - len(self.tmp) - 1))
        os.mkdir(cwd)
        os.chdir(cwd)
        self.cwd_len = len(os.getcwd())

    def restore(self):
        self.misc.os = self.saved_os
        os.chdir(self.saved_cwd)
        shutil.rmtree(self.tmp, ignore_errors=True)


# ------------------------------------------------------------------------------------- the case
def build(i, c1, j, c2, k, d):
    name = FILL * i + c1 + FILL * j + c2 + ("" if k is None else "." + EXTFILL * k)
    return (d + "/" + name) if d else name


def call(env, path, unique, replace, nt):
    env.fs.probes = 0
    try:
        return env.misc.clean_file_name(path, unique=unique, replace=replace, force_nt=nt), None
    except ProbeLoop:
        return None, "probe-loop"
    except Exception as e:      # noqa
        return None, "exception:%s" % type(e).__name__


def judge(in_dir, res, err, unique, fs):
    """-> list of violation kinds (strings); the invariant of the statement, nothing else.
    in_dir = os.path.dirname(input path)."""
    if err is not None:
        return ["unique:" + err] if err == "probe-loop" else [err]
    if not isinstance(res, str):
        return ["not-a-string"]
    kinds = []
    out_dir, base = os.path.split(res)
    if out_dir != in_dir:
        kinds.append("directory-changed")
    if not BAD.isdisjoint(base):
        for ch in sorted(set(base) & BAD):
            kinds.append("%s:U+%04X" % ("reserved-char" if ch in RESERVED else "control-char", ord(ch)))
    if base.endswith(" "):
        kinds.append("trailing-space")
    elif base.endswith("."):
        kinds.append("trailing-dot")
    if len(base) > LIMIT:
        kinds.append("len>230")
    if unique and base and fs.has(res):
        kinds.append("unique:collides")
    return kinds


def structural_cause(path):
    b = os.path.basename(path)
    if b[-1:] in (" ", "."):
        b = b[:-1] + "_"
    lb = len(b)
    over = lb > LIMIT or (lb == LIMIT and b.startswith(DEVICE))
    if not over:
        return "direct"
    if "." in b and len(b.rsplit(".", 1)[1]) >= LIMIT - 1:
        return "long-extension"
    return "after-truncation"


def family(env, path, replace, nt, upto=MS[-1]):
    """The environment answers for one input: [(unique, m, result, err, kinds, probes)], the model FS grown step by
    step: unique=False, then unique=True on FS_0 .. FS_upto."""
    fs = env.fs
    fs.files.clear()
    out = []
    in_dir = os.path.dirname(path)
    call(env, DECOY_DIR + "/" + os.path.basename(path), True, replace, nt)      # decoy history, result ignored
    env.decoys += 1
    res, err = call(env, path, False, replace, nt)
    out.append((False, 0, res, err, judge(in_dir, res, err, False, fs), fs.probes))
    for m in range(upto + 1):
        res, err = call(env, path, True, replace, nt)
        out.append((True, m, res, err, judge(in_dir, res, err, True, fs), fs.probes))
        if isinstance(res, str):
            fs.add(res)
    return out


def key_for(env, path, replace, nt, fam, unique, m, kind, sib):
    """Input-side cause of one violation kind (differential against the sibling cases, then structural).
    sib: one-element list caching the force_nt=False sibling family of this input."""
    if unique and m > 0 and kind not in fam[1][4]:
        digits = len(str(m - 1))                # FS_m: the counter reaches m-1
        last_shorter = 10 ** (digits - 1)       # FS_10 / FS_100: last chain member with a shorter counter
        tail = ":counter>=%d" % last_shorter if digits > 1 and kind not in fam[1 + last_shorter][4] else ""
        if kind.startswith("unique:"):
            return kind + tail
        return ("unique:suffix-overflow" if kind == "len>230" else kind + ":unique-suffix") + tail
    if nt:
        if not sib:
            saved = set(env.fs.files)
            sib.append(family(env, path, replace, False, len(fam) - 2))
            env.fs.files.clear()
            env.fs.files.update(saved)
        ref = sib[0][0] if not unique else sib[0][1 + m]
        if kind not in ref[4]:
            return kind + ":nt-cut"
    if kind.startswith(("reserved-char", "control-char", "directory-changed", "unique:")):
        return kind                             # a character that survives does so whatever the length
    return kind + ":" + structural_cause(path)


def _show(s):
    if s is None:
        return "None"
    if len(s) > 90:
        return "%r...%r (len %d)" % (s[:30], s[-40:], len(s))
    return repr(s)


def check_input(env, acc, spec, upto=None):
    i, c1, j, c2, k, d, replace, nt = spec
    path = build(i, c1, j, c2, k, d)
    fam = family(env, path, replace, nt, deep_upto(env.ctx, *spec) if upto is None else upto)
    if upto is not None:
        env.grid += 1
    elif len(fam) > 2 + MS[-1]:
        env.deep += 1
    inb = path[path.rfind("/") + 1:]
    r0 = fam[0][2]
    sib = []
    for unique, m, res, err, kinds, probes in fam:
        acc.n += 1
        if isinstance(res, str):
            base = res[res.rfind("/") + 1:]
            changed = base != inb
            oc = (changed, len(base) < len(inb), len(base) > len(inb), unique and res != r0, probes, tuple(kinds))
            if "\x7f" in base:
                env.del_kept += 1
        else:
            changed, base, oc = True, None, (err,)
        if changed or m > 0:
            acc.nt_disjoint += 1
        if m > MS[-1]:
            oc = oc[:4] + (min(probes, MS[-1] + 2), len(str(m - 1))) + oc[5:]
        env.local_outcomes.add(oc)
        for kind in kinds:
            key = key_for(env, path, replace, nt, fam, unique, m, kind, sib)
            v = acc.viol.get(key)
            if v is not None:
                v["count"] += 1
                continue
            w = {"i": i, "c1": c1, "j": j, "c2": c2, "k": k, "dir": d, "replace": replace, "force_nt": nt,
                 "unique": unique, "m": m}
            acc.violation(key, w, "clean_file_name(%s, unique=%r, replace=%r, force_nt=%r) with model FS of %d file(s) "
                                  "-> %s : %s (basename has %s characters; cwd has %d)"
                          % (_show(path), unique, replace, nt, m if unique else 0, _show(res), kind,
                             "?" if base is None else len(base), env.cwd_len))
    return fam


def run_shard(ctx, shard):
    acc = Acc()
    _, exts = _lens(ctx)
    i, j = shard
    env = Env()
    env.ctx = ctx
    env.grid = 0
    env.local_outcomes = set()
    env.del_kept = 0
    env.deep = 0
    try:
        if env.cwd_len != CWD_LEN:
            acc.harness_error("scratch cwd has %d characters, expected %d" % (env.cwd_len, CWD_LEN))
            return acc
        if i == "grid":
            for spec in grid_specs(j):
                check_input(env, acc, spec, GRID_M)
            if j == 230:
                fam = family(env, "a" * 230, "_", False, 11)
                acc.sample({"input": "'a'*230", "result with 11 colliding files": _show(fam[12][2])})
        for c1 in TOKENS if i != "grid" else ():
            for c2 in TOKENS:
                for k in exts:
                    for d in DIRS:
                        for replace in REPLACE:
                            for nt in NT:
                                check_input(env, acc, (i, c1, j, c2, k, d, replace, nt))
        for oc in env.local_outcomes:
            acc.outcomes.add(h8(oc))
        acc.count("fs_probes", env.fs.total)
        acc.count("deep_chains", env.deep)
        acc.count("grid_chains", env.grid)
        acc.count("decoy_calls", env.decoys)
        acc.count("del_0x7f_kept_not_judged", env.del_kept)
        if env.del_kept:
            acc.note("DEL (0x7f) is kept in results; not judged: the statement does not say whether DEL counts as a "
                     "control character and the function targets 0x00-0x1f")
        if i == "grid":
            pass
        elif (i, j) == (1, 2):
            p = build(1, "<", 2, " ", 1, "d/e")
            fam = family(env, p, "_", False)
            acc.sample({"input": p, "unique=False": fam[0][2], "unique=True on FS_0..3": [x[2] for x in fam[1:]]})
        if i != "grid" and (i, j) == (228, 2):
            p = build(228, " ", 2, "a", None, "")
            acc.sample({"input": _show(p), "unique=False": _show(family(env, p, "_", False)[0][2]),
                        "note": "space at the cut position"})
    finally:
        env.restore()
    return acc


def replay(ctx, w):
    env = Env()
    try:
        if env.cwd_len != CWD_LEN:
            raise RuntimeError("scratch cwd has %d characters, expected %d" % (env.cwd_len, CWD_LEN))
        path = build(w["i"], w["c1"], w["j"], w["c2"], w["k"], w["dir"])
        fam = family(env, path, w["replace"], w["force_nt"], max(MS[-1], w["m"]))
        for unique, m, res, err, kinds, _p in fam:
            if unique == w["unique"] and m == w["m"] and kinds:
                return "clean_file_name(%s, unique=%r, replace=%r, force_nt=%r), model FS with %d file(s) -> %s violates: %s" % (
                    _show(path), unique, w["replace"], w["force_nt"], m if unique else 0, _show(res), ", ".join(kinds))
        return None
    finally:
        env.restore()


def finalize(ctx, acc):
    sp = space(ctx)
    if acc.n != sp["calls"] and not acc.harness_errors:
        acc.harness_error("evaluations %d != size of the stated space %d" % (acc.n, sp["calls"]))
    if acc.extra.get("fs_probes", 0) < acc.n // 2:
        acc.harness_error("model file system was hardly consulted (%d probes for %d calls): the seam no longer "
                          "intercepts the function's file system access" % (acc.extra.get("fs_probes", 0), acc.n))
    if acc.extra.get("deep_chains", 0) != sp["deep_chains"]["names"] * len(DIRS) * len(REPLACE) and not acc.harness_errors:
        acc.harness_error("deep chains run %d != stated %d" % (acc.extra.get("deep_chains", 0),
                                                               sp["deep_chains"]["names"] * len(DIRS) * len(REPLACE)))
    if acc.extra.get("grid_chains", 0) != sp["boundary_grid"]["chains"] and not acc.harness_errors:
        acc.harness_error("grid chains run %d != stated %d" % (acc.extra.get("grid_chains", 0), sp["boundary_grid"]["chains"]))
    if acc.extra.get("decoy_calls", 0) < acc.n // 110:
        acc.harness_error("decoy history was not run")
    if len(acc.outcomes) < 12:
        acc.harness_error("only %d distinct outcome classes: the space degenerated" % len(acc.outcomes))
    if acc.nt_disjoint < acc.n // 4:
        acc.harness_error("fewer than a quarter of the cases are non-trivial (%d of %d)" % (acc.nt_disjoint, acc.n))
