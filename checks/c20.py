"""C20  Def-use chains equal the reaching-definitions solution   (engine E2: bounded structure enumeration).

Space: every rooted digraph on 1..3 labelled nodes x every assignment of one of nine statement lists to each node
  { (), use r, def r, use r;def r, def r;use r, def r;def r, r=f(r), use q, def q }
x parameter lists { (), (r), (q, r) } x graph.exit in { None, each node } (quick, 3 nodes: { None, last node });  every <= 2-node graph with catch edges x the
same;  thorough adds 4 nodes x { (), def r, use r } x { (), (r) } x exits, 3-node catch graphs over that small alphabet.
Every method of the shipped DEX files (real instructions) is run as well.
Each case is a REAL `Graph` of real StatementBlocks holding stub instructions (get_used_vars / get_lhs); the real
compute_rpo, number_ins and `dataflow.build_def_use` run on it.
Oracle: ref/reachdef.py (backward path search).  UD[var, use] must equal the reference as a SET for every register
read (a missing key counts as the empty set), no other key may carry a definition, and DU must be the exact inverse.
"""
import itertools

from mc.core import Acc
from gen import graphs as G
from gen import dadgraph as D
from ref import reachdef

PROPERTY = "C20"
LEVEL = "exploration"
RULE = ("rooted digraphs on <=3 nodes (thorough: 4 with a 3-letter alphabet) x statement list per node from a 9-letter "
        "alphabet over registers r, q x parameter list x exit node; <=2-node (thorough 3) graphs with catch edges; DEX "
        "methods.  Non-trivial = some use has >= 2 reaching definitions or a definition killed on one path but not "
        "another (a use whose reaching set differs from 'all definitions of the register'); distinct by construction")
ASSUMPTIONS = ["catch edges leave a block at its end, like normal edges (block-level CFG paths; this is what 'path' means "
               "for a graph of basic blocks)",
               "an instruction reads its operands before it writes its result",
               "UD/DU are compared as sets: duplicate entries in the lists are not judged; a use without any reaching "
               "definition may be absent from UD or map to an empty list",
               "for DEX methods the registers read/written are taken from the real IRForm.get_used_vars()/get_lhs() "
               "(shared seam); methods whose CFG is not rooted are skipped",
               "trusted: ref/reachdef.py"]
MANIFEST = {
    "engine": "E2-structures",
    "technique": "exhaustive enumeration of small CFGs with define/use statements against a path-based reaching-definitions reference",
    "text": "Every rooted CFG up to 3 blocks with every assignment of nine define/use statement shapes, with and without "
            "parameters and an exit node (thorough: 4 blocks over a smaller alphabet, catch edges) plus every method of the "
            "shipped DEX files goes through the real reach-def fixpoint and build_def_use; the chains must equal, as "
            "sets, what a backward path search finds, and DU must be the inverse of UD.  The unit tests check two "
            "hand-built graphs; this is complete for the stated bound, including loops, self-loops and irreducible "
            "graphs where a worklist bug would hide.",
    "note": "Trusted: ref/reachdef.py (60 lines).  Stub instructions stand in for IRForm in the enumerated part; real "
            "instructions are used for the DEX methods, where get_used_vars/get_lhs are a shared seam.",
}

R, Q = 0, 1
USE_R, DEF_R, RFR, USE_Q, DEF_Q = ((R,), None), ((), R), ((R,), R), ((Q,), None), ((), Q)
ALPHA9 = [(), (USE_R,), (DEF_R,), (USE_R, DEF_R), (DEF_R, USE_R), (DEF_R, DEF_R), (RFR,), (USE_Q,), (DEF_Q,)]
ALPHA3 = [0, 2, 1]                   # indices into ALPHA9: (), def r, use r
NAMES9 = ["-", "use r", "def r", "use r;def r", "def r;use r", "def r;def r", "r=f(r)", "use q", "def q"]
PARAMS3 = [(), (R,), (Q, R)]
PARAMS2 = [(), (R,)]


class Ins:
    """Stub IRForm: only what reach_def_analysis / build_def_use call."""
    __slots__ = ("uses", "lhs")

    def __init__(self, uses, lhs):
        self.uses = uses
        self.lhs = lhs

    def get_used_vars(self):
        return list(self.uses)

    def get_lhs(self):
        return self.lhs

    def __repr__(self):
        return "Ins(uses=%r, lhs=%r)" % (self.uses, self.lhs)


def space(ctx):
    return {"nodes": [1, 2, 3] + ([4] if ctx.thorough else []),
            "statement_alphabet": NAMES9,
            "small_alphabet_for_4_nodes_and_3_node_catch_graphs": [NAMES9[i] for i in ALPHA3],
            "params": ["()", "(r)", "(q, r)"],
            "exit": "None or each node" if ctx.thorough else "None or each node (n <= 2); None or the last node (n = 3)",
            "catch_graph_nodes": [1, 2] + ([3] if ctx.thorough else []),
            "dex_files": D.dex_files(ctx)}


def shards(ctx):
    s = [("bin", 1, 0, 2, 9), ("bin", 2, 0, 16, 9)]
    s += [("bin", 3, lo, lo + 8, 9) for lo in range(0, 512, 8)]            # 64 shards, 4 rooted graphs each on average
    s += [("tri", 1, 0, 1, 9)] + [("tri", 2, k, 4, 9) for k in range(4)]
    for name in D.dex_files(ctx):
        parts = 4 if name.endswith("classes.dex") else 1
        s += [("dex", name, k, parts) for k in range(parts)]
    if ctx.thorough:
        s += [("bin", 4, lo, lo + 256, 3) for lo in range(0, 1 << 16, 256)]
        s += [("tri", 3, k, 64, 3) for k in range(64)]
    return s


# ---------------------------------------------------------------------------------------------------------------
def run_real(nodes, edges, ins_lists, params, exit_idx):
    """Builds the real Graph, runs the real numbering and build_def_use.  Returns (UD, DU, site_of_loc, g)."""
    from androguard.decompiler import dataflow
    for nd, lst in zip(nodes, ins_lists):
        nd.ins = list(lst)
        nd.loc_ins = None
        nd.ins_range = None
    g = D.build(nodes, edges)
    g.compute_rpo()
    g.number_ins()
    if exit_idx is not None:
        g.exit = nodes[exit_idx]
    site = {}
    for b, nd in enumerate(nodes):
        by_id = {id(ins): k for k, ins in enumerate(ins_lists[b])}
        for loc, ins in nd.get_loc_with_ins():
            site[loc] = (b, by_id[id(ins)])
    ud, du = dataflow.build_def_use(g, list(params))
    return ud, du, site, g


def compare(ud, du, site, stmts, preds, entry, params):
    """Judging code shared by the explorer, the DEX family and replay.  Returns (list of messages, stats)."""
    loc_of = {s: l for l, s in site.items()}
    for k in range(len(params)):
        loc_of[("param", k)] = -(k + 1)
    want_ud = reachdef.use_def(stmts, preds, entry, list(params))
    want_du = reachdef.def_use(want_ud)
    bad = []
    multi = partial = False
    ndefs = {}
    for b, lst in enumerate(stmts):
        for (_u, lhs) in lst:
            if lhs is not None:
                ndefs[lhs] = ndefs.get(lhs, 0) + 1
    for p in params:
        ndefs[p] = ndefs.get(p, 0) + 1
    for (var, use), defs in sorted(want_ud.items(), key=repr):
        want = {loc_of[d] for d in defs}
        if len(want) >= 2:
            multi = True
        if len(want) != ndefs.get(var, 0):
            partial = True
        got = set(ud.get((var, loc_of[use]), []))
        if got != want:
            bad.append(("ud", var, use, "UD[v%s, loc %d] = %s, paths say %s"
                        % (var, loc_of[use], sorted(got), sorted(want))))
    uses = {(var, loc_of[use]) for (var, use) in want_ud}
    for key, lst in ud.items():
        if key not in uses and lst:
            bad.append(("ud-extra", key[0], None, "UD has %r -> %r but there is no such register read" % (key, lst)))
    want_du_loc = {(var, loc_of[d]): {loc_of[u] for u in us} for (var, d), us in want_du.items()}
    for key in sorted(set(want_du_loc) | {k for k, v in du.items() if v}, key=repr):
        got = set(du.get(key, []))
        want = want_du_loc.get(key, set())
        if got != want:
            bad.append(("du", key[0], None, "DU[v%s, loc %d] = %s, inverse of the path solution is %s"
                        % (key[0], key[1], sorted(got), sorted(want))))
    return bad, (multi, partial, len(want_ud))


def key_for(bad, stmts, preds, params, exit_idx, catch, cyclic, fam):
    kind, var, use, _ = bad[0]
    feat = kind
    if use is not None:
        b, i = use
        local = any(l == var for (_u, l) in stmts[b][:i])
        feat += ":def-in-same-block" if local else ":def-from-other-block"
    return "%s:%s:%s:%s%s%s" % ("dex" if fam == "dex" else "enum", feat, "cyclic" if cyclic else "dag",
                                "param" if var in params else "noparam",
                                ":exit" if exit_idx is not None else "", ":catch" if catch else "")


def one_case(n, nodes, edges, codes, params, exit_idx):
    """Runs one enumerated case; returns (bad list, stats, stmts, preds)."""
    stmts = [list(ALPHA9[c]) for c in codes]
    ins_lists = [[Ins(u, l) for (u, l) in st] for st in stmts]
    preds = [[] for _ in range(n)]
    for e in edges:
        if e[0] not in preds[e[1]]:
            preds[e[1]].append(e[0])
    try:
        ud, du, site, _g = run_real(nodes, edges, ins_lists, params, exit_idx)
    except Exception as e:      # noqa
        return [("exc", R, None, "build_def_use raised %s: %s" % (type(e).__name__, e))], (False, False, 0), stmts, preds
    bad, st = compare(ud, du, site, stmts, preds, 0, params)
    return bad, st, stmts, preds


def explore_graph(acc, n, nodes, edges, alpha, plist, fam, all_exits=True):
    rows = G.rows_of_edges(n, edges)
    reach = G.closure(n, rows)
    cyclic = any((reach[v] >> v) & 1 for v in range(n))
    catch = any(len(e) > 2 and e[2] == "c" for e in edges)
    acc.count("graphs")
    if cyclic:
        acc.count("graphs_with_cycle")
    for codes in itertools.product(alpha, repeat=n):
        for params in plist:
            for exit_idx in ([None] + list(range(n)) if all_exits or n < 3 else [None, n - 1]):
                bad, (multi, partial, nuses), stmts, preds = one_case(n, nodes, edges, codes, params, exit_idx)
                acc.n += 1
                if multi or partial:
                    acc.nt_disjoint += 1
                if multi:
                    acc.count("cases_with_a_use_reached_by_2+_defs")
                if partial:
                    acc.count("cases_with_a_killed_definition")
                acc.count("uses_judged", nuses)
                acc.outcomes.add((multi, partial, min(nuses, 3), cyclic).__hash__() & 0xffffffff)
                if bad:
                    acc.violation(key_for(bad, stmts, preds, params, exit_idx, catch, cyclic, fam),
                                  {"fam": "enum", "n": n, "edges": [list(e) for e in edges], "codes": list(codes),
                                   "params": list(params), "exit": exit_idx},
                                  "n=%d edges=%s stmts=%s params=%s exit=%s: %s"
                                  % (n, edges, [NAMES9[c] for c in codes], list(params), exit_idx,
                                     "; ".join(b[3] for b in bad[:4])))


def run_shard(ctx, shard):
    acc = Acc()
    kind = shard[0]
    if kind == "dex":
        return run_dex(ctx, shard, acc)
    n = shard[1]
    alpha = list(range(9)) if shard[4] == 9 else ALPHA3
    plist = PARAMS3 if shard[4] == 9 else PARAMS2
    nodes = D.make_nodes(n)
    if kind == "bin":
        for mask in G.rooted_masks(n, shard[2], shard[3]):
            explore_graph(acc, n, nodes, G.edge_list(n, mask), alpha, plist, "bin", ctx.thorough)
        if n == 3 and shard[2] == 0o730:
            acc.sample({"n": 3, "edges": G.edge_list(3, 0o736), "stmts": ["def r", "r=f(r)", "use r"], "params": [R],
                        "exit": 2})
    else:
        for i, edges in enumerate(G.rooted_tri(n)):
            if i % shard[3] != shard[2] or not any(e[2] == "c" for e in edges):
                continue
            explore_graph(acc, n, nodes, edges, alpha, plist, "tri", ctx.thorough)
            acc.count("graphs_with_catch_edge")
    return acc


# ---------------------------------------------------------------------------------------------------------------
def judge_dex(dm):
    """Real method: real graph.construct, real instructions.  Returns (bad list or None if skipped, info)."""
    from androguard.decompiler import dataflow
    g = D.method_graph(dm)
    nodes, pos, rows, edges = D.index_graph(g)
    n = len(nodes)
    e = pos[g.entry]
    info = {"n": n, "catch": any(k == "c" for _, _, k in edges), "cyclic": False, "uses": 0, "multi": False}
    if G.reach_from(n, rows, e) != (1 << n) - 1:
        return None, info
    stmts, site = [], {}
    for b, nd in enumerate(nodes):
        lst = []
        for k, (loc, ins) in enumerate(nd.get_loc_with_ins()):
            lst.append((tuple(ins.get_used_vars()), ins.get_lhs()))
            site[loc] = (b, k)
        stmts.append(lst)
    preds = [[] for _ in range(n)]
    for (u, v, _k) in edges:
        if u not in preds[v]:
            preds[v].append(u)
    params = list(dm.lparams)
    if len(set(params)) != len(params):
        return None, info
    try:
        ud, du = dataflow.build_def_use(g, params)
    except Exception as ex:     # noqa
        return [("exc", None, None, "build_def_use raised %s: %s" % (type(ex).__name__, ex))], info
    bad, (multi, _partial, nuses) = compare(ud, du, site, stmts, preds, e, params)
    info["uses"] = nuses
    info["multi"] = multi
    if bad:
        def reach_plus(v):
            m, r = 0, rows[v]
            while r:
                low = r & -r
                m |= G.reach_from(n, rows, low.bit_length() - 1)
                r ^= low
            return m
        info["cyclic"] = any((reach_plus(v) >> v) & 1 for v in range(n))
    return bad, info


def run_dex(ctx, shard, acc):
    _, name, part, nparts = shard
    for idx, label, dm in D.dex_methods(ctx, name):
        if idx % nparts != part:
            continue
        bad, info = judge_dex(dm)
        if bad is None:
            acc.count("dex_methods_skipped_not_rooted_or_duplicate_params")
            continue
        acc.n += 1
        acc.count("dex_methods")
        acc.count("dex_uses_judged", info["uses"])
        if info["multi"]:
            acc.nt.add(hash((name, idx)) & 0xffffffffffff)
            acc.count("dex_methods_with_a_use_reached_by_2+_defs")
        if bad:
            kind, var, use, _ = bad[0]
            acc.violation("dex:%s:%s%s" % (kind, "cyclic" if info["cyclic"] else "dag", ":catch" if info["catch"] else ""),
                          {"fam": "dex", "file": name, "index": idx},
                          "%s %s (%d nodes): %s" % (name, label, info["n"], "; ".join(b[3] for b in bad[:4])))
        if idx == 40 and name == "classes.dex":
            acc.sample({"dex": name, "method": label, "nodes": info["n"], "uses": info["uses"]})
    return acc


def replay(ctx, w):
    if w["fam"] == "dex":
        for idx, label, dm in D.dex_methods(ctx, w["file"]):
            if idx == w["index"]:
                bad, _ = judge_dex(dm)
                return "; ".join(b[3] for b in bad[:6]) if bad else None
        return "replay: method index %r not found in %s" % (w["index"], w["file"])
    n = w["n"]
    edges = [tuple(e) for e in w["edges"]]
    bad, _st, _s, _p = one_case(n, D.make_nodes(n), edges, w["codes"], tuple(w["params"]), w["exit"])
    return "; ".join(b[3] for b in bad[:6]) if bad else None


def finalize(ctx, acc):
    ex = acc.extra
    for name in ("cases_with_a_use_reached_by_2+_defs", "cases_with_a_killed_definition", "graphs_with_cycle",
                 "graphs_with_catch_edge", "uses_judged", "dex_methods", "dex_uses_judged"):
        if not ex.get(name):
            acc.harness_error("vacuity: counter %s is zero" % name)
    if len(acc.outcomes) < 8:
        acc.harness_error("vacuity: only %d distinct case classes" % len(acc.outcomes))
    # reference self-test on the textbook diamond-with-loop: 0:{def r} -> 1:{use r} -> 2:{r=f(r)} -> 1 ; param r
    stmts = [[DEF_R], [USE_R], [RFR]]
    preds = [[], [0, 2], [1]]
    got = reachdef.use_def(stmts, preds, 0, [R])
    want = {(R, (1, 0)): {(0, 0), (2, 0)}, (R, (2, 0)): {(0, 0), (2, 0)}}
    if got != want:
        acc.harness_error("reference self-test failed: %r" % (got,))
    stmts = [[USE_R], [DEF_R]]
    if reachdef.use_def(stmts, [[1], [0]], 0, [R]) != {(R, (0, 0)): {("param", 0), (1, 0)}}:
        acc.harness_error("reference self-test (parameter + loop) failed")
