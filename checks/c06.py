"""C06  DEX strings decode to exactly the UTF-16 text their MUTF-8 bytes encode  (engine E2).

Space: string pools built from
  * every single UTF-16 code unit of UNITS (15 boundary values incl. 0000, surrogate range edges, the byte-order marks feff/fffe, ffff),
  * every ordered pair of them (all paired / unpaired / reversed surrogate combinations, the 2-byte NUL form),
  * (thorough) every ordered triple,
  * strings of every length 0..300 of a 1-byte, a 2-byte and a 3-byte unit (crosses the 128-byte read chunk of the
    string reader at every phase), each also mixed with a leading unit of another width,
  * one special unit behind an ASCII prefix of every length around the 128-byte chunk boundaries (120..131, 250..259, 378..387),
  * long strings of 4095..4097 and 8191..8193 MUTF-8 bytes holding at most one special unit (start / middle / end),
  * each pool written both with the string data in the normal place and as the LAST bytes of the file.
Every string is used as a field name, a method name, a class-name part and a const-string / const-string/jumbo operand.
Oracle: ref (this file): the pool the independent writer was given; everything compared as UTF-16 code-unit sequences.
"""
import itertools
import re
import struct

from mc.core import Acc, h8

PROPERTY = "C06"
LEVEL = "exploration"
RULE = ("string pools over a 15-value UTF-16 code-unit alphabet: all singles, all ordered pairs (thorough: triples), all lengths "
        "0..300 of 1/2/3-byte units; each string observed through get_strings, ClassManager.get_string, field/method/class names "
        "and const-string(/jumbo) operands; non-trivial = string contains a non-ASCII unit, NUL, surrogate, or is >= 127 bytes long; "
        "distinct by string content")
ASSUMPTIONS = ["gen/dexgen.mutf8 is the MUTF-8 encoder of the DEX specification (checked against shipped files by tools/conformance.py)",
               "comparison is on UTF-16 code units (s.encode('utf-16-le','surrogatepass')), so a paired surrogate may be reported "
               "either as one supplementary character or as two surrogate code points"]
MANIFEST = {
    "engine": "E2-structures",
    "technique": "bounded exhaustive enumeration of string pools serialised by an independent MUTF-8/DEX writer",
    "text": "All strings of 1-2 (thorough 3) code units over a 13-value boundary alphabet and all lengths 0..300 across the reader's "
            "128-byte chunk boundary are placed in generated DEX files and read back through every string-returning API; each must "
            "equal the original code-unit sequence. Complete for the stated space.",
    "note": "Trusted: gen/dexgen's MUTF-8 encoder and DEX layout (conformance-checked).",
}

UNITS = [0x0000, 0x0001, 0x007f, 0x0080, 0x07ff, 0x0800, 0xd7ff, 0xd800, 0xdbff, 0xdc00, 0xdfff, 0xe000, 0xfeff, 0xfffe, 0xffff]


def mk(units):
    return struct.pack("<%dH" % len(units), *units).decode("utf-16-le", "surrogatepass")


def u16(s):
    b = s.encode("utf-16-le", "surrogatepass")
    return list(struct.unpack("<%dH" % (len(b) // 2), b))


def pools(ctx):
    """-> list of (label, [strings]) ; every pool becomes one DEX (two layouts)"""
    out = []
    singles = [mk([u]) for u in UNITS]
    out.append(("singles", singles))
    pairs = [mk([a, b]) for a in UNITS for b in UNITS]
    for i in range(0, len(pairs), 15):
        out.append(("pairs%d" % (i // 15), pairs[i:i + 15]))
    if ctx.thorough:
        tr = [mk(list(t)) for t in itertools.product(UNITS, repeat=3)]
        for i in range(0, len(tr), 40):
            out.append(("triples%d" % (i // 40), tr[i:i + 40]))
    for name, unit, lead in (("len1", 0x61, None), ("len2", 0xe9, None), ("len3", 0x4e2d, None), ("len1+2", 0x61, 0xe9),
                             ("len3+1", 0x4e2d, 0x61), ("lenNUL", 0x0000, None)):
        for lo in range(0, 301, 10):
            ss = []
            for n in range(lo, min(lo + 10, 301)):
                ss.append(mk(([lead] if lead is not None else []) + [unit] * n))
            out.append(("%s:%d" % (name, lo), ss))
    # LONG strings (size-gated fast paths): 4095/4096/4097 and 8191/8192/8193 MUTF-8 bytes with exactly one special unit
    # (or none) at the start, in the middle and at the end
    for total in (4095, 4096, 4097, 8191, 8192, 8193):
        longs = []
        for sp in ([], [0x0000], [0xd800], [0xdc00], [0xd800, 0xdc00], [0x00e9]):
            w = {0: 0, 1: 2 if sp and sp[0] in (0, 0xe9) else 3, 2: 6}[len(sp)] if sp else 0
            n = total - w
            for where in ((0,) if not sp else (0, n // 2, n)):
                longs.append(mk([0x61] * where + sp + [0x62] * (n - where)))
        out.append(("long%d" % total, longs))
    # byte-order-mark look-alikes as FIRST unit, followed by each special unit (a decoder that round-trips through UTF-16 with
    # BOM detection eats or misreads them only on its slow path, i.e. when the string also holds NUL / surrogates)
    bom = []
    for lead in (0xfeff, 0xfffe):
        for sp in ([0x0000], [0xd800], [0xdc00], [0xd800, 0xdc00], [0x61], [0x00e9]):
            bom.append(mk([lead] + sp))
            bom.append(mk([lead, 0x61] + sp + [0x62]))
    out.append(("bomled", bom))
    # ONE special unit (NUL / lone or paired surrogate / 2-byte / 3-byte unit) at every byte phase around the reader's
    # 128-byte chunk boundaries (prefix of n ASCII bytes, n around 127, 255, 383), as the only non-ASCII content
    specials = [[0x0000], [0xd800], [0xdc00], [0xdfff], [0xd800, 0xdc00], [0x00e9], [0x4e2d]]
    ns = list(range(120, 132)) + list(range(250, 260)) + list(range(378, 388))
    for si, sp in enumerate(specials):
        for i in range(0, len(ns), 8):
            out.append(("boundary%d:%d" % (si, ns[i]), [mk([0x61] * n + sp + [0x62] * 2) for n in ns[i:i + 8]]))
    return out


def build_model(strings):
    from gen import dalvik as D, dexgen as G
    strings = list(dict.fromkeys(strings))

    def body(ix):
        b = b""
        for s in strings:
            b += D.enc("const-string", 0, ix.string(s))
            b += D.enc("const-string/jumbo", 0, ix.string(s))
        return b + D.enc("return-void")
    cls = G.Class("Lp/S;", sfields=[G.Field(s, "I", G.ACC_STATIC) for s in strings if s != ""] + [G.Field("", "J", G.ACC_STATIC)] * (1 if "" in strings else 0),
                  dmethods=[G.Method("k", "V", (), G.ACC_STATIC, G.Code(1, 0, 0, body))],
                  vmethods=[G.Method(s, "V", (), G.ACC_PUBLIC) for s in strings])
    others = [G.Class("Lq/" + s + ";") for s in strings]
    return G.Dex([cls] + others), strings


def nontrivial(s):
    us = u16(s)
    return any(u == 0 or u >= 0x80 for u in us) or len(us) >= 127


_DEC = []


def _decoy():
    from gen import dexgen as G
    from androguard.core import dex
    if not _DEC:
        _DEC.append(G.build(build_model(["d%03d" % i for i in range(40)])[0]))
    vm = dex.DEX(_DEC[0])
    vm.get_strings()
    for i in range(vm.get_len_strings()):
        vm.CM.get_string(i)
    for m in vm.get_classes()[0].get_methods():
        for ins in m.get_instructions():
            if ins.get_name().startswith("const-string"):
                ins.get_string()


SIZE_LIES = [None, "zero", "minus1", "plus1", "double"]      # declared utf16_size of every judged string: truthful / wrong


def judge(strings, last, decoy=True, lie=None):
    """-> list of (key, msg)"""
    from gen import dexgen as G
    from androguard.core import dex
    model, strings = build_model(strings)
    if lie:
        # the statement defines a string by its MUTF-8 BYTES; the declared size is made wrong for every judged string
        f = {"zero": lambda n: 0, "minus1": lambda n: max(n - 1, 0), "plus1": lambda n: n + 1, "double": lambda n: 2 * n + 1}[lie]
        model.declared_utf16 = {s_: f(len(u16(s_))) for s_ in strings}
    raw, lay = G.build(model, return_layout=True, string_data_last=last)
    P = lay["pools"]
    out = []

    def cls_of(s):
        us = u16(s)
        c = []
        if 0 in us:
            c.append("nul")
        if any(0xd800 <= u <= 0xdfff for u in us):
            pair = any(0xd800 <= us[i] <= 0xdbff and i + 1 < len(us) and 0xdc00 <= us[i + 1] <= 0xdfff for i in range(len(us)))
            c.append("surrogate-pair" if pair else "lone-surrogate")
        if any(0x80 <= u < 0x800 for u in us):
            c.append("2byte")
        if any(u >= 0x800 and not 0xd800 <= u <= 0xdfff for u in us):
            c.append("3byte")
        if len(us) > 100:
            c.append("long")
        return "+".join(c) or "ascii"

    def bad(api, s, got):
        out.append(("%s:%s%s%s" % (api, cls_of(s), ":at-eof" if last else "", ":declared-size-" + lie if lie else ""),
                    "%s: expected code units %s, got %s" % (api, [hex(u) for u in u16(s)][:12], got)))
    try:
        if decoy:
            # history: a DIFFERENT file whose string ids 0..~125 hold other strings is parsed and queried first in this process
            _decoy()
        vm = dex.DEX(raw)
        got = vm.get_strings()
        # the alternative entry points must agree: count, per-item size / raw MUTF-8 bytes, raw lookup, regexp lookup
        if vm.get_len_strings() != len(P.slist):
            bad("get_len_strings", strings[0], vm.get_len_strings())
        decl = getattr(model, "declared_utf16", {})
        for it, sref in zip(vm.strings or [], P.slist):
            if it.get_utf16_size() != decl.get(sref, len(u16(sref))) or bytes(it.get_data()) != G.mutf8(sref)[0] + b"\x00":
                bad("string_data_item", sref, [it.get_utf16_size(), bytes(it.get_data()).hex()[:40]])
                break
        for sref in strings[:3]:
            g = vm.get_regex_strings(re.escape(sref))
            w = [x for x in P.slist if re.match(re.escape(sref), x)]
            if g is None or [u16(x) for x in g] != [u16(x) for x in w]:
                bad("get_regex_strings", sref, None if g is None else len(g))
        if [u16(x) for x in got] != [u16(x) for x in P.slist]:
            for a, b in itertools.zip_longest(got, P.slist):
                if a is None or b is None or u16(a) != u16(b):
                    bad("get_strings", b if b is not None else "", None if a is None else [hex(u) for u in u16(a)][:12])
                    break
        for s in strings:
            i = P.sidx[s]
            for api, g in (("cm.get_string", vm.CM.get_string(i)), ("get_cm_string", vm.get_cm_string(i)), ("cm.get_raw_string", vm.CM.get_raw_string(i))):
                if u16(g) != u16(s):
                    bad(api, s, [hex(u) for u in u16(g)][:12])
        c0 = vm.get_classes()[0]
        fn = sorted(tuple(u16(f.get_name())) for f in c0.get_fields())
        if fn != sorted(tuple(u16(s)) for s in strings):
            bad("field-names", strings[0], fn[:3])
        mn = sorted(tuple(u16(m.get_name())) for m in c0.get_methods() if m.get_descriptor() == "()V" and m.get_access_flags() == 1)
        if mn != sorted(tuple(u16(s)) for s in strings):
            bad("method-names", strings[0], mn[:3])
        cn = sorted(tuple(u16(c.get_name())) for c in vm.get_classes()[1:])
        if cn != sorted(tuple(u16("Lq/" + s + ";")) for s in strings):
            bad("class-names", strings[0], cn[:3])
        k = [m for m in c0.get_methods() if m.get_name() == "k" and m.get_access_flags() == 8][0]
        ins = [i for i in k.get_instructions() if i.get_name().startswith("const-string")]
        want = [s for s in strings for _ in (0, 1)]
        if len(ins) != len(want):
            bad("const-string:count", strings[0], len(ins))
        else:
            for i, s in zip(ins, want):
                for api, g in (("const-string.get_raw_string", i.get_raw_string()), ("const-string.get_string", i.get_string())):
                    if u16(g) != u16(s):
                        bad(api, s, [hex(u) for u in u16(g)][:12])
    except Exception as e:     # noqa
        import traceback
        out.append(("exception:%s%s" % (type(e).__name__, ":at-eof" if last else ""), traceback.format_exc()[-700:]))
    return out


def shards(ctx):
    ps = pools(ctx)
    lies = SIZE_LIES[1:] if ctx.thorough else ["minus1", "plus1"]
    return [(i, last, None) for i in range(len(ps)) for last in (False, True)] + [(i, False, lie) for i in range(len(ps)) for lie in lies]


def space(ctx):
    ps = pools(ctx)
    return {"units": ["%04x" % u for u in UNITS], "pools": len(ps), "strings": sum(len(p[1]) for p in ps),
            "lengths": "0..300 of units 61, e9, 4e2d, 0000 (+ mixed-width lead)", "layouts": ["normal", "string data at end of file"],
            "declared_utf16_size": ["truthful"] + (SIZE_LIES[1:] if ctx.thorough else ["minus1", "plus1"])}


def run_shard(ctx, shard):
    acc = Acc()
    i, last, lie = shard
    label, strings = pools(ctx)[i]
    res = judge(strings, last, lie=lie)
    for s in strings:
        acc.case(nontrivial=(tuple(u16(s)),) if nontrivial(s) else None)
    acc.outcomes.add(h8(label.split(":")[0].rstrip("0123456789")))
    if lie:
        acc.count("strings_with_wrong_declared_size", len(strings))
    for key, msg in res:
        acc.violation(key, {"strings": [u16(s) for s in strings], "last": last, "lie": lie}, "pool %s: %s" % (label, msg))
    if i in (0, 3) and not last:
        acc.sample({"pool": label, "strings_as_utf16_units": [["%04x" % u for u in u16(s)] for s in strings[:5]]})
    return acc


def replay(ctx, w):
    res = judge([mk(us) for us in w["strings"]], w["last"], lie=w.get("lie"))
    return "\n".join("%s: %s" % r for r in res) if res else None


def finalize(ctx, acc):
    if len(acc.outcomes) < 5:
        acc.harness_error("vacuous: %d pool families" % len(acc.outcomes))
