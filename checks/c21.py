"""C21  Decompiled integer code computes what the bytecode computes  (engine E2: translation validation).

Space: a finite catalogue of small static methods (assembled with gen/dalvik.py, wrapped by gen/dexgen.py)
  tier A (operators)   every int/long binary opcode in 23x, /2addr, /lit16, /lit8 form with boundary literals, every
                       unary op, every cast among int/long/byte/short/char (single opcode or two-opcode composition),
                       every const form with boundary literals (returned and used as an operand), cmp-long -- each a 1-3
                       instruction method, plus byte/short/char parameter and return types around the casts, plus every
                       binary operator with a CONSTANT left / right / both operand(s) from {0,1,-1,2,31,32,0x7fffffff,
                       0x80000000L,-0x80000000} loaded by a const / const-wide form (quick: the shortest form, 23x, a
                       diagonal of constant pairs; thorough: every form that can express it, 2addr, all pairs);  thorough
                       adds operand-placement variants (reversed, same register, result into a parameter register, via
                       a moved copy)
  tier B (propagation) every ordered pair of a 16-op int alphabet chained through a temporary ("tmp": t=op1(a,b);
                       r=op2(t,b)) and through parameter reuse ("reuse": r=op2(a,t));  thorough adds two more chain
                       modes and the 13-op long alphabet;  plus hand-written propagation hazards ("special": swap,
                       copy chains, redefinition of a propagated source, a div/rem whose result is unused, and "dead
                       chains": a div/rem (23x, 2addr, lit 0) whose result only feeds 1-2 (thorough 3) dead consumers
                       -- arithmetic, cast, move, compare -- while an unrelated value is returned);  plus "kreuse": one
                       constant register ({-1,-5,-100000,5,MAX,MIN}, int and long) consumed by two or three
                       instructions over {add,sub,mul,and,or,xor,shl} x {constant left, right}, results combined
                       (quick: -100000 and a rotating second constant, xor combiner; thorough: all constants, xor+mul)
  tier C (structure)   if / if-else (javac and dx layouts, merged and separate returns) for each of the 12 if-* ops,
                       cmp-long + if-*z, every 2- and 3-condition short-circuit shape (jump-target enumeration) with
                       and without else, while / do-while / for / nested / break / return-from-loop / continue /
                       compound-condition / loop-and-a-half / rotated (javac "goto cond") loops (iteration counts bounded
                       by (a & 7)), nested if and else-if ladders, a division computed before a branch or a loop or
                       tested by an if with an empty body, in-place updates x = x op c (add/sub/rsub and mul/and/or/
                       xor/shl; lit8, lit16, 2addr and 23x with a constant register; int and long; c over {0,+-1,+-2,127,
                       -128,32767,-32768,MAX,MIN,MIN+1}) loop-carried (while, do-while) and straight-line, a parameter
                       register overwritten in a loop body from another parameter / a temporary / by a swap and read
                       after the loop (twice) or by the loop condition (int and long),
                       values defined in a loop body and used by the do-while condition / after the loop, packed and
                       sparse switches with default, gaps, shared targets, fall-through, returns, switch in a loop --
                       instantiated over the comparison ops (quick: a diagonal of op tuples; thorough: full op product)
Every program is run on the FULL PRODUCT of its argument alphabets (15 x 15 tuples; long shifts 15 x 18).

Oracle: reference = ref/interp.py on the assembled bytecode; candidate = the Java text of DvMethod.get_source(),
re-wrapped into one class per shard, compiled by the real javac and executed by java with a generated driver that
prints, per program, the result or the exception class name for every tuple.  Exact string comparison.
  decompile raises              -> <key>:decompile-exception
  javac rejects the method      -> <key>:javac-reject      (attributed through javac's error line numbers; errors of
                                                             the lexer/parser can cascade, so such methods are confirmed
                                                             one-source-file-per-method in a single extra javac run;
                                                             rejected methods are removed and the rest recompiled;
                                                             bisection if nothing can be attributed)
  result differs                -> <key>:value-mismatch / <key>:exception-mismatch / <key>:nontermination
  get_source_ext() token texts concatenated != get_source()  -> <key>:ext-text-differs   (alternative entry point)
Every batch (and every replay) is preceded by a decoy decompilation of another class with the same class and method
names (state carried from one decompilation to the next would be caught and confirmed).
Keys are input-side: tier + opcode family (mnemonic without /2addr,/lit8,/lit16) for tier A, tier + op pair for B,
tier + skeleton id for C (the op instantiation is part of the program id in the witness, not of the key).  A tier B pair
that contains an operator whose own single-operator tier A program already fails is counted (`subsumed_by_tier_A`) and
not reported again, so one wrong operator gives the tier A key only.
"""
import itertools
import os
import re
import shutil
import subprocess
import tempfile

from gen import dalvik as D
from gen import dexgen as G
from mc.core import Acc
from ref import interp

PROPERTY = "C21"
LEVEL = "translation_validation"
RULE = ("finite catalogue of static int/long methods: tier A every operator x form x boundary literal, casts, const "
        "forms, cmp-long; tier B every ordered pair of a 16-op alphabet x chain mode; tier C structured skeletons "
        "(if/if-else/short-circuit/loops/switches) x comparison ops; each program run on the full product of a 15-value "
        "argument alphabet per parameter; reference = independent Dalvik interpreter, candidate = javac-compiled DAD "
        "output; non-trivial = every program (distinct by program id)")
ASSUMPTIONS = [
    "ref/interp.py (Dalvik int/long semantics typed from the bytecode specification) is the trusted reference",
    "JDK 17 javac/java are the trusted Java compiler and executor",
    "only shapes a Java compiler/dx would emit are in the catalogue (irreducible/unstructured methods are outside the "
    "statement)",
    "a hanging candidate is detected with a generous wall-clock guard on the java process (reference programs terminate "
    "within a fixed step budget); the verdict itself compares strings only",
    "a standalone cmp-long result (returned as int) is judged although javac itself only emits cmp-long before if-*z",
]
MANIFEST = {
    "engine": "E2-structures",
    "technique": "translation validation: independent Dalvik interpreter vs javac-compiled decompiler output",
    "text": "Every program of a finite catalogue (all int/long operators in all encodings with boundary literals, casts, "
            "constant forms, all ordered operator pairs, and a catalogue of structured control-flow skeletons over all "
            "comparison opcodes) is assembled, decompiled by DAD, compiled by the real javac and executed on the full "
            "product of a boundary argument alphabet; each result must equal the one computed by an independent "
            "interpreter on the bytecode.  Complete for the stated catalogue x alphabet.",
    "note": "Trusted: ref/interp.py, gen/dalvik.py, gen/dexgen.py, JDK 17. Float/double, objects, arrays, invokes and "
            "exceptions other than ArithmeticException are out of scope.",
}

MAXI, MINI = 2 ** 31 - 1, -2 ** 31
MAXL, MINL = 2 ** 63 - 1, -2 ** 63
AI = [0, 1, -1, 2, -2, 31, 32, 33, 255, 65535, -32768, MAXI, MINI, 0x55555555, interp.s32(0xAAAAAAAA)]
AJ = [0, 1, -1, 2, -2, 63, 64, 65, 0xffffffff, 1 << 32, -(1 << 31), MAXL, MINL, 0x5555555555555555,
      interp.s64(0xAAAAAAAAAAAAAAAA)]
AI_SH = AI + [63, 64, 65]          # shift counts for the long shifts
AB = [0, 1, -1, 2, -2, 31, 32, 33, 127, -128, 85, -86, 64, -64, 100]
ASH = [0, 1, -1, 2, -2, 31, 32, 33, 255, 32767, -32768, 127, -128, 0x5555, -0x5556]
AC = [0, 1, 2, 31, 32, 33, 255, 65535, 32768, 32767, 127, 128, 0x5555, 0xAAAA, 65534]
ALPHA = {"I": AI, "J": AJ, "s": AI_SH, "B": AB, "S": ASH, "C": AC}

L8 = [0, 1, -1, 31, 32, 33, -128, 127]
L16 = [0, 1, -1, 31, 32, 33, -128, 127, -32768, 32767]
BINOPS = ["add", "sub", "mul", "div", "rem", "and", "or", "xor", "shl", "shr", "ushr"]
LIT16_OPS = ["add", "rsub", "mul", "div", "rem", "and", "or", "xor"]
LIT8_OPS = ["add", "rsub", "mul", "div", "rem", "and", "or", "xor", "shl", "shr", "ushr"]
IF2 = ["eq", "ne", "lt", "ge", "gt", "le"]
IFZ = [x + "z" for x in IF2]
IF12 = IF2 + IFZ
NEG = {"eq": "ne", "ne": "eq", "lt": "ge", "ge": "lt", "gt": "le", "le": "gt"}


def space(ctx):
    cat = catalogue(ctx.thorough)
    per = {}
    for p in cat:
        per[p.pid[0]] = per.get(p.pid[0], 0) + 1
    return {"programs_per_tier": per, "int_alphabet": AI, "long_alphabet": AJ, "long_shift_count_alphabet": AI_SH,
            "lit8": L8, "lit16": L16, "tuples_per_program": "15x15 (15x18 for long shifts)"}


# ======================================================================================== programs
class Prog:
    __slots__ = ("pid", "key", "params", "ret", "nloc", "alph", "code", "listing", "regs", "ins", "bases")

    def __init__(self, pid, key, params, ret, nloc, body, alph=None, bases=()):
        """body(asm, R): emit instructions; R.a, R.b = parameter registers, locals are v0..v(nloc-1)."""
        self.pid, self.key, self.params, self.ret, self.nloc = pid, key, params, ret, nloc
        self.bases = tuple(bases)
        self.alph = alph or params
        width = sum(2 if p == "J" else 1 for p in params)
        self.regs, self.ins = nloc + width, width
        assert self.regs <= 16, pid

        class R:
            pass
        R.a = nloc
        R.b = nloc + (2 if params[0] == "J" else 1)
        asm = D.Asm()
        body(asm, R)
        self.code, lst = asm.assemble()
        self.listing = fmt_listing(lst)

    def tuples(self):
        return itertools.product(*[ALPHA[c] for c in self.alph])


def fmt_listing(lst):
    out = []
    for off, kind, name, b in lst:
        if kind == "ins":
            i = D.decode(b, 0)
            ops = ["v%d" % r for r in i.regs]
            if i.lit is not None:
                ops.append("#%d" % i.lit)
            if i.branch is not None:
                ops.append("->%04x" % (off // 2 + i.branch))
            out.append("%04x: %s %s" % (off // 2, i.name, ", ".join(ops)))
        else:
            out.append("%04x: %s %s" % (off // 2, name, b.hex()))
    return out


def ret_ins(t):
    return "return-wide" if t == "J" else "return"


def _fam(mn):
    return mn.split("/")[0]


KL = [0, 1, -1, 2, 31, 32, 0x7fffffff, 0x80000000, -0x80000000]        # long constant operands
KI = [0, 1, -1, 2, 31, 32, 0x7fffffff, -0x80000000]                    # int constant operands / shift counts


def _wide_forms(v):
    f = []
    if -0x8000 <= v <= 0x7fff:
        f.append(("const-wide/16", v))
    if -0x80000000 <= v <= 0x7fffffff:
        f.append(("const-wide/32", v))
    f.append(("const-wide", v))
    if v % (1 << 48) == 0:
        f.append(("const-wide/high16", (v >> 48) & 0xffff))
    return f


def _int_forms(v):
    f = []
    if -8 <= v <= 7:
        f.append(("const/4", v))
    if -0x8000 <= v <= 0x7fff:
        f.append(("const/16", v))
    f.append(("const", v))
    if v % (1 << 16) == 0:
        f.append(("const/high16", (v >> 16) & 0xffff))
    return f


def _const_operand_programs(thorough):
    """key = A:<op>-<type> ; pid A:<op>-<type>[/2addr]:K<pos>:<c>[,<c2>]:<const form(s)>"""
    P = []
    for ty, T in (("int", "I"), ("long", "J")):
        wide = T == "J"
        K = KL if wide else KI
        forms = _wide_forms if wide else _int_forms
        rt = ret_ins(T)
        w = 2 if wide else 1
        r0, k1, k2 = 0, w, 2 * w              # result, first constant, second constant
        nloc = 3 * w
        for op in BINOPS:
            mn = "%s-%s" % (op, ty)
            shift = op in ("shl", "shr", "ushr")
            params = "JI" if (wide and shift) else T + T
            alph = "Js" if params == "JI" else None
            # the right operand of a long shift is an int
            KR = KI if shift else K
            rforms = _int_forms if shift else forms
            for enc2 in (("", "/2addr") if thorough else ("",)):
                def mk(pos, c, cf, c2=None, c2f=None, enc2=enc2, mn=mn, shift=shift, wide=wide):
                    def body(s, R):
                        other_r = R.b if shift and wide else R.a          # the non-constant right operand
                        if enc2 == "":
                            if pos == "left":
                                s.ins(cf[0], k1, cf[1]).ins(mn, r0, k1, other_r)
                            elif pos == "right":
                                s.ins(cf[0], k1, cf[1]).ins(mn, r0, R.a, k1)
                            else:
                                s.ins(cf[0], k1, cf[1]).ins(c2f[0], k2, c2f[1]).ins(mn, r0, k1, k2)
                            s.ins(rt, r0)
                        else:
                            if pos == "left":
                                s.ins(cf[0], r0, cf[1]).ins(mn + "/2addr", r0, other_r).ins(rt, r0)
                            elif pos == "right":
                                s.ins(cf[0], k1, cf[1]).ins(mn + "/2addr", R.a, k1).ins(rt, R.a)
                            else:
                                s.ins(cf[0], r0, cf[1]).ins(c2f[0], k1, c2f[1]).ins(mn + "/2addr", r0, k1).ins(rt, r0)
                    return body
                for i, c in enumerate(K):
                    for cf in (forms(c) if thorough else forms(c)[:1]):
                        P.append(Prog("A:%s%s:Kleft:%d:%s" % (mn, enc2, c, cf[0]), "A:" + mn, params, T, nloc,
                                      mk("left", c, cf), alph))
                for c in KR:
                    for cf in (rforms(c) if thorough else rforms(c)[:1]):
                        P.append(Prog("A:%s%s:Kright:%d:%s" % (mn, enc2, c, cf[0]), "A:" + mn, params, T, nloc,
                                      mk("right", c, cf), alph))
                pairs = ([(c, c2) for c in K for c2 in KR] if thorough
                         else [(c, KR[(i * 3 + 1) % len(KR)]) for i, c in enumerate(K)]
                         + [(c, KR[(i * 5 + 4) % len(KR)]) for i, c in enumerate(K)])
                for c, c2 in sorted(set(pairs), key=pairs.index):
                    cf, c2f = forms(c)[0], rforms(c2)[0]
                    P.append(Prog("A:%s%s:Kboth:%d,%d:%s,%s" % (mn, enc2, c, c2, cf[0], c2f[0]), "A:" + mn, params, T,
                                  nloc, mk("both", c, cf, c2, c2f), alph))
    return P


# ---------------------------------------------------------------------------------------- tier A
def tier_a(thorough):
    P = []

    def add(pid, fam, params, ret, nloc, body, alph=None):
        P.append(Prog("A:" + pid, "A:" + fam, params, ret, nloc, body, alph))

    # binary operators, register forms
    for ty, T, nloc in (("int", "I", 2), ("long", "J", 4)):
        for op in BINOPS:
            mn = "%s-%s" % (op, ty)
            shift = op in ("shl", "shr", "ushr")
            params = "JI" if (T == "J" and shift) else T + T
            alph = "Js" if params == "JI" else None
            rt = ret_ins(T)
            add(mn, mn, params, T, nloc, lambda s, R, mn=mn, rt=rt: s.ins(mn, 0, R.a, R.b).ins(rt, 0), alph)
            add(mn + "/2addr", mn, params, T, nloc,
                lambda s, R, mn=mn, rt=rt: s.ins(mn + "/2addr", R.a, R.b).ins(rt, R.a), alph)
            if thorough:
                if params != "JI":
                    add(mn + ":rev", mn, params, T, nloc, lambda s, R, mn=mn, rt=rt: s.ins(mn, 0, R.b, R.a).ins(rt, 0))
                    add(mn + ":same", mn, params, T, nloc, lambda s, R, mn=mn, rt=rt: s.ins(mn, 0, R.a, R.a).ins(rt, 0))
                    add(mn + "/2addr:same", mn, params, T, nloc,
                        lambda s, R, mn=mn, rt=rt: s.ins(mn + "/2addr", R.a, R.a).ins(rt, R.a))
                    add(mn + "/2addr:rev", mn, params, T, nloc,
                        lambda s, R, mn=mn, rt=rt: s.ins(mn + "/2addr", R.b, R.a).ins(rt, R.b))
                add(mn + ":dstparam", mn, params, T, nloc,
                    lambda s, R, mn=mn, rt=rt: s.ins(mn, R.a, R.a, R.b).ins(rt, R.a), alph)
                mv = "move-wide" if T == "J" else "move"
                add(mn + "/2addr:viamove", mn, params, T, nloc,
                    lambda s, R, mn=mn, rt=rt, mv=mv: s.ins(mv, 0, R.a).ins(mn + "/2addr", 0, R.b).ins(rt, 0), alph)
    # literal forms
    for op in LIT16_OPS:
        mn = "rsub-int" if op == "rsub" else "%s-int/lit16" % op
        for lit in L16:
            add("%s:%d" % (mn, lit), _fam(mn), "II", "I", 2,
                lambda s, R, mn=mn, lit=lit: s.ins(mn, 0, R.a, lit).ins("return", 0))
    for op in LIT8_OPS:
        mn = "%s-int/lit8" % op
        for lit in L8:
            add("%s:%d" % (mn, lit), _fam(mn), "II", "I", 2,
                lambda s, R, mn=mn, lit=lit: s.ins(mn, 0, R.a, lit).ins("return", 0))
            if thorough:
                add("%s:%d:dstparam" % (mn, lit), _fam(mn), "II", "I", 2,
                    lambda s, R, mn=mn, lit=lit: s.ins(mn, R.a, R.a, lit).ins("return", R.a))
    # unary
    for mn, T, nloc in (("neg-int", "I", 2), ("not-int", "I", 2), ("neg-long", "J", 4), ("not-long", "J", 4)):
        add(mn, mn, T + T, T, nloc, lambda s, R, mn=mn, T=T: s.ins(mn, 0, R.a).ins(ret_ins(T), 0))
        if thorough:
            add(mn + ":dstparam", mn, T + T, T, nloc, lambda s, R, mn=mn, T=T: s.ins(mn, R.a, R.a).ins(ret_ins(T), R.a))
            add(mn + ":twice", mn, T + T, T, nloc,
                lambda s, R, mn=mn, T=T: s.ins(mn, 0, R.a).ins(mn, 0, 0).ins(ret_ins(T), 0))
    # casts: single opcodes
    add("int-to-long", "int-to-long", "II", "J", 2, lambda s, R: s.ins("int-to-long", 0, R.a).ins("return-wide", 0))
    add("long-to-int", "long-to-int", "JJ", "I", 4, lambda s, R: s.ins("long-to-int", 0, R.a).ins("return", 0))
    for c in ("byte", "char", "short"):
        mn = "int-to-" + c
        add(mn, mn, "II", "I", 2, lambda s, R, mn=mn: s.ins(mn, 0, R.a).ins("return", 0))
        # compositions: long -> narrow, narrow -> long, narrow -> narrow
        add("long-to-int+" + mn, "cast:long>" + c, "JJ", "I", 4,
            lambda s, R, mn=mn: s.ins("long-to-int", 0, R.a).ins(mn, 0, 0).ins("return", 0))
        add(mn + "+int-to-long", "cast:" + c + ">long", "II", "J", 2,
            lambda s, R, mn=mn: s.ins(mn, 0, R.a).ins("int-to-long", 0, 0).ins("return-wide", 0))
        for c2 in ("byte", "char", "short"):
            if c2 != c:
                add(mn + "+int-to-" + c2, "cast:" + c + ">" + c2, "II", "I", 2,
                    lambda s, R, mn=mn, c2=c2: s.ins(mn, 0, R.a).ins("int-to-" + c2, 0, 0).ins("return", 0))
        # narrow value used in arithmetic afterwards
        add(mn + "+add", "cast:" + c + "+add", "II", "I", 2,
            lambda s, R, mn=mn: s.ins(mn, 0, R.a).ins("add-int", 0, 0, R.b).ins("return", 0))
    add("int-to-long+long-to-int", "cast:int>long>int", "II", "I", 2,
        lambda s, R: s.ins("int-to-long", 0, R.a).ins("long-to-int", 0, 0).ins("return", 0))
    add("long-to-int+int-to-long", "cast:long>int>long", "JJ", "J", 4,
        lambda s, R: s.ins("long-to-int", 0, R.a).ins("int-to-long", 0, 0).ins("return-wide", 0))
    add("int-to-long+add-long", "cast:int>long+add", "JI", "J", 4,
        lambda s, R: s.ins("int-to-long", 0, R.b).ins("add-long", 0, R.a, 0).ins("return-wide", 0))
    # narrow parameter / return types (byte, short, char) around the casts
    for c, T in (("byte", "B"), ("short", "S"), ("char", "C")):
        mn = "int-to-" + c
        add("sig:(II)%s:%s" % (T, mn), "sig." + c, "II", T, 2, lambda s, R, mn=mn: s.ins(mn, 0, R.a).ins("return", 0))
        add("sig:(II)%s:add+%s" % (T, mn), "sig." + c, "II", T, 2,
            lambda s, R, mn=mn: s.ins("add-int", 0, R.a, R.b).ins(mn, 0, 0).ins("return", 0))
        add("sig:(%s%s)I:add" % (T, T), "sig." + c, T + T, "I", 2, lambda s, R: s.ins("add-int", 0, R.a, R.b).ins("return", 0))
        add("sig:(%s%s)I:mul" % (T, T), "sig." + c, T + T, "I", 2, lambda s, R: s.ins("mul-int", 0, R.a, R.b).ins("return", 0))
        add("sig:(%s%s)%s:return" % (T, T, T), "sig." + c, T + T, T, 2, lambda s, R: s.ins("return", R.b))
        add("sig:(%sI)J:int-to-long" % T, "sig." + c, T + "I", "J", 2,
            lambda s, R: s.ins("int-to-long", 0, R.a).ins("return-wide", 0))
        add("sig:(%sI)I:ushr" % T, "ushr-int", T + "I", "I", 2, lambda s, R: s.ins("ushr-int", 0, R.a, R.b).ins("return", 0))
        for c2, T2 in (("byte", "B"), ("short", "S"), ("char", "C")):
            if c2 != c:
                add("sig:(%sI)%s:int-to-%s" % (T, T2, c2), "sig." + c, T + "I", T2, 2,
                    lambda s, R, c2=c2: s.ins("int-to-" + c2, 0, R.a).ins("return", 0))
    # constants
    consts = [("const/4", "I", [0, 1, -1, 7, -8]),
              ("const/16", "I", [0, 1, -1, 127, -128, 255, 32767, -32768]),
              ("const", "I", [MINI, MAXI, 0x55555555, interp.s32(0xAAAAAAAA), 65535, 65536, -32769, MINI + 1]),
              ("const/high16", "I", [1, 0x7fff, 0x8000, 0xffff, 0x5555]),
              ("const-wide/16", "J", [0, 1, -1, 32767, -32768]),
              ("const-wide/32", "J", [MINI, MAXI, 65536, -32769, 0x55555555]),
              ("const-wide", "J", [MINL, MAXL, 1 << 32, 1 << 31, -(1 << 31) - 1, 0xffffffff, 0x5555555555555555,
                                   interp.s64(0xAAAAAAAAAAAAAAAA), MINL + 1]),
              ("const-wide/high16", "J", [1, 0x7fff, 0x8000, 0xffff])]
    for mn, T, lits in consts:
        nloc = 4 if T == "J" else 2
        for lit in lits:
            tag = ("0x%x" % lit) if "high16" in mn else str(lit)
            add("%s:%s" % (mn, tag), mn, T + T, T, nloc,
                lambda s, R, mn=mn, lit=lit, T=T: s.ins(mn, 0, lit).ins(ret_ins(T), 0))
            addop = "add-long" if T == "J" else "add-int"
            add("%s:%s+add" % (mn, tag), mn, T + T, T, nloc,
                lambda s, R, mn=mn, lit=lit, T=T, addop=addop: s.ins(mn, 0, lit).ins(addop, 0, R.a, 0).ins(ret_ins(T), 0))
            if thorough:
                for op2 in ("sub", "and", "div"):
                    o2 = "%s-%s" % (op2, "long" if T == "J" else "int")
                    add("%s:%s+%s" % (mn, tag, op2), mn, T + T, T, nloc,
                        lambda s, R, mn=mn, lit=lit, T=T, o2=o2: s.ins(mn, 0, lit).ins(o2, 0, 0, R.a).ins(ret_ins(T), 0))
    # constant operands (left / right / both) of every binary operator: the literal's own type matters
    # (a small long constant as the left operand of a shift, two small constants whose int result overflows)
    P.extend(_const_operand_programs(thorough))
    # moves
    add("move", "move", "II", "I", 2, lambda s, R: s.ins("move", 0, R.b).ins("return", 0))
    add("move/from16", "move", "II", "I", 2, lambda s, R: s.ins("move/from16", 0, R.b).ins("return", 0))
    add("move/16", "move", "II", "I", 2, lambda s, R: s.ins("move/16", 0, R.b).ins("return", 0))
    add("move-wide", "move-wide", "JJ", "J", 4, lambda s, R: s.ins("move-wide", 0, R.b).ins("return-wide", 0))
    add("move-wide/from16", "move-wide", "JJ", "J", 4, lambda s, R: s.ins("move-wide/from16", 0, R.b).ins("return-wide", 0))
    add("move-wide/16", "move-wide", "JJ", "J", 4, lambda s, R: s.ins("move-wide/16", 0, R.b).ins("return-wide", 0))
    add("return:param", "return", "II", "I", 2, lambda s, R: s.ins("return", R.b))
    add("return-wide:param", "return-wide", "JJ", "J", 4, lambda s, R: s.ins("return-wide", R.b))
    # cmp-long
    add("cmp-long", "cmp-long", "JJ", "I", 4, lambda s, R: s.ins("cmp-long", 0, R.a, R.b).ins("return", 0))
    if thorough:
        add("cmp-long:rev", "cmp-long", "JJ", "I", 4, lambda s, R: s.ins("cmp-long", 0, R.b, R.a).ins("return", 0))
        add("cmp-long+neg", "cmp-long", "JJ", "I", 4,
            lambda s, R: s.ins("cmp-long", 0, R.a, R.b).ins("neg-int", 0, 0).ins("return", 0))
    return P


# ---------------------------------------------------------------------------------------- tier B
# (name, arity, emitter(asm, dst, x, y)) ; y ignored for unary
def _b_int_ops():
    ops = []
    for op in BINOPS:
        ops.append((op, 2, lambda s, d, x, y, op=op: s.ins(op + "-int", d, x, y)))
    ops.append(("neg", 1, lambda s, d, x, y: s.ins("neg-int", d, x)))
    ops.append(("not", 1, lambda s, d, x, y: s.ins("not-int", d, x)))
    ops.append(("i2c", 1, lambda s, d, x, y: s.ins("int-to-char", d, x)))
    ops.append(("rsub5", 1, lambda s, d, x, y: s.ins("rsub-int/lit8", d, x, 5)))
    ops.append(("mulm3", 1, lambda s, d, x, y: s.ins("mul-int/lit16", d, x, -3)))
    assert len(ops) == 16
    return ops


def _b_long_ops():
    ops = []
    for op in BINOPS:
        if op in ("shl", "shr", "ushr"):
            # the count is the int in v4 (= (int) b, computed in the prelude)
            ops.append((op, 1, lambda s, d, x, y, op=op: s.ins(op + "-long", d, x, 4)))
        else:
            ops.append((op, 2, lambda s, d, x, y, op=op: s.ins(op + "-long", d, x, y)))
    ops.append(("neg", 1, lambda s, d, x, y: s.ins("neg-long", d, x)))
    ops.append(("not", 1, lambda s, d, x, y: s.ins("not-long", d, x)))
    return ops


_B_BASE = {"i2c": "A:int-to-char", "rsub5": "A:rsub-int/lit8:1", "mulm3": "A:mul-int/lit16:-1"}


def _b_base(name, ty):
    """the tier A program (present in both tiers) that exercises the same operator on its own"""
    return _B_BASE.get(name) or "A:%s-%s" % (name, ty)


def tier_b(thorough):
    P = []
    modes = ["tmp", "reuse"] + (["both", "2addr"] if thorough else [])
    for ty in (["int", "long"] if thorough else ["int"]):
        ops = _b_int_ops() if ty == "int" else _b_long_ops()
        T = "I" if ty == "int" else "J"
        nloc = 3 if ty == "int" else 5
        t, r = (0, 1) if ty == "int" else (0, 2)
        for (n1, a1, e1), (n2, a2, e2) in itertools.product(ops, repeat=2):
            for mode in modes:
                if mode == "both" and a2 == 1:
                    continue                      # identical to "tmp" for a unary second op

                def body(s, R, e1=e1, e2=e2, mode=mode, a1=a1, a2=a2, ty=ty, t=t, r=r):
                    if ty == "long":
                        s.ins("long-to-int", 4, R.b)
                    if mode == "2addr":
                        # first result written into the parameter register a, then reused
                        e1(s, R.a, R.a, R.b)
                        e2(s, r, R.a, R.b)
                    else:
                        e1(s, t, R.a, R.b)
                        if mode == "tmp":
                            e2(s, r, t, R.b)
                        elif mode == "reuse":
                            if a2 == 1:
                                e2(s, r, t, None)
                                s.ins("xor-long" if ty == "long" else "xor-int", r, r, R.a)
                            else:
                                e2(s, r, R.a, t)
                        else:
                            e2(s, r, t, t)
                    s.ins(ret_ins("J" if ty == "long" else "I"), r)
                pair = "%s%s,%s" % ("" if ty == "int" else "long.", n1, n2)
                bases = sorted({_b_base(n1, ty), _b_base(n2, ty)} | ({"A:long-to-int"} if ty == "long" else set()))
                P.append(Prog("B:%s:%s" % (pair, mode), "B:" + pair, T + T, T, nloc, body, bases=bases))
    return P


def tier_b_special(thorough):
    """hand-written propagation hazards: copies, swaps, redefinition of a propagated source, dead throwing ops"""
    P = []

    def add(name, params, ret, nloc, body):
        # one key for all the "throwing operation whose result is unused" variants (one root cause)
        fam = "dead-div-rem" if name.startswith(("dead-", "overwritten-")) else name
        P.append(Prog("B:special.%s" % name, "B:special.%s" % fam, params, ret, nloc, body))
    add("swap", "II", "I", 2,
        lambda s, R: s.ins("move", 0, R.a).ins("move", R.a, R.b).ins("move", R.b, 0).ins("sub-int", 0, R.a, R.b).ins("return", 0))
    add("swap.long", "JJ", "J", 4,
        lambda s, R: s.ins("move-wide", 0, R.a).ins("move-wide", R.a, R.b).ins("move-wide", R.b, 0)
        .ins("sub-long", 0, R.a, R.b).ins("return-wide", 0))
    add("redef-src.const", "II", "I", 2,
        lambda s, R: s.ins("add-int", 0, R.a, R.b).ins("const/4", R.a, 0).ins("add-int", 0, 0, R.a).ins("return", 0))
    add("redef-src.inc", "II", "I", 2,
        lambda s, R: s.ins("add-int", 0, R.a, R.b).ins("add-int/lit8", R.a, R.a, 1).ins("mul-int", 0, 0, R.a).ins("return", 0))
    add("postinc", "II", "I", 2,
        lambda s, R: s.ins("move", 0, R.a).ins("add-int/lit8", R.a, R.a, 1).ins("mul-int", 0, 0, R.a).ins("return", 0))
    add("preinc", "II", "I", 2,
        lambda s, R: s.ins("add-int/lit8", R.a, R.a, 1).ins("move", 0, R.a).ins("mul-int", 0, 0, R.b).ins("return", 0))
    add("copy-chain", "II", "I", 3,
        lambda s, R: s.ins("move", 0, R.a).ins("move", 1, 0).ins("move", 2, 1).ins("sub-int", 0, 2, R.b).ins("return", 0))
    add("multiuse", "II", "I", 2,
        lambda s, R: s.ins("add-int", 0, R.a, R.b).ins("mul-int", 1, 0, 0).ins("sub-int", 1, 1, 0).ins("return", 1))
    add("multiuse.div", "II", "I", 2,
        lambda s, R: s.ins("div-int", 0, R.a, R.b).ins("add-int", 1, 0, 0).ins("return", 1))
    add("reuse-reg-types", "II", "J", 2,
        lambda s, R: s.ins("add-int", 0, R.a, R.b).ins("int-to-long", 0, 0).ins("return-wide", 0))
    add("reuse-reg-unrelated", "II", "I", 2,
        lambda s, R: s.ins("add-int", 0, R.a, R.b).ins("mul-int", 1, 0, R.a).ins("sub-int", 0, R.b, R.a)
        .ins("xor-int", 0, 0, 1).ins("return", 0))
    for op in ("div", "rem"):
        add("dead-%s-int" % op, "II", "I", 2, lambda s, R, op=op: s.ins(op + "-int", 0, R.a, R.b).ins("return", R.a))
        add("dead-%s-int/2addr" % op, "II", "I", 2,
            lambda s, R, op=op: s.ins("move", 0, R.a).ins(op + "-int/2addr", 0, R.b).ins("return", R.a))
        add("dead-%s-long" % op, "JJ", "J", 4, lambda s, R, op=op: s.ins(op + "-long", 0, R.a, R.b).ins("return-wide", R.a))
        add("dead-%s-int/lit8.0" % op, "II", "I", 2,
            lambda s, R, op=op: s.ins(op + "-int/lit8", 0, R.a, 0).ins("return", R.b))
        add("dead-%s-int/lit16.0" % op, "II", "I", 2,
            lambda s, R, op=op: s.ins(op + "-int/lit16", 0, R.a, 0).ins("return", R.b))
        add("overwritten-%s-int" % op, "II", "I", 2,
            lambda s, R, op=op: s.ins(op + "-int", 0, R.a, R.b).ins("const/4", 0, 3).ins("return", 0))
        add("%s-then-redef" % op, "II", "I", 2,
            lambda s, R, op=op: s.ins(op + "-int", 0, R.a, R.b).ins("const/4", R.b, 1).ins("add-int", 0, 0, R.b).ins("return", 0))
    # dead chains: a div/rem whose result only feeds instructions that are themselves dead (1..3 consumers:
    # arithmetic, cast, move, compare); the method returns an unrelated value but must still throw
    kinds = ["arith", "cast", "move", "cmp"]
    for ty in ("int", "long"):
        wide = ty == "long"
        T = "J" if wide else "I"
        heads = [("23x", None), ("2addr", None)] + ([] if wide else [("lit8", 0), ("lit16", 0)])
        for op in ("div", "rem"):
            for enc2, lit in heads:
                for n in ((1, 2, 3) if thorough else (1, 2)):
                    for seq in itertools.product(kinds, repeat=n):
                        if not wide and "cmp" in seq:
                            continue                   # there is no int compare-to-value instruction

                        def body(s, R, op=op, enc2=enc2, seq=seq, wide=wide, ty=ty):
                            # v0(/v1) = quotient ; consumers write v2(/v3), v4(/v5), v6(/v7) ; cur tracks (reg, is_wide)
                            mn = "%s-%s" % (op, ty)
                            if enc2 == "23x":
                                s.ins(mn, 0, R.a, R.b)
                            elif enc2 == "2addr":
                                s.ins("move-wide" if wide else "move", 0, R.a)
                                s.ins(mn + "/2addr", 0, R.b)
                            else:
                                s.ins("%s/%s" % (mn, enc2), 0, R.a, 0)
                            cur, cw = 0, wide
                            for j, k in enumerate(seq):
                                dst = 2 * (j + 1)
                                if k == "arith":
                                    if cw:
                                        s.ins("add-long", dst, cur, R.a if wide else cur)
                                    else:
                                        s.ins("add-int/lit8", dst, cur, 1)
                                elif k == "cast":
                                    if cw:
                                        s.ins("long-to-int", dst, cur)
                                        cw = False
                                    else:
                                        s.ins("int-to-long", dst, cur)
                                        cw = True
                                elif k == "move":
                                    s.ins("move-wide" if cw else "move", dst, cur)
                                else:
                                    if cw:
                                        s.ins("cmp-long", dst, cur, cur)
                                        cw = False
                                    else:
                                        s.ins("neg-int", dst, cur)
                                cur = dst
                            s.ins(ret_ins("J" if wide else "I"), R.b if not wide else R.a)
                        name = "dead-chain.%s-%s/%s:%s" % (op, ty, enc2, ",".join(seq))
                        P.append(Prog("B:special." + name, "B:special.dead-chain", T + T, T, 8, body))
    return P


KREUSE = [-1, -5, -100000, 5, 0x7fffffff]        # + MIN of the type


def tier_b_kreuse(thorough):
    """A constant held in ONE register and consumed by two (three) different instructions, as left or right operand:
    t1 = a <op1> K ; t2 = b <op2> K ; return t1 ^ t2   (register propagation hands the same constant to every use).
    key = B:kreuse.<type> (which use is mis-written cannot be told from the input side); the pid names the uses, the
    constant and the combiner."""
    P = []
    for ty in ("int", "long"):
        wide = ty == "long"
        T = "J" if wide else "I"
        w = 2 if wide else 1
        K, T1, T2, RR, CNT = 0, w, 2 * w, 3 * w, 4 * w
        nloc = 4 * w + (1 if wide else 0)
        consts = KREUSE + [MINL if wide else MINI]
        uses = [(op, pos) for op in ("add", "sub", "mul", "and", "or", "xor") for pos in "RL"]
        uses += [("shl", "L")] if wide else [("shl", "R"), ("shl", "L")]     # a long constant cannot be a shift count
        cw = "const-wide" if wide else "const"
        rt = ret_ins(T)

        def emit_use(s, R, use, dst, x, wide=wide, ty=ty):
            op, pos = use
            mn = "%s-%s" % (op, ty)
            if op == "shl" and wide:
                s.ins(mn, dst, K, CNT)
            elif pos == "R":
                s.ins(mn, dst, x, K)
            else:
                s.ins(mn, dst, K, x)

        def name(u):
            return u[0] + u[1]
        n = 0
        for u1 in uses:
            for u2 in uses:
                n += 1
                cs = consts if thorough else sorted({-100000, consts[n % len(consts)]})
                for c in cs:
                    for comb in (("xor", "mul") if thorough else ("xor",)):
                        def body(s, R, u1=u1, u2=u2, c=c, comb=comb, wide=wide, ty=ty):
                            if wide and "shl" in (u1[0], u2[0]):
                                s.ins("long-to-int", CNT, R.b)
                            s.ins(cw, K, c)
                            emit_use(s, R, u1, T1, R.a)
                            emit_use(s, R, u2, T2, R.b)
                            s.ins("%s-%s" % (comb, ty), RR, T1, T2)
                            s.ins(rt, RR)
                        P.append(Prog("B:kreuse.%s:%s,%s:%d:%s" % (ty, name(u1), name(u2), c, comb),
                                      "B:kreuse.%s" % ty, T + T, T, nloc, body))
        # three uses: t1 = a <op1> K ; t2 = b * K ; r = (t1 ^ t2) <op3> K
        for u1 in uses:
            for u3 in (("add", "R"), ("sub", "R"), ("xor", "R"), ("sub", "L")):
                n += 1
                cs = consts if thorough else sorted({-100000, consts[n % len(consts)]})
                for c in cs:
                    def body3(s, R, u1=u1, u3=u3, c=c, wide=wide, ty=ty):
                        if wide and u1[0] == "shl":
                            s.ins("long-to-int", CNT, R.b)
                        s.ins(cw, K, c)
                        emit_use(s, R, u1, T1, R.a)
                        emit_use(s, R, ("mul", "R"), T2, R.b)
                        s.ins("xor-%s" % ty, RR, T1, T2)
                        emit_use(s, R, u3, RR, RR)
                        s.ins(rt, RR)
                    P.append(Prog("B:kreuse.%s:%s,mulR,%s:%d" % (ty, name(u1), name(u3), c),
                                  "B:kreuse.%s" % ty, T + T, T, nloc, body3))
    return P


# ---------------------------------------------------------------------------------------- tier C
def emit_if(s, spec, x, y, label):
    if spec.endswith("z"):
        s.ins("if-" + spec, x, label)
    else:
        s.ins("if-" + spec, x, y, label)


# int skeletons use locals v0 (result) v1 v2 v3 ; parameters a, b
def _then(s, R):
    s.ins("add-int/lit8", 0, R.a, 7)


def _else(s, R):
    s.ins("xor-int/lit8", 0, R.b, 21)


def sk_if(op, shape):
    def body(s, R):
        Lelse, Lend = D.Label(), D.Label()
        if shape == "if":
            s.ins("const/16", 0, 1000)
            emit_if(s, op, R.a, R.b, Lend)
            _then(s, R)
            s.label(Lend)
            s.ins("return", 0)
        elif shape == "ifelse":            # javac layout: then; goto end; else; end
            emit_if(s, op, R.a, R.b, Lelse)
            _then(s, R)
            s.ins("goto", Lend)
            s.label(Lelse)
            _else(s, R)
            s.label(Lend)
            s.ins("return", 0)
        elif shape == "ifelse.dx":         # dx layout: then; end: return; else; goto end
            emit_if(s, op, R.a, R.b, Lelse)
            _then(s, R)
            s.label(Lend)
            s.ins("return", 0)
            s.label(Lelse)
            _else(s, R)
            s.ins("goto", Lend)
        elif shape == "ifelse.ret":        # two returns
            emit_if(s, op, R.a, R.b, Lelse)
            _then(s, R)
            s.ins("return", 0)
            s.label(Lelse)
            _else(s, R)
            s.ins("return", 0)
        elif shape == "ifret":             # if (c) return x; return y  with constants
            emit_if(s, op, R.a, R.b, Lelse)
            s.ins("const/4", 0, 1)
            s.ins("return", 0)
            s.label(Lelse)
            s.ins("const/4", 0, 0)
            s.ins("return", 0)
        else:
            raise AssertionError(shape)
    return body


def sk_iflong(opz, shape):
    # long max/min like: cmp-long + if-<op>z ; locals v0..v3 (v0 = cmp result, v2/v3 = long result)
    def body(s, R):
        Lelse, Lend = D.Label(), D.Label()
        s.ins("cmp-long", 0, R.a, R.b)
        s.ins("if-" + opz, 0, Lelse)
        if shape == "ret":
            s.ins("return-wide", R.a)
            s.label(Lelse)
            s.ins("return-wide", R.b)
        else:
            s.ins("move-wide", 2, R.a)
            s.ins("goto", Lend)
            s.label(Lelse)
            s.ins("move-wide", 2, R.b)
            s.label(Lend)
            s.ins("return-wide", 2)
    return body


def sk_sc(ops, targets, has_else):
    """Short-circuit: condition i jumps (when its if-op holds) to targets[i] in {'T','E','N'}; N = next-but-one condition
    (only for the first of three).  The last condition always targets E.  Fall through of the last condition = then."""
    n = len(ops)

    def body(s, R):
        Lthen, Lelse, Lend = D.Label(), D.Label(), D.Label()
        Lc = [D.Label() for _ in range(n)]
        s.ins("const/4", 1, 1)
        s.ins("add-int", 3, R.a, R.b)
        if n == 3:
            s.ins("const/16", 2, 32)
        if not has_else:
            s.ins("const/16", 0, 1000)
        operands = [(R.a, R.b), (R.b, 1), (3, 2)]
        for i in range(n):
            s.label(Lc[i])
            tgt = {"T": Lthen, "E": Lelse if has_else else Lend, "N": Lc[2] if n == 3 else None}[targets[i]]
            emit_if(s, ops[i], operands[i][0], operands[i][1], tgt)
        s.label(Lthen)
        _then(s, R)
        if has_else:
            s.ins("goto", Lend)
            s.label(Lelse)
            _else(s, R)
        s.label(Lend)
        s.ins("return", 0)
    return body


SC2_SHAPES = ["T", "E"]                                   # target of the first condition
SC3_SHAPES = ["TT", "TE", "ET", "EE", "NT", "NE"]         # targets of the first two conditions


# loops: locals v0 = r (accumulator), v1 = counter / i, v2 = n / zero, v3 = tmp
def _loop_step(s, cnt):
    s.ins("mul-int/lit8", 0, 0, 3)
    s.ins("add-int", 0, 0, cnt)


# exit-condition variants for top-tested loops:  (id, init(s,R), exit-if (op, x, y), step)
def _while_variants():
    V = []
    for op in ("lez", "eqz", "ltz"):      # n = a&7, counts down
        V.append(("dz." + op, "and7", op, (1, None), -1))
    for op in ("gez", "eqz", "gtz"):      # n = -(a&7), counts up
        V.append(("uz." + op, "neg7", op, (1, None), 1))
    for op, xy in (("ge", (1, 2)), ("eq", (1, 2)), ("gt", (1, 2)), ("le", (2, 1)), ("lt", (2, 1))):
        V.append(("up." + op, "i0n7", op, xy, 1))      # i = 0 .. n
    for op, xy in (("le", (1, 2)), ("lt", (1, 2)), ("eq", (1, 2)), ("ge", (2, 1)), ("gt", (2, 1)), ("ne", None)):
        if xy is None:
            continue
        V.append(("down." + op, "i7z0", op, xy, -1))   # i = n .. 0, zero in v2
    return V


def _do_variants():
    V = []
    for op in ("gtz", "nez", "gez"):      # n = (a&7)+1, counts down; continue while ...
        V.append(("dz." + op, "and7p1", op, (1, None), -1))
    for op in ("ltz", "nez", "lez"):
        V.append(("uz." + op, "neg7p1", op, (1, None), 1))
    for op, xy in (("lt", (1, 2)), ("ne", (1, 2)), ("le", (1, 2)), ("gt", (2, 1)), ("ge", (2, 1))):
        V.append(("up." + op, "i0n7p1", op, xy, 1))
    for op, xy in (("gt", (1, 2)), ("ge", (1, 2)), ("ne", (1, 2)), ("lt", (2, 1)), ("le", (2, 1))):
        V.append(("down." + op, "i7p1z0", op, xy, -1))
    return V


def _loop_init(s, R, kind):
    s.ins("move", 0, R.b)
    if kind in ("and7", "neg7", "and7p1", "neg7p1"):
        s.ins("and-int/lit8", 1, R.a, 7)
        if kind.endswith("p1"):
            s.ins("add-int/lit8", 1, 1, 1)
        if kind.startswith("neg"):
            s.ins("neg-int", 1, 1)
    elif kind in ("i0n7", "i0n7p1"):
        s.ins("const/4", 1, 0)
        s.ins("and-int/lit8", 2, R.a, 7)
        if kind.endswith("p1"):
            s.ins("add-int/lit8", 2, 2, 1)
    elif kind in ("i7z0", "i7p1z0"):
        s.ins("and-int/lit8", 1, R.a, 7)
        if "p1" in kind:
            s.ins("add-int/lit8", 1, 1, 1)
        s.ins("const/4", 2, 0)
    else:
        raise AssertionError(kind)


def sk_while(v):
    _, init, op, xy, step = v

    def body(s, R):
        Ltop, Lexit = D.Label(), D.Label()
        _loop_init(s, R, init)
        s.label(Ltop)
        emit_if(s, op, xy[0], xy[1], Lexit)
        _loop_step(s, 1)
        s.ins("add-int/lit8", 1, 1, step)
        s.ins("goto", Ltop)
        s.label(Lexit)
        s.ins("return", 0)
    return body


def sk_dowhile(v):
    _, init, op, xy, step = v

    def body(s, R):
        Ltop = D.Label()
        _loop_init(s, R, init)
        s.label(Ltop)
        _loop_step(s, 1)
        s.ins("add-int/lit8", 1, 1, step)
        emit_if(s, op, xy[0], xy[1], Ltop)
        s.ins("return", 0)
    return body


def sk_for_mul(op, xy):
    # for (i = 0; i < n; i++) r += i * b      (tmp v3)
    def body(s, R):
        Ltop, Lexit = D.Label(), D.Label()
        s.ins("const/4", 0, 0)
        s.ins("const/4", 1, 0)
        s.ins("and-int/lit8", 2, R.a, 7)
        s.label(Ltop)
        emit_if(s, op, xy[0], xy[1], Lexit)
        s.ins("mul-int", 3, 1, R.b)
        s.ins("add-int/2addr", 0, 3)
        s.ins("add-int/lit8", 1, 1, 1)
        s.ins("goto", Ltop)
        s.label(Lexit)
        s.ins("return", 0)
    return body


def sk_nested(op_o, op_i, inner):
    # for (i<n) for (j<m) r = r*31 + i*4 + j ; n = a&3, m = b&3 ; locals v0 r, v1 i, v2 n, v3 j, v4 m, v5 tmp
    def body(s, R):
        Lo, Lox, Li, Lix = D.Label(), D.Label(), D.Label(), D.Label()
        s.ins("const/4", 0, 1)
        s.ins("and-int/lit8", 2, R.a, 3)
        s.ins("and-int/lit8", 4, R.b, 3)
        if inner == "do":
            s.ins("add-int/lit8", 4, 4, 1)
        s.ins("const/4", 1, 0)
        s.label(Lo)
        emit_if(s, op_o, 1, 2, Lox)
        s.ins("const/4", 3, 0)
        if inner == "while":
            s.label(Li)
            emit_if(s, op_i, 3, 4, Lix)
            s.ins("mul-int/lit8", 0, 0, 31)
            s.ins("shl-int/lit8", 5, 1, 2)
            s.ins("add-int/2addr", 0, 5)
            s.ins("add-int/2addr", 0, 3)
            s.ins("add-int/lit8", 3, 3, 1)
            s.ins("goto", Li)
            s.label(Lix)
        else:                                  # inner do-while, m = (b&3)+1: continue while j <op_i> m
            s.label(Li)
            s.ins("mul-int/lit8", 0, 0, 31)
            s.ins("shl-int/lit8", 5, 1, 2)
            s.ins("add-int/2addr", 0, 5)
            s.ins("add-int/2addr", 0, 3)
            s.ins("add-int/lit8", 3, 3, 1)
            emit_if(s, op_i, 3, 4, Li)
        s.ins("add-int/lit8", 1, 1, 1)
        s.ins("goto", Lo)
        s.label(Lox)
        s.ins("return", 0)
    return body


def sk_break(op, how):
    # for (i=0; i<n; i++) { if (r <op> b) break|return; r = r*3+i; }
    def body(s, R):
        Ltop, Lexit, Lret = D.Label(), D.Label(), D.Label()
        s.ins("move", 0, R.a)
        s.ins("const/4", 1, 0)
        s.ins("and-int/lit8", 2, R.b, 7)
        s.label(Ltop)
        s.ins("if-ge", 1, 2, Lexit)
        emit_if(s, op, 0, R.b, Lexit if how == "break" else Lret)
        _loop_step(s, 1)
        s.ins("add-int/lit8", 1, 1, 1)
        s.ins("goto", Ltop)
        s.label(Lexit)
        s.ins("return", 0)
        if how == "return":
            s.label(Lret)
            s.ins("add-int/lit16", 0, 0, 1000)
            s.ins("return", 0)
    return body


def sk_forever(op, xy):
    # for (i = 0; ; i++) { if (i >= n) return r; r = r*3 + i; }    (while(true) with the only exit a return)
    def body(s, R):
        Ltop, Lret = D.Label(), D.Label()
        s.ins("move", 0, R.b)
        s.ins("const/4", 1, 0)
        s.ins("and-int/lit8", 2, R.a, 7)
        s.label(Ltop)
        emit_if(s, op, xy[0], xy[1], Lret)
        _loop_step(s, 1)
        s.ins("add-int/lit8", 1, 1, 1)
        s.ins("goto", Ltop)
        s.label(Lret)
        s.ins("return", 0)
    return body


def sk_continue(op):
    # for (i=0;i<n;i++) { t = i & 1; if (t <op> [one]) continue; r += i*b }
    def body(s, R):
        Ltop, Lexit, Linc = D.Label(), D.Label(), D.Label()
        s.ins("const/4", 0, 0)
        s.ins("const/4", 1, 0)
        s.ins("and-int/lit8", 2, R.a, 7)
        s.ins("const/4", 4, 1)
        s.label(Ltop)
        s.ins("if-ge", 1, 2, Lexit)
        s.ins("and-int/lit8", 3, 1, 1)
        emit_if(s, op, 3, 4, Linc)
        s.ins("mul-int", 3, 1, R.b)
        s.ins("add-int/2addr", 0, 3)
        s.label(Linc)
        s.ins("add-int/lit8", 1, 1, 1)
        s.ins("goto", Ltop)
        s.label(Lexit)
        s.ins("return", 0)
    return body


def sk_ifinloop(op, with_else):
    # for (i<n) { if (i <op> b [|z]) r += i; else r ^= b; }
    def body(s, R):
        Ltop, Lexit, Lelse, Linc = D.Label(), D.Label(), D.Label(), D.Label()
        s.ins("const/16", 0, 77)
        s.ins("const/4", 1, 0)
        s.ins("and-int/lit8", 2, R.a, 7)
        s.label(Ltop)
        s.ins("if-ge", 1, 2, Lexit)
        if op.endswith("z"):
            s.ins("add-int/lit8", 3, 1, -2)
            emit_if(s, op, 3, None, Lelse if with_else else Linc)
        else:
            emit_if(s, op, 1, R.b, Lelse if with_else else Linc)
        s.ins("add-int/2addr", 0, 1)
        if with_else:
            s.ins("goto", Linc)
            s.label(Lelse)
            s.ins("xor-int/2addr", 0, R.b)
        s.label(Linc)
        s.ins("add-int/lit8", 1, 1, 1)
        s.ins("goto", Ltop)
        s.label(Lexit)
        s.ins("return", 0)
    return body


def sk_whilecc(op2, conj):
    # while (n > 0 && r <!op2> b) / while (n > 0 || ...) { r = r*3+n; n-- }     n = a & 7
    def body(s, R):
        Ltop, Lexit, Lbody = D.Label(), D.Label(), D.Label()
        s.ins("const/4", 0, 1)
        s.ins("and-int/lit8", 1, R.a, 7)
        s.label(Ltop)
        if conj == "and":
            s.ins("if-lez", 1, Lexit)
            emit_if(s, op2, 0, R.b, Lexit)
        else:
            # while (n > 3 || (n > 0 && cond)) is too rich; use: while (n > 4 || [n>0 guard inside op]) -> keep it
            # terminating: first test n > 4 -> body ; then n <= 0 -> exit ; then op2 -> exit
            s.ins("const/4", 2, 4)
            s.ins("if-gt", 1, 2, Lbody)
            s.ins("if-lez", 1, Lexit)
            emit_if(s, op2, 0, R.b, Lexit)
        s.label(Lbody)
        _loop_step(s, 1)
        s.ins("add-int/lit8", 1, 1, -1)
        s.ins("goto", Ltop)
        s.label(Lexit)
        s.ins("return", 0)
    return body


def sk_loopif(op, order):
    def body(s, R):
        Ltop, Lexit, Lend = D.Label(), D.Label(), D.Label()
        if order == "loop-if":
            s.ins("move", 0, R.b)
            s.ins("and-int/lit8", 1, R.a, 7)
            s.label(Ltop)
            s.ins("if-lez", 1, Lexit)
            _loop_step(s, 1)
            s.ins("add-int/lit8", 1, 1, -1)
            s.ins("goto", Ltop)
            s.label(Lexit)
            emit_if(s, op, 0, R.a, Lend)
            s.ins("add-int/lit8", 0, 0, 9)
            s.label(Lend)
            s.ins("return", 0)
        else:                                   # if (c) { loop } else { r = b ^ 21 }
            Lelse = D.Label()
            emit_if(s, op, R.a, R.b, Lelse)
            s.ins("move", 0, R.b)
            s.ins("and-int/lit8", 1, R.a, 7)
            s.label(Ltop)
            s.ins("if-lez", 1, Lend)
            _loop_step(s, 1)
            s.ins("add-int/lit8", 1, 1, -1)
            s.ins("goto", Ltop)
            s.label(Lelse)
            _else(s, R)
            s.label(Lend)
            s.ins("return", 0)
    return body


def sk_whilelong(opz):
    # long n = a & 7; long r = b; while (n > 0) { r = r*3 + n; n--; } ; v0 cmp, v2 r, v4 n, v6 const
    exit_ops = {"lez": ("down", 0), "eqz": ("down", 0), "ltz": ("down", 0)}
    assert opz in exit_ops

    def body(s, R):
        Ltop, Lexit = D.Label(), D.Label()
        s.ins("move-wide", 2, R.b)
        s.ins("const-wide/16", 6, 7)
        s.ins("and-long", 4, R.a, 6)
        s.label(Ltop)
        s.ins("const-wide/16", 6, 0)
        s.ins("cmp-long", 0, 4, 6)
        s.ins("if-" + opz, 0, Lexit)
        s.ins("const-wide/16", 6, 3)
        s.ins("mul-long/2addr", 2, 6)
        s.ins("add-long/2addr", 2, 4)
        s.ins("const-wide/16", 6, 1)
        s.ins("sub-long/2addr", 4, 6)
        s.ins("goto", Ltop)
        s.label(Lexit)
        s.ins("return-wide", 2)
    return body


def sk_while_rot(v):
    # javac's rotated layout: init; goto cond; body: ...; cond: if (continue) goto body
    _, init, op, xy, step = v
    z = op.endswith("z")
    cont = NEG[op[:-1] if z else op] + ("z" if z else "")

    def body(s, R):
        Lbody, Lcond = D.Label(), D.Label()
        _loop_init(s, R, init)
        s.ins("goto", Lcond)
        s.label(Lbody)
        _loop_step(s, 1)
        s.ins("add-int/lit8", 1, 1, step)
        s.label(Lcond)
        emit_if(s, cont, xy[0], xy[1], Lbody)
        s.ins("return", 0)
    return body


def sk_divif(op, dop):
    # t = a / b; if (a <op> b) return 5; return t + 1;      (the quotient is not used on one path)
    def body(s, R):
        L = D.Label()
        s.ins(dop + "-int", 0, R.a, R.b)
        emit_if(s, op, R.a, R.b, L)
        s.ins("add-int/lit8", 0, 0, 1)
        s.ins("return", 0)
        s.label(L)
        s.ins("const/4", 1, 5)
        s.ins("return", 1)
    return body


def sk_divloop(dop, use):
    # t = b / a; n = a & 7; r = b; while (n > 0) { r = r*3 + t; n--; } return r      (loop may run zero times)
    def body(s, R):
        Ltop, Lexit = D.Label(), D.Label()
        s.ins(dop + "-int", 3, R.b, R.a)
        s.ins("move", 0, R.b)
        s.ins("and-int/lit8", 1, R.a, 7)
        s.label(Ltop)
        s.ins("if-lez", 1, Lexit)
        _loop_step(s, 3)
        s.ins("add-int/lit8", 1, 1, -1)
        s.ins("goto", Ltop)
        s.label(Lexit)
        if use == "after":
            s.ins("add-int/2addr", 0, 3)
        s.ins("return", 0)
    return body


def sk_nestedif(shape, ops):
    o1, o2 = ops

    def body(s, R):
        L1, L2, Lend = D.Label(), D.Label(), D.Label()
        s.ins("const/4", 1, 1)
        if shape == "ifif":            # if (c1) { if (c2) X else Y } else Z
            emit_if(s, o1, R.a, R.b, L1)
            emit_if(s, o2, R.b, 1, L2)
            _then(s, R)
            s.ins("goto", Lend)
            s.label(L2)
            _else(s, R)
            s.ins("goto", Lend)
            s.label(L1)
            s.ins("mul-int/lit8", 0, R.a, 11)
        else:                          # if (c1) X else if (c2) Y else Z
            emit_if(s, o1, R.a, R.b, L1)
            _then(s, R)
            s.ins("goto", Lend)
            s.label(L1)
            emit_if(s, o2, R.b, 1, L2)
            _else(s, R)
            s.ins("goto", Lend)
            s.label(L2)
            s.ins("mul-int/lit8", 0, R.a, 11)
        s.label(Lend)
        s.ins("return", 0)
    return body


def sk_midbreak(op, xy):
    # for (;;) { r = r*3 + i; if (i <op> n) break; i++; r ^= a; }
    def body(s, R):
        Ltop, Lexit = D.Label(), D.Label()
        s.ins("move", 0, R.b)
        s.ins("const/4", 1, 0)
        s.ins("and-int/lit8", 2, R.a, 7)
        s.label(Ltop)
        _loop_step(s, 1)
        emit_if(s, op, xy[0], xy[1], Lexit)
        s.ins("add-int/lit8", 1, 1, 1)
        s.ins("xor-int/2addr", 0, R.a)
        s.ins("goto", Ltop)
        s.label(Lexit)
        s.ins("return", 0)
    return body


def sk_do_bodyvar(op, use_after):
    # n = (a & 7) + 1; r = b; do { n--; t = n * 2; r = r*3 + t; } while (t <op> 0); return r [+ t]
    # t is defined only inside the body and is used by the loop condition (and after the loop)
    def body(s, R):
        Ltop = D.Label()
        s.ins("move", 0, R.b)
        s.ins("and-int/lit8", 1, R.a, 7)
        s.ins("add-int/lit8", 1, 1, 1)
        s.label(Ltop)
        s.ins("add-int/lit8", 1, 1, -1)
        s.ins("mul-int/lit8", 2, 1, 2)
        _loop_step(s, 2)
        emit_if(s, op, 2, None, Ltop)
        if use_after:
            s.ins("add-int/2addr", 0, 2)
            s.ins("add-int/2addr", 0, 1)
        s.ins("return", 0)
    return body


def sk_fib(layout):
    # x = a; y = b; n = a & 7; while (n > 0) { t = x + y; x = y; y = t; n--; } return x     (simultaneous update)
    def body(s, R):
        Ltop, Lexit, Lcond = D.Label(), D.Label(), D.Label()
        s.ins("move", 0, R.a)
        s.ins("move", 1, R.b)
        s.ins("and-int/lit8", 2, R.a, 7)
        if layout == "top":
            s.label(Ltop)
            s.ins("if-lez", 2, Lexit)
            s.ins("add-int", 3, 0, 1)
            s.ins("move", 0, 1)
            s.ins("move", 1, 3)
            s.ins("add-int/lit8", 2, 2, -1)
            s.ins("goto", Ltop)
            s.label(Lexit)
        else:
            s.ins("goto", Lcond)
            s.label(Ltop)
            s.ins("add-int", 3, 0, 1)
            s.ins("move", 0, 1)
            s.ins("move", 1, 3)
            s.ins("add-int/lit8", 2, 2, -1)
            s.label(Lcond)
            s.ins("if-gtz", 2, Ltop)
        s.ins("return", 0)
    return body


def sk_switch_inloop(kind):
    # for (i = 0; i < n; i++) switch (i & 3) { case 0: r += 10; break; case 1: r += 20; break; default: r += 500; }
    def body(s, R):
        Ltop, Lexit, Linc, Lsw, Lpay, L0, L1 = (D.Label() for _ in range(7))
        s.ins("move", 0, R.b)
        s.ins("const/4", 1, 0)
        s.ins("and-int/lit8", 2, R.a, 7)
        s.label(Ltop)
        s.ins("if-ge", 1, 2, Lexit)
        s.ins("and-int/lit8", 3, 1, 3)
        s.label(Lsw)
        s.ins(kind + "-switch", 3, Lpay)
        s.ins("add-int/lit16", 0, 0, 500)
        s.label(Linc)
        s.ins("add-int/lit8", 1, 1, 1)
        s.ins("goto", Ltop)
        s.label(L0)
        s.ins("add-int/lit8", 0, 0, 10)
        s.ins("goto", Linc)
        s.label(L1)
        s.ins("add-int/lit8", 0, 0, 20)
        s.ins("goto", Linc)
        s.label(Lexit)
        s.ins("return", 0)
        s.align4()
        s.label(Lpay)
        if kind == "packed":
            s.packed(Lsw, 0, [L0, L1])
        else:
            s.sparse(Lsw, [0, 1], [L0, L1])
    return body


def sk_sc2long(ops, t1, has_else):
    # if (a <c1> b  &&/||  a <c2> 0L) X else Y   on longs: cmp-long + if-*z pairs; v0 cmp, v2 result, v4 zero
    def body(s, R):
        Lthen, Lelse, Lend = D.Label(), D.Label(), D.Label()
        s.ins("const-wide/16", 4, 0)
        if not has_else:
            s.ins("const-wide/16", 2, 1000)
        s.ins("cmp-long", 0, R.a, R.b)
        s.ins("if-" + ops[0], 0, Lthen if t1 == "T" else (Lelse if has_else else Lend))
        s.ins("cmp-long", 0, R.a, 4)
        s.ins("if-" + ops[1], 0, Lelse if has_else else Lend)
        s.label(Lthen)
        s.ins("add-long", 2, R.a, R.b)
        if has_else:
            s.ins("goto", Lend)
            s.label(Lelse)
            s.ins("xor-long", 2, R.a, R.b)
        s.label(Lend)
        s.ins("return-wide", 2)
    return body


# in-place updates  x = x <op> c  (destination == first operand: the writer uses the compound / increment form)
INPLACE_C = [0, 1, -1, 2, -2, 127, -128, 32767, -32768]


def _inplace_programs(thorough):
    """key = C:inplace.<type>:<op> ; pid C:inplace.<type>:<op>:<encoding>:<layout>:<c>"""
    P = []
    for ty in ("int", "long"):
        wide = ty == "long"
        T = "J" if wide else "I"
        if wide:
            consts = INPLACE_C + [MAXI, MINI, MAXL, MINL, MINL + 1]
            r, K, n, nloc = 0, 2, 4, 5
        else:
            consts = INPLACE_C + [MAXI, MINI, MINI + 1]
            r, K, n, nloc = 0, 2, 1, 3
        cw = "const-wide" if wide else "const"
        mv = "move-wide" if wide else "move"
        rt = ret_ins(T)
        # (op, encoding, constants)
        forms = []
        for op in ("add", "sub"):
            forms.append((op, "2addr", consts))
            forms.append((op, "23x", consts))
        if not wide:
            forms.append(("add", "lit8", [c for c in consts if -128 <= c <= 127]))
            forms.append(("add", "lit16", [c for c in consts if -32768 <= c <= 32767]))
            forms.append(("rsub", "lit8", [c for c in consts if -128 <= c <= 127]))
            forms.append(("rsub", "lit16", [c for c in consts if -32768 <= c <= 32767]))
        few = [-1, 127, MINL if wide else MINI]
        for op in ("mul", "and", "or", "xor", "shl"):
            if wide and op == "shl":
                continue
            forms.append((op, "2addr", consts if thorough else few))
        layouts = ("while", "dowhile", "param", "twice") if thorough else ("while", "param")
        for op, enc2, cs in forms:
            for layout in layouts:
                for c in cs:
                    def body(s, R, op=op, enc2=enc2, layout=layout, c=c, wide=wide, ty=ty):
                        def upd(x):
                            if enc2 == "2addr":
                                s.ins("%s-%s/2addr" % (op, ty), x, K)
                            elif enc2 == "23x":
                                s.ins("%s-%s" % (op, ty), x, x, K)
                            elif op == "rsub":
                                s.ins("rsub-int" if enc2 == "lit16" else "rsub-int/lit8", x, x, c)
                            else:
                                s.ins("%s-int/%s" % (op, enc2), x, x, c)
                        needk = enc2 in ("2addr", "23x")
                        if layout == "param":
                            if needk:
                                s.ins(cw, K, c)
                            upd(R.a)
                            s.ins(rt, R.a)
                            return
                        s.ins(mv, r, R.b)
                        if needk:
                            s.ins(cw, K, c)
                        if layout == "twice":
                            upd(r)
                            upd(r)
                            s.ins(rt, r)
                            return
                        if wide:
                            s.ins("long-to-int", n, R.a)
                            s.ins("and-int/lit8", n, n, 7)
                        else:
                            s.ins("and-int/lit8", n, R.a, 7)
                        Ltop, Lexit = D.Label(), D.Label()
                        if layout == "while":
                            s.label(Ltop)
                            s.ins("if-lez", n, Lexit)
                            upd(r)
                            s.ins("add-int/lit8", n, n, -1)
                            s.ins("goto", Ltop)
                            s.label(Lexit)
                        else:
                            s.label(Ltop)
                            upd(r)
                            s.ins("add-int/lit8", n, n, -1)
                            s.ins("if-gtz", n, Ltop)
                        s.ins(rt, r)
                    P.append(Prog("C:inplace.%s:%s:%s:%s:%d" % (ty, op, enc2, layout, c), "C:inplace.%s:%s" % (ty, op),
                                  T + T, T, nloc, body))
    return P


def _loop_param_programs(thorough):
    """A PARAMETER register is overwritten inside a loop body from another variable / parameter and read after the loop
    (twice: `return p + p`) and / or in the loop condition.  key = C:loop-param-assign.<type>:<shape>"""
    P = []
    for ty in ("int", "long"):
        wide = ty == "long"
        T = "J" if wide else "I"
        mv = "move-wide" if wide else "move"
        rt = ret_ins(T)
        w = 2 if wide else 1
        t0, t1, n = 0, w, 2 * w            # two temporaries of the type, an int counter
        nloc = 2 * w + 1

        def op(name):
            return "%s-%s" % (name, ty)

        def counter(s, R):
            if wide:
                s.ins("long-to-int", n, R.a)
                s.ins("and-int/lit8", n, n, 7)
            else:
                s.ins("and-int/lit8", n, R.a, 7)

        def loop(s, layout, bodyf):
            Ltop, Lexit = D.Label(), D.Label()
            if layout == "while":
                s.label(Ltop)
                s.ins("if-lez", n, Lexit)
                bodyf()
                s.ins("add-int/lit8", n, n, -1)
                s.ins("goto", Ltop)
                s.label(Lexit)
            else:
                s.ins("add-int/lit8", n, n, 1)
                s.label(Ltop)
                bodyf()
                s.ins("add-int/lit8", n, n, -1)
                s.ins("if-gtz", n, Ltop)

        shapes = {}
        # b = b + a in the loop; return b + b
        shapes["add-other-param"] = lambda s, R: [s.ins(op("add"), R.b, R.b, R.a)]
        shapes["add-other-param/2addr"] = lambda s, R: [s.ins(op("add") + "/2addr", R.b, R.a)]
        # t = b * 3 + a ; b = t          (assigned from a temporary by move)
        shapes["move-from-temp"] = lambda s, R: [s.ins(op("add"), t0, R.b, R.b), s.ins(op("xor"), t0, t0, R.a), s.ins(mv, R.b, t0)]
        # b = a (copy of the other parameter), a = a + b   (both parameters rewritten)
        shapes["copy-and-add"] = lambda s, R: [s.ins(mv, t0, R.b), s.ins(mv, R.b, R.a), s.ins(op("add"), R.a, R.a, t0)]
        # swap through a temporary
        shapes["swap"] = lambda s, R: [s.ins(mv, t0, R.a), s.ins(mv, R.a, R.b), s.ins(mv, R.b, t0)]
        # b = b - a ; a = a ^ b
        shapes["two-params"] = lambda s, R: [s.ins(op("sub"), R.b, R.b, R.a), s.ins(op("xor"), R.a, R.a, R.b)]
        for shape, bf in shapes.items():
            for layout in ("while", "dowhile"):
                for ret in ("b+b", "a-b"):
                    def body(s, R, bf=bf, layout=layout, ret=ret):
                        counter(s, R)
                        loop(s, layout, lambda: bf(s, R))
                        if ret == "b+b":
                            s.ins(op("add"), t0, R.b, R.b)
                        else:
                            s.ins(op("sub"), t0, R.a, R.b)
                        s.ins(rt, t0)
                    P.append(Prog("C:loop-param-assign.%s:%s:%s:%s" % (ty, shape, layout, ret),
                                  "C:loop-param-assign.%s:%s" % (ty, shape), T + T, T, nloc, body))
        if not wide:
            # the parameter itself is the loop counter and is tested by the loop condition
            def cond_param(s, R, layout):
                Ltop, Lexit = D.Label(), D.Label()
                s.ins("and-int/lit8", R.a, R.a, 7)
                if layout == "while":
                    s.label(Ltop)
                    s.ins("if-lez", R.a, Lexit)
                    s.ins("add-int", R.b, R.b, R.a)
                    s.ins("add-int/lit8", R.a, R.a, -1)
                    s.ins("goto", Ltop)
                    s.label(Lexit)
                else:
                    s.label(Ltop)
                    s.ins("add-int", R.b, R.b, R.a)
                    s.ins("add-int/lit8", R.a, R.a, -1)
                    s.ins("if-gtz", R.a, Ltop)
                s.ins("add-int", 0, R.b, R.b)
                s.ins("add-int", 0, 0, R.a)
                s.ins("return", 0)
            for layout in ("while", "dowhile"):
                P.append(Prog("C:loop-param-assign.int:param-in-condition:%s" % layout,
                              "C:loop-param-assign.int:param-in-condition", "II", "I", nloc,
                              lambda s, R, layout=layout: cond_param(s, R, layout)))

            # while (a != b) { if (a > b) a = a - b' ... }  bounded: a = (a & 7) + 1, b = (b & 7) + 1 ; gcd by subtraction
            def gcd(s, R):
                Ltop, Lexit, Lelse = D.Label(), D.Label(), D.Label()
                s.ins("and-int/lit8", R.a, R.a, 7)
                s.ins("add-int/lit8", R.a, R.a, 1)
                s.ins("and-int/lit8", R.b, R.b, 7)
                s.ins("add-int/lit8", R.b, R.b, 1)
                s.label(Ltop)
                s.ins("if-eq", R.a, R.b, Lexit)
                s.ins("if-le", R.a, R.b, Lelse)
                s.ins("sub-int/2addr", R.a, R.b)
                s.ins("goto", Ltop)
                s.label(Lelse)
                s.ins("sub-int/2addr", R.b, R.a)
                s.ins("goto", Ltop)
                s.label(Lexit)
                s.ins("add-int", 0, R.a, R.a)
                s.ins("return", 0)
            P.append(Prog("C:loop-param-assign.int:gcd", "C:loop-param-assign.int:gcd", "II", "I", nloc, gcd))
    return P


# switches: v0 = r, v1 = key
SW_KEYS = {"a": None, "and3": ("and-int/lit8", 3), "sub30": ("add-int/lit8", -30), "rem5": ("rem-int/lit8", 5)}


def sk_switch(kind, keys, targets_of, falls, has_default, layout, keyexpr, ret_cases=False, case_if=None):
    """kind packed|sparse; keys: list of case keys (packed: consecutive; a None target = gap -> default);
    targets_of[i] = body index of key i (allows shared bodies) ; falls = set of body indices that fall through into
    the next body; layout 'javac' (bodies in order, default last, `goto default` after the switch) or 'dx' (default
    body right after the switch)."""
    nb = max(t for t in targets_of if t is not None) + 1

    def body(s, R):
        Lsw, Lpay, Ldef, Lend = D.Label(), D.Label(), D.Label(), D.Label()
        Lb = [D.Label() for _ in range(nb)]
        s.ins("move", 0, R.b)
        if SW_KEYS[keyexpr] is None:
            s.ins("move", 1, R.a)
        else:
            s.ins(SW_KEYS[keyexpr][0], 1, R.a, SW_KEYS[keyexpr][1])
        s.label(Lsw)
        s.ins(kind + "-switch", 1, Lpay)

        def default_body():
            if has_default:
                s.ins("add-int/lit16", 0, 0, 500)
                if ret_cases:
                    s.ins("return", 0)

        def bodies():
            for i in range(nb):
                s.label(Lb[i])
                s.ins("add-int/lit8", 0, 0, 10 * (i + 1))
                if case_if is not None and i == 1:
                    Lskip = D.Label()
                    emit_if(s, case_if, R.b, R.a, Lskip)
                    s.ins("xor-int/lit8", 0, 0, 85)
                    s.label(Lskip)
                if ret_cases:
                    if i not in falls:
                        s.ins("return", 0)
                elif i not in falls:
                    s.ins("goto", Lend)
        if layout == "dx":
            s.label(Ldef)
            default_body()
            if not ret_cases:
                s.ins("goto", Lend)
            elif not has_default:
                s.ins("return", 0)
            bodies()
            s.label(Lend)
            s.ins("return", 0)
        else:
            s.ins("goto", Ldef)
            bodies()
            s.label(Ldef)
            default_body()
            if not (ret_cases and has_default):
                s.label(Lend)
                s.ins("return", 0)
        s.align4()
        s.label(Lpay)
        tl = [Lb[t] if t is not None else Ldef for t in targets_of]
        if kind == "packed":
            s.packed(Lsw, keys[0], tl)
        else:
            s.sparse(Lsw, keys, tl)
    return body


def _switch_catalogue(thorough):
    """-> [(id, builder-args)]"""
    C = []
    shapes = [
        # id, kind, keys, targets_of, falls, default, ret_cases
        ("packed.3", "packed", [0, 1, 2], [0, 1, 2], set(), True, False),
        ("packed.3.nodefault", "packed", [0, 1, 2], [0, 1, 2], set(), False, False),
        ("packed.ft", "packed", [0, 1, 2], [0, 1, 2], {0}, True, False),
        ("packed.ftall", "packed", [0, 1, 2], [0, 1, 2], {0, 1}, True, False),
        ("packed.neg", "packed", [-1, 0, 1], [0, 1, 2], set(), True, False),
        ("packed.shared", "packed", [0, 1, 2], [0, 1, 0], set(), True, False),
        ("packed.gap", "packed", [0, 1, 2], [0, None, 1], set(), True, False),
        ("packed.ret", "packed", [0, 1, 2], [0, 1, 2], set(), True, True),
        ("packed.1", "packed", [1], [0], set(), True, False),
        ("packed.31", "packed", [31, 32, 33], [0, 1, 2], set(), True, False),
        ("sparse.3", "sparse", [-1, 31, 65535], [0, 1, 2], set(), True, False),
        ("sparse.minmax", "sparse", [MINI, 0, MAXI], [0, 1, 2], set(), True, False),
        ("sparse.nodefault", "sparse", [-2, 2, 255], [0, 1, 2], set(), False, False),
        ("sparse.ft", "sparse", [-1, 31, 65535], [0, 1, 2], {0}, True, False),
        ("sparse.ftall", "sparse", [-1, 31, 65535], [0, 1, 2], {0, 1}, True, False),
        ("sparse.shared", "sparse", [-32768, 1, 33], [0, 1, 0], set(), True, False),
        ("sparse.ret", "sparse", [-1, 31, 65535], [0, 1, 2], set(), True, True),
        ("sparse.1", "sparse", [32], [0], set(), True, False),
    ]
    for sid, kind, keys, tg, falls, dflt, retc in shapes:
        for layout in ("javac", "dx"):
            keyexprs = ["a"]
            if kind == "packed" and keys[0] in (0, -1, 1):
                keyexprs += ["and3"] + (["sub30", "rem5"] if thorough else [])
            for ke in keyexprs:
                C.append(("%s:%s:%s" % (sid, layout, ke), sid, (kind, keys, tg, falls, dflt, layout, ke, retc, None)))
    # an if inside a case body, over the comparison ops
    for op in IF12:
        for kind, keys in (("packed", [0, 1, 2]), ("sparse", [-1, 1, 31])):
            for layout in (("javac", "dx") if thorough else ("javac",)):
                C.append(("%s.caseif:%s:%s" % (kind, layout, op), kind + ".caseif",
                          (kind, keys, [0, 1, 2], set(), True, layout, "a", False, op)))
    return C


def tier_c(thorough):
    P = []

    def add(pid, skel, body, params="II", ret="I", nloc=4):
        P.append(Prog("C:" + pid, "C:" + skel, params, ret, nloc, body))

    for shape in ("if", "ifelse", "ifelse.dx", "ifelse.ret", "ifret"):
        for op in IF12:
            add("%s:%s" % (shape, op), shape, sk_if(op, shape))
    for shape in ("ret", "merge"):
        for op in IFZ:
            add("iflong.%s:%s" % (shape, op), "iflong." + shape, sk_iflong(op, shape), "JJ", "J", 4)
    # short circuits.  quick: a diagonal of op tuples (every op appears in every slot); thorough: full product
    if thorough:
        ops2 = list(itertools.product(IF12, repeat=2))
        ops3 = list(itertools.product(IF12, repeat=3))
    else:
        ops2 = [(IF12[i], IF12[(i * 5 + 7 + k) % 12]) for i in range(12) for k in range(3)]
        ops3 = [(IF12[i], IF12[(i * 5 + 7) % 12], IF12[(i * 7 + 2) % 12]) for i in range(12)]
    for t1 in SC2_SHAPES:
        for els in (False, True):
            for ops in ops2:
                sid = "sc2.%s.%s" % (t1, "else" if els else "noelse")
                add("%s:%s" % (sid, ",".join(ops)), sid, sk_sc(ops, t1 + "E", els))
    for t12 in SC3_SHAPES:
        for els in (False, True):
            for ops in ops3:
                sid = "sc3.%s.%s" % (t12, "else" if els else "noelse")
                add("%s:%s" % (sid, ",".join(ops)), sid, sk_sc(ops, t12 + "E", els))
    # loops
    for v in _while_variants():
        add("while:" + v[0], "while", sk_while(v))
    for v in _do_variants():
        add("dowhile:" + v[0], "dowhile", sk_dowhile(v))
    for op, xy in (("ge", (1, 2)), ("eq", (1, 2)), ("gt", (1, 2)), ("le", (2, 1)), ("lt", (2, 1)), ("eq", (2, 1))):
        add("for:%s.%d%d" % (op, xy[0], xy[1]), "for", sk_for_mul(op, xy))
        add("forever:%s.%d%d" % (op, xy[0], xy[1]), "forever", sk_forever(op, xy))
    for oo in ("ge", "eq", "gt"):
        for oi in ("ge", "eq", "gt"):
            add("nested.while:%s,%s" % (oo, oi), "nested.while", sk_nested(oo, oi, "while"), nloc=6)
        for oi in ("lt", "ne", "le"):
            add("nested.do:%s,%s" % (oo, oi), "nested.do", sk_nested(oo, oi, "do"), nloc=6)
    for op in IF12:
        add("break:" + op, "break", sk_break(op, "break"))
        add("loopreturn:" + op, "loopreturn", sk_break(op, "return"))
        add("continue:" + op, "continue", sk_continue(op), nloc=5)
        add("ifinloop:" + op, "ifinloop", sk_ifinloop(op, False))
        add("ifelseinloop:" + op, "ifelseinloop", sk_ifinloop(op, True))
        add("while.and:" + op, "while.and", sk_whilecc(op, "and"))
        add("while.or:" + op, "while.or", sk_whilecc(op, "or"))
        add("loop-if:" + op, "loop-if", sk_loopif(op, "loop-if"))
        add("if-loop:" + op, "if-loop", sk_loopif(op, "if-loop"))
    for op in ("lez", "eqz", "ltz"):
        add("whilelong:" + op, "whilelong", sk_whilelong(op), "JJ", "J", 8)
    for v in _while_variants():
        add("while.rot:" + v[0], "while.rot", sk_while_rot(v))
    for op in IF12:
        add("divif:div," + op, "divif", sk_divif(op, "div"))
        add("divif:rem," + op, "divif", sk_divif(op, "rem"))
    for dop in ("div", "rem"):
        for zop in IFZ:
            def deadif(s, R, dop=dop, zop=zop):
                L = D.Label()
                s.ins(dop + "-int", 0, R.a, R.b)
                s.ins("if-" + zop, 0, L)
                s.label(L)
                s.ins("return", R.a)
            add("deadif:%s,%s" % (dop, zop), "deadif", deadif)
    for dop in ("div", "rem"):
        for use in ("inside", "after"):
            add("divloop:%s,%s" % (dop, use), "divloop", sk_divloop(dop, use))
    nops = list(itertools.product(IF12, repeat=2)) if thorough else [(IF12[i], IF12[(i * 5 + 7) % 12]) for i in range(12)]
    for shape in ("ifif", "elseif"):
        for ops in nops:
            add("%s:%s" % (shape, ",".join(ops)), shape, sk_nestedif(shape, ops))
    for op, xy in (("ge", (1, 2)), ("eq", (1, 2)), ("gt", (1, 2)), ("le", (2, 1)), ("lt", (2, 1)), ("eq", (2, 1))):
        add("midbreak:%s.%d%d" % (op, xy[0], xy[1]), "midbreak", sk_midbreak(op, xy))
    for op in ("gtz", "nez"):
        add("dowhile.bodyvar:" + op, "dowhile.bodyvar", sk_do_bodyvar(op, False))
        add("dowhile.useafter:" + op, "dowhile.useafter", sk_do_bodyvar(op, True))
    add("fib:top", "fib", sk_fib("top"))
    add("fib:rot", "fib", sk_fib("rot"))
    add("switch.inloop:packed", "switch.inloop", sk_switch_inloop("packed"))
    add("switch.inloop:sparse", "switch.inloop", sk_switch_inloop("sparse"))
    lops = list(itertools.product(IFZ, repeat=2)) if thorough else [(IFZ[i], IFZ[(i * 5 + 1) % 6]) for i in range(6)]
    for t1 in SC2_SHAPES:
        for els in (False, True):
            for ops in lops:
                sid = "sc2long.%s.%s" % (t1, "else" if els else "noelse")
                add("%s:%s" % (sid, ",".join(ops)), sid, sk_sc2long(ops, t1, els), "JJ", "J", 6)
    P.extend(_inplace_programs(thorough))
    P.extend(_loop_param_programs(thorough))
    # switches
    for pid, sid, args in _switch_catalogue(thorough):
        add("switch." + pid, "switch." + sid, sk_switch(*args))
    return P


_CAT = {}


def catalogue(thorough):
    c = _CAT.get(thorough)
    if c is None:
        c = tier_a(thorough) + tier_b_special(thorough) + tier_b_kreuse(thorough) + tier_b(thorough) + tier_c(thorough)
        ids = set()
        for p in c:
            assert p.pid not in ids, p.pid
            ids.add(p.pid)
        _CAT[thorough] = c
    return c


# ======================================================================================== judging
JT = {"I": "int", "J": "long", "B": "byte", "S": "short", "C": "char", "s": "int"}
STEP_BUDGET = 5000
JAVA_TIMEOUT = 300          # hang guard only (a whole shard runs in well under a second)


def expected_line(p):
    m = interp.Machine(p.code, p.regs)
    out = []
    for args in p.tuples():
        kind, v = m.run(interp.place_args(p.regs, p.params, args), STEP_BUDGET)
        out.append(str(v) if kind == "ret" else v)
    return out


def build_dex(progs):
    ms = []
    for i, p in enumerate(progs):
        ms.append(G.Method("m%d" % i, p.ret, tuple(p.params), G.ACC_PUBLIC | G.ACC_STATIC,
                           G.Code(registers=p.regs, ins=p.ins, outs=0, insns=p.code)))
    return G.build(G.Dex([G.Class("LT;", dmethods=ms)]))


def decompile(progs):
    """-> list of (source or None, error or None) per program, in order"""
    from androguard.core.analysis.analysis import Analysis
    from androguard.core.dex import DEX
    from androguard.decompiler.decompile import DvMethod
    d = DEX(build_dex(progs))
    dx = Analysis(d)
    by_name = {}
    for c in d.get_classes():
        for m in c.get_methods():
            by_name[str(m.get_name())] = m
    res = []
    for i, p in enumerate(progs):
        try:
            dv = DvMethod(dx.get_method(by_name["m%d" % i]))
            dv.process()
            src = dv.get_source()
            if not src or not src.strip():
                res.append((None, "empty source"))
            else:
                # alternative entry point: the token stream of get_source_ext() must spell the same text
                ext = "".join(str(t[1]) for t in dv.get_source_ext())
                res.append((src, None if ext == src else ("EXT", ext)))
        except Exception as e:          # noqa: any exception of the decompiler on a well-formed method is a finding
            import traceback
            tb = traceback.extract_tb(e.__traceback__)
            where = "%s:%d" % (os.path.basename(tb[-1].filename), tb[-1].lineno) if tb else "?"
            res.append((None, "%s: %s (%s)" % (type(e).__name__, e, where)))
    return res


def _lit(v, T):
    if T in "BSC":
        return "(%s) %d" % (JT[T], v)
    return str(v) + ("L" if T == "J" else "")


def java_file(cls, progs, srcs, idxs):
    """-> (text, ranges) ; ranges[i] = (first_line, last_line) 1-based of method i's text"""
    lines = ["class %s {" % cls]
    for T in ("I", "J", "s", "B", "S", "C"):
        lines.append("static final %s[] A%s = {%s};" % (JT[T], T, ", ".join(_lit(v, T) for v in ALPHA[T])))
    ranges = {}
    for i in idxs:
        body = srcs[i].strip("\n").split("\n")
        ranges[i] = (len(lines) + 1, len(lines) + len(body))
        lines += body
    for i in idxs:
        p = progs[i]
        t0, t1 = JT[p.params[0]], JT[p.params[1]]
        lines.append("static void r%d(StringBuilder sb){ for(%s x: A%s) for(%s y: A%s){ try{ sb.append((long) m%d(x,y)); } "
                     "catch(Throwable t){ sb.append(t.getClass().getName()); } sb.append(' '); } }"
                     % (i, t0, p.alph[0], t1, p.alph[1], i))
    chunk = 400
    groups = [idxs[k:k + chunk] for k in range(0, len(idxs), chunk)]
    for g, ids in enumerate(groups):
        lines.append("static void g%d(StringBuilder sb){" % g)
        for i in ids:
            lines.append(" sb.setLength(0); sb.append(\"m%d \"); r%d(sb); System.out.println(sb); System.out.flush();" % (i, i))
        lines.append("}")
    lines.append("public static void main(String[] a){ StringBuilder sb = new StringBuilder();")
    for g in range(len(groups)):
        lines.append(" g%d(sb);" % g)
    lines.append("}")
    lines.append("}")
    return "\n".join(lines) + "\n", ranges


_ERR = re.compile(r"^(?:.*[/\\])?(\w+)\.java:(\d+): error: (.*)$")
_LOCAL_ERRORS = ("cannot find symbol", "variable ", "incompatible types", "missing return statement",
                 "unreachable statement", "bad operand type", "possible lossy conversion")
JAVAC = ["javac", "-J-XX:+UseSerialGC", "-J-XX:TieredStopAtLevel=1", "-J-Xshare:auto", "-proc:none", "-nowarn",
         "-g:none", "-Xmaxerrs", "1000000", "-encoding", "UTF-8"]
JAVA = ["java", "-XX:+UseSerialGC", "-XX:TieredStopAtLevel=1", "-Xshare:auto", "-Xss4m"]


def compile_and_run(work, cls, progs, srcs, acc):
    """-> (rejected {i: javac message}, outputs {i: [tokens]}, hung set)"""
    live = [i for i in range(len(progs)) if srcs[i] is not None]
    rejected = {}
    rounds = 0
    while live:
        rounds += 1
        text, ranges = java_file(cls, progs, srcs, live)
        path = os.path.join(work, cls + ".java")
        with open(path, "w") as f:
            f.write(text)
        r = subprocess.run(JAVAC + ["-d", work, path], capture_output=True, text=True)
        acc.count("javac_runs")
        if r.returncode == 0:
            break
        bad = {}
        unattributed = []
        for ln in r.stderr.splitlines():
            m = _ERR.match(ln)
            if not m:
                continue
            n = int(m.group(2))
            hit = None
            for i in live:
                lo, hi = ranges[i]
                if lo <= n <= hi:
                    hit = i
                    break
            if hit is None:
                unattributed.append(ln)
            else:
                bad.setdefault(hit, m.group(3))
        # Errors of javac's attribution phase are local to the method they are reported in.  Lexer/parser errors can
        # cascade into the following methods, so those methods are confirmed: one source file per method (errors are
        # then attributed by file name), all in a single javac run.
        unsure = [i for i in sorted(bad) if not bad[i].startswith(_LOCAL_ERRORS)]
        if unsure:
            sub = os.path.join(work, "confirm%d" % rounds)
            os.mkdir(sub)
            files = []
            for i in unsure:
                fn = os.path.join(sub, "%sx%d.java" % (cls, i))
                with open(fn, "w") as f:
                    f.write("class %sx%d {\n%s\n}\n" % (cls, i, srcs[i].strip("\n")))
                files.append(fn)
            rr = subprocess.run(JAVAC + ["-d", sub] + files, capture_output=True, text=True)
            acc.count("javac_runs")
            confirmed = {}
            for ln in rr.stderr.splitlines():
                m = _ERR.match(ln)
                if m and m.group(1).startswith(cls + "x"):
                    confirmed.setdefault(int(m.group(1)[len(cls) + 1:]), m.group(3))
            if rr.returncode != 0 and not confirmed:
                raise RuntimeError("javac confirmation run failed without attributable errors:\n" + rr.stderr[:3000])
            for i in unsure:
                if i in confirmed:
                    bad[i] = confirmed[i]
                else:
                    del bad[i]
        if not bad:
            # no error line falls inside a method (e.g. unbalanced braces reported at end of file): bisect
            def bisect(ids):
                t, _ = java_file(cls, progs, srcs, ids)
                with open(path, "w") as f:
                    f.write(t)
                rr = subprocess.run(JAVAC + ["-d", work, path], capture_output=True, text=True)
                acc.count("javac_runs")
                if rr.returncode == 0:
                    return {}
                if len(ids) == 1:
                    msgs = [m.group(3) for m in map(_ERR.match, rr.stderr.splitlines()) if m]
                    return {ids[0]: (msgs or ["rejected"])[0]}
                h = len(ids) // 2
                out = bisect(ids[:h])
                out.update(bisect(ids[h:]))
                return out
            bad = bisect(live)
            if not bad:
                raise RuntimeError("javac failed but no single method is rejected on its own:\n" + r.stderr[:3000])
        if rounds > 20:
            raise RuntimeError("javac attribution does not converge:\n" + r.stderr[:3000])
        rejected.update(bad)
        live = [i for i in live if i not in bad]
    outputs, hung = {}, set()
    while live:
        acc.count("java_runs")
        try:
            r = subprocess.run(JAVA + ["-cp", work, cls], capture_output=True, text=True, timeout=JAVA_TIMEOUT)
            out, timed_out = r.stdout, False
            if r.returncode != 0:
                raise RuntimeError("java failed: rc=%d\n%s" % (r.returncode, r.stderr[:3000]))
        except subprocess.TimeoutExpired as e:
            out = e.stdout.decode("utf-8", "replace") if isinstance(e.stdout, bytes) else (e.stdout or "")
            timed_out = True
        lines = out.split("\n")
        complete = lines[:-1]                     # a line is complete only if terminated by \n
        for ln in complete:
            name, _, rest = ln.partition(" ")
            outputs[int(name[1:])] = rest.split()
        if not timed_out:
            break
        # the first method without a complete line is the one that does not terminate
        rest = [i for i in live if i not in outputs]
        if not rest:
            break
        hung.add(rest[0])
        live = rest[1:]
        if live:
            text, ranges = java_file(cls, progs, srcs, live)
            with open(os.path.join(work, cls + ".java"), "w") as f:
                f.write(text)
            r = subprocess.run(JAVAC + ["-d", work, os.path.join(work, cls + ".java")], capture_output=True, text=True)
            acc.count("javac_runs")
            if r.returncode != 0:
                raise RuntimeError("recompile after hang failed:\n" + r.stderr[:3000])
    return rejected, outputs, hung


def _verdict(p, i, dec, srcs, rejected, outputs, hung, exp):
    """-> None (agrees) | (kind, detail text)"""
    if srcs[i] is None:
        return "decompile-exception", "  decompiler raised: " + dec[i][1]
    jtxt = "  java:\n    " + srcs[i].strip("\n").replace("\n", "\n    ") + "\n"
    if i in rejected:
        return "javac-reject", jtxt + "  javac: " + rejected[i]
    if i in hung:
        return "nontermination", jtxt + "  the compiled method does not terminate (bytecode terminates on every tuple)"
    got = outputs.get(i)
    if got is None or len(got) != len(exp):
        raise RuntimeError("driver output missing/short for %s: %r" % (p.pid, got))
    if got == exp:
        if dec[i][1] is not None:
            return "ext-text-differs", jtxt + "  get_source_ext() tokens spell a different text:\n    " + \
                dec[i][1][1].strip("\n").replace("\n", "\n    ")
        return None
    diffs = [(t, e, g) for t, e, g in zip(p.tuples(), exp, got) if e != g]
    vm = any("." not in e and "." not in g for _, e, g in diffs)          # a '.' only occurs in exception class names
    ex = any("." in e or "." in g for _, e, g in diffs)
    t, e, g = diffs[0]
    return ("value-mismatch" if vm else "exception-mismatch",
            jtxt + "  args=%r: bytecode -> %s, java -> %s   (%d of %d tuples differ%s)"
            % (tuple(t), e, g, len(diffs), len(exp), "; exception behaviour differs too" if ex and vm else ""))


def _decoy(n):
    """Decoy history: before a batch is judged, a DIFFERENT class with the same class name and the same method names
    (m0, m1, ...) but other bodies and signatures goes through the same API calls (DEX, Analysis, DvMethod.process,
    get_source, get_source_ext); results ignored.  State keyed by class / method name or index that survives from one
    decompilation to the next would then show up in the batch -- also in replay(), which runs this too."""
    cat = catalogue(False)
    k = max(1, min(n, 12))
    decompile([cat[(j * 211 + 977) % len(cat)] for j in range(k)])


def judge(progs, acc, tier, cls="T0", samples=0):
    """The one judging routine (shared by run_shard and replay).

    Tier B programs name the tier A single-operator programs they are built from (`bases`); those are compiled and run
    along with the batch, and a pair whose operator already disagrees on its own is counted as `subsumed_by_tier_A`
    instead of being reported again (one root cause -> one key)."""
    _decoy(len(progs))
    have = {p.pid for p in progs}
    need = []
    for p in progs:
        for b in p.bases:
            if b not in have:
                have.add(b)
                need.append(b)
    if need:
        by_pid = {p.pid: p for p in catalogue(False)}
        allp = list(progs) + [by_pid[b] for b in need]
    else:
        allp = list(progs)
    work = tempfile.mkdtemp(prefix="c21_")
    try:
        dec = decompile(allp)
        srcs = [s for s, _ in dec]
        rejected, outputs, hung = compile_and_run(work, cls, allp, srcs, acc)
        exps = [expected_line(p) for p in allp]
        verdicts = [_verdict(p, i, dec, srcs, rejected, outputs, hung, exps[i]) for i, p in enumerate(allp)]
        failing = {p.pid for p, v in zip(allp, verdicts) if v is not None}
        for i, p in enumerate(progs):
            exp, v = exps[i], verdicts[i]
            acc.count("programs")
            acc.count("programs_tier_" + p.pid[0])
            acc.case(nontrivial=p.pid, outcome=(tuple(exp[:40]), len(set(exp))))
            if v is None or v[0] in ("value-mismatch", "exception-mismatch", "ext-text-differs"):
                acc.count("disagreements_checked", len(exp))
            if samples and v is None and len(acc.samples) < samples:
                acc.sample({"program": p.pid, "bytecode": p.listing, "java": srcs[i].strip("\n").split("\n")})
            if v is None:
                continue
            sub = [b for b in p.bases if b in failing]
            if sub:
                acc.count("subsumed_by_tier_A")
                acc.note("tier B programs containing an operator whose own tier A program fails are not reported again "
                         "(counter subsumed_by_tier_A)")
                continue
            head = "%s\n  bytecode (%s)%s, registers=%d:\n    %s\n" % (
                p.pid, ",".join(JT[c] for c in p.params), JT[p.ret], p.regs, "\n    ".join(p.listing))
            acc.violation("%s:%s" % (p.key, v[0]), {"pid": p.pid, "tier": tier}, head + v[1])
    finally:
        shutil.rmtree(work, ignore_errors=True)


# ======================================================================================== runner interface
def shards(ctx):
    n = len(catalogue(ctx.thorough))
    k = 64 if ctx.thorough else 16
    size = (n + k - 1) // k
    return [(lo, min(lo + size, n)) for lo in range(0, n, size)]


def run_shard(ctx, shard):
    lo, hi = shard
    acc = Acc()
    progs = catalogue(ctx.thorough)[lo:hi]
    try:
        judge(progs, acc, ctx.tier, cls="T%d" % lo, samples=1)
    except (RuntimeError, interp.StepLimit, interp.Unsupported) as e:
        acc.harness_error("shard %r: %s: %s" % (shard, type(e).__name__, e))
    return acc


def replay(ctx, w):
    thorough = w.get("tier") == "thorough"
    ps = [p for p in catalogue(thorough) if p.pid == w["pid"]]
    if not ps and not thorough:
        ps = [p for p in catalogue(True) if p.pid == w["pid"]]
    if not ps:
        return "HARNESS: unknown program id %r" % w["pid"]
    acc = Acc()
    judge(ps, acc, w.get("tier", "quick"), cls="T0")
    if acc.viol:
        return "\n".join("%s: %s" % (k, v["msg"]) for k, v in acc.viol.items())
    return None


def finalize(ctx, acc):
    n = len(catalogue(ctx.thorough))
    if acc.extra.get("programs", 0) != n:
        acc.harness_error("judged %d programs, catalogue has %d" % (acc.extra.get("programs", 0), n))
    for t in "ABC":
        if not acc.extra.get("programs_tier_" + t):
            acc.harness_error("tier %s empty" % t)
    if len(acc.outcomes) < n // 10:      # many programs are deliberately equivalent (same constant, other encoding)
        acc.harness_error("only %d distinct reference behaviours for %d programs: space degenerated" % (len(acc.outcomes), n))
    if not acc.extra.get("disagreements_checked"):
        acc.harness_error("no tuple was compared (everything rejected?)")
