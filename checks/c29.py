"""C29  Resource resolution terminates on reference cycles  (engine E2 under the deterministic step budget).

Space: every functional graph on n = 1..5 resource ids -- each id either stores a concrete value or references any id
(itself included): (n+1)^n graphs, 8476 in total, i.e. every cycle of length 1..5 with every shape of tails hanging
off it, every acyclic chain and every mixture -- x entry kind {plain: Res_value TYPE_REFERENCE; complex-back-ref: a bag
whose items are a concrete string and the reference} x {1, 2} configurations.  One table per (graph, kind, configs);
every id of the table is queried with get_resolved_res_configs(id) under mc/budget.py.  (quick: two configurations for
n <= 4 only; thorough: everywhere.)

Oracle (exactly the statement): the call returns -- no exception (RecursionError included), budget not exceeded -- and
the set of concrete values in the result equals the set of concrete values stored by the resources reachable from the
id in the model (for a plain cycle: nothing; for bags on a cycle: their own concrete items).  Multiplicity, order and
the configuration labels are C28's subject and are not judged here.

Budget: BUDGET interpreter events (function entries + jumps + branches).  The longest acyclic chain of the space (5 bags,
2 configurations, 2^5 paths) is measured in finalize() and must stay below BUDGET / 50.
"""
from mc.core import Acc

PROPERTY = "C29"
LEVEL = "exploration"
RULE = ("all (n+1)^n functional graphs on n=1..5 resource ids x {plain reference entries, bags with a concrete item and a "
        "back reference} x {1,2} configurations; every id queried under an event budget; non-trivial = the queried id reaches "
        "a reference; distinct by construction (graph index, kind, configs, id)")
ASSUMPTIONS = [
    "gen/arscgen.py writes well-formed tables (validated against shipped tables, see C28)",
    "termination is decided by an interpreter-event budget (sys.monitoring), never by wall clock; the budget is >= 50x the "
    "cost of the longest acyclic chain in the space; during a query the recursion limit is 120 frames above the harness "
    "(>= 4x what the longest acyclic chain needs, checked in finalize)",
    "only the set of concrete values is judged (multiplicity / configuration labels belong to C28); APK.get_app_name / "
    "get_app_icon on top of the resolver are not driven here",
]
MANIFEST = {
    "engine": "E2-structures",
    "technique": "exhaustive enumeration of all functional reference graphs on <=5 ids, resolution under a deterministic event budget",
    "text": "Every way five resources can reference each other (all cycle lengths 1-5 with all tail shapes, 8476 graphs) is "
            "written as a real resources.arsc in two entry encodings and with one or two configurations; every id is resolved "
            "through ARSCParser.get_resolved_res_configs under an interpreter-event budget, and the returned concrete values "
            "are compared with graph reachability in the model. Complete for the bound, so termination on cycles is decided, "
            "not sampled.",
    "note": "Trusted: gen/arscgen.py, ref/resolver.py (reachability), mc/budget.py. Cycles longer than 5 and mixed plain/bag "
            "cycles are outside the bound.",
}

BUDGET = 400000
FRAMES = 120            # Python frames a query may stack on top of the harness (longest legal chain needs 24: measured, and re-checked in finalize with FRAMES // 4)
NSHARDS = 32
KINDS = ["plain", "complex-back-ref"]
MAXN = 5


def graphs():
    """yield (n, f): f[i] = -1 (concrete) or the id index i references; simplest first."""
    for n in range(1, MAXN + 1):
        f = [-1] * n
        while True:
            yield n, tuple(f)
            i = 0
            while i < n:
                f[i] += 1
                if f[i] < n:
                    break
                f[i] = -1
                i += 1
            if i == n:
                break


def build(n, f, kind, ncfg):
    from gen import arscgen as G
    cfgs = [G.Cfg(), G.Cfg(lang="en")][:ncfg]
    pid = 0x7F
    entries = []
    for i in range(n):
        vals = {}
        for ci, c in enumerate(cfgs):
            text = G.S("val%d%s" % (i, "-en" if ci else ""))
            if kind == "plain":
                vals[c] = G.Plain(text if f[i] < 0 else G.R((pid << 24) | 0x10000 | f[i]))
            else:
                items = [(0x02000000, text)]
                if f[i] >= 0:
                    items.append((0x02000001, G.R((pid << 24) | 0x10000 | f[i])))
                vals[c] = G.Complex(items)
        entries.append(G.Entry("res%d" % i, vals))
    tname = "string" if kind == "plain" else "array"
    return G.Table([G.Package(pid, "com.cyc", [G.Type(tname, entries)])])


def classify(n, f, node):
    """Input-side class of a query: the cycle the node runs into (length, tail length) or the acyclic chain length."""
    seen = {}
    cur, step = node, 0
    while cur >= 0 and cur not in seen:
        seen[cur] = step
        cur = f[cur]
        step += 1
    if cur < 0:
        hops = step - 1
        return "acyclic-len%s" % (hops if hops < 3 else "3+"), hops, 0
    clen = step - seen[cur]
    tail = seen[cur]
    return "cycle-len%s" % (clen if clen < 3 else "3+"), clen, tail


def _depth():
    import sys
    f, d = sys._getframe(), 0
    while f is not None:
        f, d = f.f_back, d + 1
    return d


def judge_query(a, ref, rid, budget=BUDGET, frames=FRAMES):
    """Returns (message or None, events, outcome tag).
    The interpreter's recursion limit is lowered to `frames` above the harness while the query runs: a resolver that
    recurses once per reference hop needs ~4 frames per hop (<= 5 hops here), so a legal resolution cannot notice, while a
    runaway recursion is cut after 120 instead of 1000 frames (unwinding 1000 frames ~60 000 times is what made this check
    take tens of minutes on a tree without cycle detection)."""
    import sys
    from mc.budget import run_with_budget
    from ref import resolver as RR
    old = sys.getrecursionlimit()
    sys.setrecursionlimit(_depth() + frames)
    try:
        status, val, events = run_with_budget(lambda: a.get_resolved_res_configs(rid), budget)
    finally:
        sys.setrecursionlimit(old)
    if status == "budget":
        return "get_resolved_res_configs(0x%08x) did not finish within %d interpreter events" % (rid, budget), events, "budget"
    if status == "exc":
        return "get_resolved_res_configs(0x%08x) raised %s: %s" % (rid, type(val).__name__, str(val)[:120]), events, "exc"
    got = {RR.canon_value(x) for x in RR.flat_values(val)}
    want = ref.reachable_values(rid)
    if got != want:
        return ("get_resolved_res_configs(0x%08x) returned the concrete values %r; reachable in the table: %r"
                % (rid, sorted(got), sorted(want))), events, "wrong"
    return None, events, "ok"


def check_table(acc, n, f, kind, ncfg, nodes=None):
    from androguard.core import axml
    from gen import arscgen as G
    from ref import resolver as RR
    table = build(n, f, kind, ncfg)
    data = G.serialise(table)
    ref = RR.RefResolver(table)
    msgs = []
    try:
        a = axml.ARSCParser(data)
        a._analyse()
    except Exception as e:      # noqa
        acc.harness_error("table %r does not parse: %s %s" % ((n, f, kind, ncfg), type(e).__name__, e))
        return msgs
    for node in (range(n) if nodes is None else nodes):
        rid = table.resid(0, 0, node)
        cls, clen, tail = classify(n, f, node)
        msg, events, tag = judge_query(a, ref, rid)
        nontrivial = f[node] >= 0
        acc.case(outcome=(tag, cls, len(ref.reachable_values(rid))))
        if nontrivial:
            acc.nt_disjoint += 1
        if cls.startswith("acyclic"):
            acc.count("acyclic_queries")
        else:
            acc.count("cyclic_queries")
        if msg:
            key = "%s:%s%s%s" % (cls, kind, "|cfg2" if ncfg == 2 else "", "|tail" if tail else "")
            acc.violation(key, {"n": n, "f": list(f), "kind": kind, "ncfg": ncfg, "node": node}, msg)
            msgs.append(msg)
    return msgs


def cfg_counts(ctx, n):
    """quick: two configurations only for n <= 4 (a runaway recursion on the unrepaired tree costs ~10 ms per query)."""
    return (1, 2) if (ctx.thorough or n < MAXN) else (1,)


def shards(ctx):
    return list(range(NSHARDS))


def run_shard(ctx, shard):
    acc = Acc()
    for gi, (n, f) in enumerate(graphs()):
        if gi % NSHARDS != shard:
            continue
        for kind in KINDS:
            for ncfg in cfg_counts(ctx, n):
                check_table(acc, n, f, kind, ncfg)
                acc.count("tables")
        if gi in (5, 40, 700):
            acc.sample({"n": n, "f": list(f), "kinds": KINDS, "configs": [1, 2],
                        "classes": [classify(n, f, k)[0] for k in range(n)]})
    return acc


def replay(ctx, w):
    acc = Acc()
    msgs = check_table(acc, w["n"], tuple(w["f"]), w["kind"], w["ncfg"], nodes=[w["node"]])
    if acc.harness_errors:
        return "harness: " + acc.harness_errors[0]
    return msgs[0] if msgs else None


def space(ctx):
    per_n = {n: (n + 1) ** n for n in range(1, MAXN + 1)}
    return {"ids": "1..%d" % MAXN, "graphs": sum(per_n.values()), "per_n": per_n, "kinds": KINDS,
            "configs": {n: list(cfg_counts(ctx, n)) for n in per_n},
            "tables": sum(per_n[n] * len(KINDS) * len(cfg_counts(ctx, n)) for n in per_n),
            "queries": sum(n * per_n[n] * len(KINDS) * len(cfg_counts(ctx, n)) for n in per_n),
            "budget_events": BUDGET}


def split_key(key):
    parts = key.split("|")
    return parts[0], frozenset(parts[1:])


def minimal_witness(key):
    """The smallest case of a key's class (shards are strided, so the first witness found is not the smallest)."""
    base, ex = split_key(key)
    cls, kind = base.split(":")
    k = {"1": 1, "2": 2, "3+": 3}[cls.split("len")[1]]
    if cls.startswith("cycle"):
        f = [(i + 1) % k for i in range(k)]
        if "tail" in ex:
            f = [1] + [1 + (i + 1) % k for i in range(k)]       # id 0 hangs off the cycle 1..k
    else:
        f = [i + 1 for i in range(k)] + [-1]
    return {"n": len(f), "f": f, "kind": kind, "ncfg": 2 if "cfg2" in ex else 1, "node": 0}


def finalize(ctx, acc):
    # key minimisation: 'x|cfg2' / 'x|tail' say nothing new when 'x' itself fails
    keys = {k: split_key(k) for k in acc.viol}
    for k, (base, ex) in sorted(keys.items(), key=lambda kv: -len(kv[1][1])):
        for k2, (base2, ex2) in keys.items():
            if k2 != k and k2 in acc.viol and k in acc.viol and base2 == base and ex2 < ex:
                acc.viol[k2]["count"] += acc.viol[k]["count"]
                del acc.viol[k]
                break
    for k, v in acc.viol.items():
        w = minimal_witness(k)
        if classify(w["n"], tuple(w["f"]), 0)[0] == split_key(k)[0].split(":")[0]:
            probe = Acc()
            msgs = check_table(probe, w["n"], tuple(w["f"]), w["kind"], w["ncfg"], nodes=[0])
            if msgs:
                v["witness"], v["msg"] = w, msgs[0]
    # vacuity / budget calibration
    from androguard.core import axml
    from gen import arscgen as G
    from ref import resolver as RR
    if acc.extra.get("cyclic_queries", 0) < 40000 or acc.extra.get("acyclic_queries", 0) < 10000:
        acc.harness_error("space degenerated: %r" % acc.extra)
    worst = 0
    for kind in KINDS:
        f = (1, 2, 3, 4, -1)
        t = build(5, f, kind, 2)
        a = axml.ARSCParser(G.serialise(t))
        a._analyse()
        msg, events, tag = judge_query(a, RR.RefResolver(t), t.resid(0, 0, 0))
        worst = max(worst, events)
        # the lowered recursion limit must be far from what a legal resolution needs: the longest chain has to pass with
        # a quarter of the frames as well (skipped when it fails even with the full allowance: that is a finding, not vacuity)
        msg4, _e, tag4 = judge_query(a, RR.RefResolver(t), t.resid(0, 0, 0), frames=FRAMES // 4)
        if msg is None and msg4 is not None:
            acc.harness_error("the longest acyclic chain needs more than %d frames: %s" % (FRAMES // 4, msg4))
    acc.count("events_longest_acyclic_chain", worst)
    if worst * 50 > BUDGET:
        acc.harness_error("budget %d is less than 50x the longest acyclic chain (%d events)" % (BUDGET, worst))
    # the judge must notice a wrong answer: reachable set of a chain must not be empty
    t = build(2, (1, -1), "plain", 1)
    if not RR.RefResolver(t).reachable_values(t.resid(0, 0, 0)):
        acc.harness_error("self-test: reachability of a 1-hop chain is empty")
