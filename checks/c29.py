"""C29  Resource resolution terminates on reference cycles  (engine E2 under the deterministic step budget).

Space: every functional graph on n = 1..5 resource ids -- each id either stores a concrete value or references any id
(itself included): (n+1)^n graphs, 8476 in total, i.e. every cycle of length 1..5 with every shape of tails hanging
off it, every acyclic chain and every mixture -- x an entry kind PER ID from {plain: ResTable_entry + Res_value
TYPE_REFERENCE; compact: FLAG_COMPACT entry with dataType TYPE_REFERENCE in the flags' high byte; bag
("complex-back-ref"): a ResTable_map_entry whose items are a concrete string and the reference} x {1, 2} configurations.
The resolver follows a reference at one call site per entry kind, so every call site lies on enumerated cycles of every
length and next to every other call site:
  n <= 3   every kind vector (3^n per graph: all homogeneous and all mixed cycles)
  n = 4,5  the three homogeneous vectors + "one compact id" among plain ids / among bags, the compact id first or last
           (all labelled graphs are enumerated, so its position in the graph is arbitrary; thorough: every position)
Before each table a decoy (same ids / names / kinds, no references, other texts) is parsed and resolved in the same
process.  QUERY HISTORY: the ids of a table are queried one after the other on ONE parser object (id k after ids 0..k-1; since all
labelled graphs are enumerated every query order occurs up to renaming); a failing query is re-judged on a fresh parser
and with each single earlier query, and the witness carries the ordered history it needs ("|history" in the key).
One table per (graph, kind vector, configs); every id is queried with get_resolved_res_configs(id) under mc/budget.py.
(quick: two configurations for n <= 4 only; thorough: everywhere.)  Plain and compact ids live in type `string`, bags in
type `array` (the slot of an id in the other type is a hole).

Oracle (exactly the statement): the call returns -- no exception (RecursionError included), budget not exceeded -- and
the set of concrete values in the result equals the set of concrete values stored by the resources reachable from the
id in the model (for a plain cycle: nothing; for bags on a cycle: their own concrete items).  Multiplicity, order and
the configuration labels are C28's subject and are not judged here.

Budget: BUDGET interpreter events (function entries + jumps + branches).  The longest acyclic chain of the space (5 bags,
2 configurations, 2^5 paths) is measured in finalize() and must stay below BUDGET / 50.
"""
from mc.core import Acc

PROPERTY = "C29"
LEVEL = "exploration"
RULE = ("all (n+1)^n functional graphs on n=1..5 resource ids x per-id entry kind {plain reference, compact reference, bag with "
        "a concrete item and a back reference} (all 3^n vectors for n<=3; homogeneous + one-compact-id vectors for n=4,5) x "
        "{1,2} configurations; every id queried under an event budget; non-trivial = the queried id reaches a reference; "
        "distinct by construction (graph index, kind vector, configs, id)")
ASSUMPTIONS = [
    "gen/arscgen.py writes well-formed tables (validated against shipped tables, see C28)",
    "termination is decided by an interpreter-event budget (sys.monitoring), never by wall clock; the budget is >= 50x the "
    "cost of the longest acyclic chain in the space; during a query the recursion limit is 120 frames above the harness "
    "(>= 4x what the longest acyclic chain needs, checked in finalize)",
    "only the set of concrete values is judged (multiplicity / configuration labels belong to C28); APK.get_app_name / "
    "get_app_icon on top of the resolver are not driven here",
]
MANIFEST = {
    "engine": "E2-structures",
    "technique": "exhaustive enumeration of all functional reference graphs on <=5 ids, resolution under a deterministic event budget",
    "text": "Every way five resources can reference each other (all cycle lengths 1-5 with all tail shapes, 8476 graphs) is "
            "written as a real resources.arsc with every id encoded as plain reference, compact reference or bag (all mixtures up to "
            "3 ids, homogeneous and one-compact mixtures for 4-5) and with one or two configurations; every id is resolved "
            "through ARSCParser.get_resolved_res_configs under an interpreter-event budget, and the returned concrete values "
            "are compared with graph reachability in the model. Complete for the bound, so termination on cycles is decided, "
            "not sampled.",
    "note": "Trusted: gen/arscgen.py, ref/resolver.py (reachability), mc/budget.py. Cycles longer than 5, and for 4-5 ids "
            "kind mixtures other than one compact id among plain ids or bags, are outside the bound.",
}

BUDGET = 400000
FRAMES = 120            # Python frames a query may stack on top of the harness (longest legal chain needs 24: measured, and re-checked in finalize with FRAMES // 4)
NSHARDS = 32
KINDS = ["plain", "compact", "bag"]
LABEL = {"plain": "plain", "compact": "compact", "bag": "complex-back-ref"}     # key spelling of a homogeneous class
MAXN = 5
FULL_MIX_N = 3


def graphs():
    """yield (n, f): f[i] = -1 (concrete) or the id index i references; simplest first."""
    for n in range(1, MAXN + 1):
        f = [-1] * n
        while True:
            yield n, tuple(f)
            i = 0
            while i < n:
                f[i] += 1
                if f[i] < n:
                    break
                f[i] = -1
                i += 1
            if i == n:
                break


def kind_vectors(ctx, n):
    """Kind per id.  n <= 3: all 3^n vectors; n = 4, 5: homogeneous + one compact id among plain ids / bags."""
    import itertools
    if n <= FULL_MIX_N:
        return [tuple(v) for v in itertools.product(KINDS, repeat=n)]
    out = [(k,) * n for k in KINDS]
    for base in ("plain", "bag"):
        for pos in (range(n) if ctx.thorough else (0, n - 1)):
            v = [base] * n
            v[pos] = "compact"
            out.append(tuple(v))
    return out


def rid_of(kinds, i):
    return (0x7F << 24) | ((2 if kinds[i] == "bag" else 1) << 16) | i


def build(n, f, kinds, ncfg, tag="val"):
    from gen import arscgen as G
    cfgs = [G.Cfg(), G.Cfg(lang="en")][:ncfg]
    strings, arrays = [None] * n, [None] * n
    for i in range(n):
        vals = {}
        for ci, c in enumerate(cfgs):
            text = G.S("%s%d%s" % (tag, i, "-en" if ci else ""))
            ref = None if f[i] < 0 else G.R(rid_of(kinds, f[i]))
            if kinds[i] == "plain":
                vals[c] = G.Plain(ref or text)
            elif kinds[i] == "compact":
                vals[c] = G.Compact(ref or text)
            else:
                vals[c] = G.Complex([(0x02000000, text)] + ([(0x02000001, ref)] if ref else []))
        (arrays if kinds[i] == "bag" else strings)[i] = G.Entry("res%d" % i, vals)
    types = [G.Type("string", strings if any(strings) else [])]
    if any(arrays):
        types.append(G.Type("array", arrays))
    return G.Table([G.Package(0x7F, "com.cyc", types)])


def classify(n, f, node, kinds=None):
    """Input-side class of a query: the cycle the node runs into (length, tail length) or the acyclic chain length;
    with kinds: + the entry kinds on that cycle (on the chain for an acyclic query)."""
    seen = {}
    cur, step = node, 0
    while cur >= 0 and cur not in seen:
        seen[cur] = step
        cur = f[cur]
        step += 1
    if cur < 0:
        hops = step - 1
        cls, clen, tail, on = "acyclic-len%s" % (hops if hops < 3 else "3+"), hops, 0, list(seen)
    else:
        clen, tail = step - seen[cur], seen[cur]
        cls, on = "cycle-len%s" % (clen if clen < 3 else "3+"), [x for x, st in seen.items() if st >= tail]
    if kinds is None:
        return cls, clen, tail
    ks = [k for k in KINDS if any(kinds[x] == k for x in on)]
    label = LABEL[ks[0]] if len(ks) == 1 else "mixed:" + "+".join(ks)
    return cls, clen, tail, label


def _depth():
    import sys
    f, d = sys._getframe(), 0
    while f is not None:
        f, d = f.f_back, d + 1
    return d


def judge_query(a, ref, rid, budget=BUDGET, frames=FRAMES):
    """Returns (message or None, events, outcome tag).
    The interpreter's recursion limit is lowered to `frames` above the harness while the query runs: a resolver that
    recurses once per reference hop needs ~4 frames per hop (<= 5 hops here), so a legal resolution cannot notice, while a
    runaway recursion is cut after 120 instead of 1000 frames (unwinding 1000 frames ~60 000 times is what made this check
    take tens of minutes on a tree without cycle detection)."""
    import sys
    from mc.budget import run_with_budget
    from ref import resolver as RR
    old = sys.getrecursionlimit()
    sys.setrecursionlimit(_depth() + frames)
    try:
        status, val, events = run_with_budget(lambda: a.get_resolved_res_configs(rid), budget)
        if status == "budget":
            # a one-time lazy initialisation inside the library (e.g. the system resource table, ~4e5 events) would be charged to
            # whichever query triggers it first in this process; a resolution that really does not terminate exceeds the budget
            # again on the immediate second attempt, and only that is reported
            status, val, events = run_with_budget(lambda: a.get_resolved_res_configs(rid), budget)
    finally:
        sys.setrecursionlimit(old)
    if status == "budget":
        return "get_resolved_res_configs(0x%08x) did not finish within %d interpreter events" % (rid, budget), events, "budget"
    if status == "exc":
        return "get_resolved_res_configs(0x%08x) raised %s: %s" % (rid, type(val).__name__, str(val)[:120]), events, "exc"
    got = {RR.canon_value(x) for x in RR.flat_values(val)}
    want = ref.reachable_values(rid)
    if got != want:
        return ("get_resolved_res_configs(0x%08x) returned the concrete values %r; reachable in the table: %r"
                % (rid, sorted(got), sorted(want))), events, "wrong"
    return None, events, "ok"


def check_table(acc, n, f, kinds, ncfg, nodes=None, before=None):
    from androguard.core import axml
    from gen import arscgen as G
    from ref import resolver as RR
    table = build(n, f, kinds, ncfg)
    data = G.serialise(table)
    ref = RR.RefResolver(table)
    msgs = []
    # DECOY HISTORY: the same ids, names and entry kinds with another reference graph (every id concrete, other texts) are
    # parsed and resolved in this process first, results ignored: state kept between parsers / resolve() calls (a visited set
    # or result cache at class or module level) then falsifies the table judged next -- in the fresh-process replay as well
    try:
        d = axml.ARSCParser(G.serialise(build(n, (-1,) * n, kinds, ncfg, tag="decoy")))
        for i in range(n):
            d.get_resolved_res_configs(rid_of(kinds, i))
    except Exception:       # noqa
        pass
    try:
        a = axml.ARSCParser(data)
        a._analyse()
    except Exception as e:      # noqa
        acc.harness_error("table %r does not parse: %s %s" % ((n, f, kinds, ncfg), type(e).__name__, e))
        return msgs
    # QUERY HISTORY: the ids are queried one after the other on ONE parser object, so id k is judged after the queries for
    # ids 0..k-1 (all labelled graphs are enumerated, so every query order occurs up to renaming).  `before` replays an
    # explicit history first (witness replay); a failing query is re-judged on a fresh parser to find out whether it
    # needs the history, and the witness carries the ordered list of earlier queries it needs.
    asked = []
    for b in (before or []):
        judge_query(a, ref, rid_of(kinds, b))
        asked.append(b)
    for node in (range(n) if nodes is None else nodes):
        rid = rid_of(kinds, node)
        cls, clen, tail, label = classify(n, f, node, kinds)
        msg, events, tag = judge_query(a, ref, rid)
        history = list(asked)
        asked.append(node)
        if msg and history:
            fresh = axml.ARSCParser(data)
            fresh._analyse()
            msg0 = judge_query(fresh, ref, rid)[0]
            if msg0:
                msg, history = msg0, []             # fails without any history
            else:
                for b in history:                   # one earlier query may be enough
                    one = axml.ARSCParser(data)
                    one._analyse()
                    judge_query(one, ref, rid_of(kinds, b))
                    m1 = judge_query(one, ref, rid)[0]
                    if m1:
                        msg, history = m1, [b]
                        break
                msg = "after get_resolved_res_configs for ids %r on the same parser: %s" % (history, msg)
        acc.case(outcome=(tag, cls, label, len(ref.reachable_values(rid))))
        if f[node] >= 0:
            acc.nt_disjoint += 1
        acc.count("acyclic_queries" if cls.startswith("acyclic") else "cyclic_queries")
        if "compact" in label and not cls.startswith("acyclic"):
            acc.count("cyclic_queries_through_compact")
        if msg:
            key = "%s:%s%s%s%s" % (cls, label, "|cfg2" if ncfg == 2 else "", "|history" if history else "", "|tail" if tail else "")
            acc.violation(key, {"n": n, "f": list(f), "kinds": list(kinds), "ncfg": ncfg, "node": node, "before": history}, msg)
            msgs.append(msg)
    return msgs


def cfg_counts(ctx, n):
    """quick: two configurations only for n <= 4 (a runaway recursion on an unrepaired tree costs ~5 ms per query)."""
    return (1, 2) if (ctx.thorough or n < MAXN) else (1,)


def shards(ctx):
    return list(range(NSHARDS))


def run_shard(ctx, shard):
    acc = Acc()
    vectors = {n: kind_vectors(ctx, n) for n in range(1, MAXN + 1)}
    for gi, (n, f) in enumerate(graphs()):
        if gi % NSHARDS != shard:
            continue
        for kinds in vectors[n]:
            for ncfg in cfg_counts(ctx, n):
                check_table(acc, n, f, kinds, ncfg)
                acc.count("tables")
        if gi in (5, 40, 700):
            acc.sample({"n": n, "f": list(f), "kind_vectors": len(vectors[n]), "e.g.": list(vectors[n][-1]), "configs": [1, 2],
                        "classes": [classify(n, f, k, vectors[n][-1])[0::3] for k in range(n)]})
    return acc


def _kinds_of(w):
    if "kinds" in w:
        return tuple(w["kinds"])
    return ({"plain": "plain", "complex-back-ref": "bag", "compact": "compact"}[w["kind"]],) * w["n"]    # older witnesses


def replay(ctx, w):
    acc = Acc()
    msgs = check_table(acc, w["n"], tuple(w["f"]), _kinds_of(w), w["ncfg"], nodes=[w["node"]], before=w.get("before"))
    if acc.harness_errors:
        return "harness: " + acc.harness_errors[0]
    return msgs[0] if msgs else None


def space(ctx):
    per_n = {n: (n + 1) ** n for n in range(1, MAXN + 1)}
    vec = {n: len(kind_vectors(ctx, n)) for n in per_n}
    return {"ids": "1..%d" % MAXN, "graphs": sum(per_n.values()), "per_n": per_n, "kinds_per_id": KINDS,
            "kind_vectors_per_graph": vec,
            "kind_vector_rule": "n<=%d: all 3^n; n>%d: homogeneous + one compact id among plain ids / bags at %s"
                                % (FULL_MIX_N, FULL_MIX_N, "every position" if ctx.thorough else "the first or last position"),
            "configs": {n: list(cfg_counts(ctx, n)) for n in per_n},
            "tables": sum(per_n[n] * vec[n] * len(cfg_counts(ctx, n)) for n in per_n),
            "queries": sum(n * per_n[n] * vec[n] * len(cfg_counts(ctx, n)) for n in per_n),
            "budget_events": BUDGET}


def split_key(key):
    parts = key.split("|")
    return parts[0], frozenset(parts[1:])


def minimal_witness(key):
    """The smallest case of a key's class (shards are strided, so the first witness found is not the smallest)."""
    base, ex = split_key(key)
    cls, label = base.split(":", 1)
    k = {"1": 1, "2": 2, "3+": 3}[cls.split("len")[1]]
    ks = label[6:].split("+") if label.startswith("mixed:") else [{v: u for u, v in LABEL.items()}[label]]
    if cls.startswith("cycle"):
        if len(ks) > k:
            return None
        f = [(i + 1) % k for i in range(k)]
        kinds = [ks[min(i, len(ks) - 1)] for i in range(k)]
        if "tail" in ex:
            f = [1] + [1 + (i + 1) % k for i in range(k)]       # id 0 hangs off the cycle 1..k
            kinds = [kinds[0]] + kinds
    else:
        f = [i + 1 for i in range(k)] + [-1]
        if len(ks) > k + 1:
            return None
        kinds = [ks[min(i, len(ks) - 1)] for i in range(k + 1)]
    w = {"n": len(f), "f": f, "kinds": kinds, "ncfg": 2 if "cfg2" in ex else 1, "node": 0, "before": []}
    if "history" in ex:
        if "tail" in ex or not cls.startswith("cycle") or k < 2:
            return None
        w["node"], w["before"] = 1, [0]         # ask the next id on the cycle after the first one
    return w


def finalize(ctx, acc):
    # key minimisation: 'x|cfg2' / 'x|tail' say nothing new when 'x' itself fails
    keys = {k: split_key(k) for k in acc.viol}
    for k, (base, ex) in sorted(keys.items(), key=lambda kv: -len(kv[1][1])):
        for k2, (base2, ex2) in keys.items():
            if k2 != k and k2 in acc.viol and k in acc.viol and base2 == base and ex2 < ex:
                acc.viol[k2]["count"] += acc.viol[k]["count"]
                del acc.viol[k]
                break
    for k, v in acc.viol.items():
        w = minimal_witness(k)
        if w and "%s:%s" % classify(w["n"], tuple(w["f"]), w["node"], w["kinds"])[0::3] == split_key(k)[0]:
            probe = Acc()
            msgs = check_table(probe, w["n"], tuple(w["f"]), tuple(w["kinds"]), w["ncfg"], nodes=[w["node"]], before=w["before"])
            if msgs:
                v["witness"], v["msg"] = w, msgs[0]
    # vacuity / budget calibration
    from androguard.core import axml
    from gen import arscgen as G
    from ref import resolver as RR
    if acc.extra.get("cyclic_queries", 0) < 150000 or acc.extra.get("acyclic_queries", 0) < 50000 \
            or acc.extra.get("cyclic_queries_through_compact", 0) < 30000:
        acc.harness_error("space degenerated: %r" % acc.extra)
    worst = 0
    for kind in KINDS:
        f = (1, 2, 3, 4, -1)
        kinds = (kind,) * 5
        t = build(5, f, kinds, 2)
        a = axml.ARSCParser(G.serialise(t))
        a._analyse()
        msg, events, tag = judge_query(a, RR.RefResolver(t), rid_of(kinds, 0))
        worst = max(worst, events)
        # the lowered recursion limit must be far from what a legal resolution needs: the longest chain has to pass with
        # a quarter of the frames as well (skipped when it fails even with the full allowance: that is a finding, not vacuity)
        msg4, _e, _t = judge_query(a, RR.RefResolver(t), rid_of(kinds, 0), frames=FRAMES // 4)
        if msg is None and msg4 is not None:
            acc.harness_error("the longest acyclic chain needs more than %d frames: %s" % (FRAMES // 4, msg4))
    acc.count("events_longest_acyclic_chain", worst)
    if worst * 50 > BUDGET:
        acc.harness_error("budget %d is less than 50x the longest acyclic chain (%d events)" % (BUDGET, worst))
    # the judge must notice a wrong answer: reachable set of a chain must not be empty
    for kinds in (("plain", "plain"), ("compact", "bag"), ("bag", "compact")):
        t = build(2, (1, -1), kinds, 1)
        if not RR.RefResolver(t).reachable_values(rid_of(kinds, 0)):
            acc.harness_error("self-test: reachability of a 1-hop chain %r is empty" % (kinds,))
