"""C39  API-level resources follow the documented fallback rule  (engine E1: finite-domain product over configurations).

Code under test: androguard/core/api_specific_resources/__init__.py (load_permissions, load_permission_mappings) and
androguard/core/androconf.py (load_api_specific_resource_module, CONF['DEFAULT_API']).

Space
  shipped data : both resource names x every API level -5..100 x SPELLINGS through load_api_specific_resource_module,
                 plus the two loaders called directly (load_permissions for 'permissions' and 'groups').
  synthetic    : every non-empty subset of the 5-level universe {1..5} installed as the data directory (the module's
                 `__file__` is pointed at a generated directory holding aosp_permissions/ and api_permission_mappings/
                 with one distinguishable JSON per level) x CONF['DEFAULT_API'] in {1..5} x request -1..7 x SPELLINGS
                 x both resource names, plus the direct loader calls.
SPELLINGS: int, canonical str, and the non-canonical strings that int() maps to the same level: zero padded "%02d" /
"%03d" and "+%d" (levels >= 0), leading space, trailing space, trailing newline.  A string that int() maps to level L
is a request for level L.  Strings that int() rejects ("7.0", "Q") are code names and not part of the space.
CONF['DEFAULT_API'] is an explicit dimension (shipped: 16, 23, 19; synthetic: 1..5) and is changed before every
call after a decoy call made under another default (history): a default captured at import time or at the first call shows.
Reference (the statement): permissions -> the requested level if available, else the highest available level below
it, else (outside the available range) the lowest / highest available level; mappings -> the requested level if
available, else DEFAULT_API.  The returned dict must equal the JSON content of that level's file.
Not judged: mappings when neither the requested nor the default level exists (statement silent; result recorded);
load_permission_mappings called directly for a missing level (returns {} although its docstring says None);
api=None.  api=0 as int is judged by the statement's rule (0 is a request below the range) but keyed separately
('api=0:int'): load_api_specific_resource_module documents "if no api version is given the default is used" and
implements that with `if not api`, so int 0 is taken as 'not given' whereas '0' is clamped.
"""
import json
import os
import re
import shutil
import tempfile

from mc.core import Acc

PROPERTY = "C39"
LEVEL = "exploration"
UNIVERSE = [1, 2, 3, 4, 5]
SYN_REQ = list(range(-1, 8))
SHIPPED_REQ = list(range(-5, 101))
RES = ["aosp_permissions", "api_permission_mappings"]
SHIPPED_DEFAULTS = [16, 23, 19]     # CONF['DEFAULT_API'] on the shipped data (16 is the shipped value)
# how a level is written: int, canonical str, and the non-canonical spellings that int() accepts
TYPES = ["int", "str", "pad2", "pad3", "plus", "lsp", "tsp", "nl"]


def spell(req, typ):
    """The argument for level `req` in spelling `typ`; None where the spelling does not exist or is the canonical one."""
    if typ == "int":
        return req
    if typ == "str":
        return str(req)
    if typ in ("pad2", "pad3", "plus") and req < 0:
        return None
    v = {"pad2": "%02d", "pad3": "%03d", "plus": "+%d", "lsp": " %d", "tsp": "%d ", "nl": "%d\n"}[typ] % req
    assert int(v) == req
    return None if v == str(req) else v
RULE = ("shipped data: 2 resources x levels -5..100 x {int, str, 6 non-canonical numeric spellings} via load_api_specific_resource_module and via the loaders "
        "directly; synthetic: all 31 non-empty subsets of {1..5} as data directory x DEFAULT_API in 1..5 x requests -1..7 x "
        "the same spellings x 2 resources; non-trivial = a fallback is involved (requested level not available) or the level is "
        "given as a string; distinct by (universe, default, resource, entry point, request, type)")
ASSUMPTIONS = [
    "the loaders locate their data through the module global __file__ of androguard.core.api_specific_resources "
    "(pointed at a generated directory for the synthetic universes; finalize checks synthetic content was returned)",
    "CONF['DEFAULT_API'] is configuration and is enumerated for the synthetic universes",
    "mappings with neither requested nor default level available, and api=None, are not judged",
]
MANIFEST = {
    "engine": "E1-product",
    "technique": "exhaustive enumeration of requests x available-level sets against a reference selection rule",
    "text": "Every API level from -5 to 100, as int, as str and in six non-canonical numeric spellings, for both resource kinds on the shipped data, and every "
            "request -1..7 against every non-empty subset of a 5-level synthetic data directory with every default level, "
            "is loaded through the real functions; the returned dict is compared with the JSON file that the documented "
            "fallback rule selects. Complete for the stated space; the synthetic subsets cover every arrangement of "
            "gaps, lower and upper range ends that five levels can form.",
    "note": "Trusted: the 10-line reference selection rule in checks/c39.py and json.load. The data directory is redirected "
            "through the module's __file__; api=0 (int) is reported under its own key.",
}


def space(ctx):
    return {"decoy_history": "whenever resource or default change (always in a replay): CONF['DEFAULT_API'] = the next value of the default alphabet and "
                             "load_api_specific_resource_module(resource, level+1), result ignored; then the default of the case is set",
            "spellings": {"int": 7, "str": "7", "pad2": "07", "pad3": "007", "plus": "+7", "lsp": " 7", "tsp": "7 ", "nl": "7\n",
                          "note": "pad*/plus only for levels >= 0; a spelling equal to the canonical str is not repeated"},
            "shipped": {"resources": RES, "requests": [SHIPPED_REQ[0], SHIPPED_REQ[-1]], "default_api": SHIPPED_DEFAULTS, "types": TYPES,
                        "entry_points": ["load_api_specific_resource_module", "load_permissions(permissions|groups)",
                                         "load_permission_mappings"]},
            "synthetic": {"universe": UNIVERSE, "subsets": 2 ** len(UNIVERSE) - 1, "default_api": UNIVERSE,
                          "requests": SYN_REQ, "types": TYPES, "resources": RES}}


def shards(ctx):
    return [("shipped", r, d) for r in RES for d in SHIPPED_DEFAULTS] + [("syn", mask) for mask in range(1, 2 ** len(UNIVERSE))]


# ------------------------------------------------------------------------------------ reference
def select(avail, req):
    """The statement's rule for permission data. -> (level, position)"""
    lo, hi = min(avail), max(avail)
    if req in avail:
        return req, "exact"
    if req > hi:
        return hi, "above"
    if req < lo:
        return lo, "below"
    return max(x for x in avail if x < req), "gap"


def listing(root, sub):
    out = {}
    for fn in os.listdir(os.path.join(root, sub)):
        m = re.fullmatch(r"permissions_([0-9]+)\.json", fn)
        if m:
            out[int(m.group(1))] = os.path.join(root, sub, fn)
    return out


def content(path, cache={}):
    if path not in cache:
        with open(path) as f:
            cache[path] = json.load(f)
    return cache[path]


# ------------------------------------------------------------------------------------ environment
class Env:
    def __init__(self, universe):
        from androguard.core import androconf
        from androguard.core import api_specific_resources as asr
        self.androconf, self.asr = androconf, asr
        self.saved_file = asr.__file__
        self.saved_default = androconf.CONF["DEFAULT_API"]
        self.tmp = None
        self.decoyed_for = None
        self.decoys = 0
        if universe == "shipped":
            self.root = os.path.dirname(os.path.realpath(asr.__file__))
        else:
            self.tmp = tempfile.mkdtemp(prefix="c39_")
            self.root = os.path.realpath(self.tmp)
            for sub in RES:
                os.mkdir(os.path.join(self.root, sub))
            for lv in UNIVERSE:
                if universe >> (lv - 1) & 1:
                    with open(os.path.join(self.root, "aosp_permissions", "permissions_%d.json" % lv), "w") as f:
                        json.dump({"permissions": {"syn.permission.P%d" % lv: {"level": str(lv), "label": "p", "description": "d",
                                                                            "protectionLevel": "normal"}},
                                   "groups": {"syn.group.G%d" % lv: {"level": str(lv)}}}, f)
                    with open(os.path.join(self.root, "api_permission_mappings", "permissions_%d.json" % lv), "w") as f:
                        json.dump({"Lsyn/C%d;-m-()V" % lv: ["syn.permission.P%d" % lv]}, f)
            asr.__file__ = os.path.join(self.root, "__init__.py")
        self.perm = listing(self.root, "aosp_permissions")
        self.maps = listing(self.root, "api_permission_mappings")

    def restore(self):
        self.asr.__file__ = self.saved_file
        self.androconf.CONF["DEFAULT_API"] = self.saved_default
        if self.tmp:
            shutil.rmtree(self.tmp, ignore_errors=True)


def cases(universe, res_filter=None, default_filter=None):
    """(via, res, default, req, typ) simplest first."""
    if universe == "shipped":
        defaults, reqs = SHIPPED_DEFAULTS, SHIPPED_REQ
    else:
        defaults, reqs = UNIVERSE, SYN_REQ
    for res in RES:
        if res_filter and res != res_filter:
            continue
        for default in defaults:
            if default_filter and default != default_filter:
                continue
            for req in reqs:
                for typ in TYPES:
                    if spell(req, typ) is not None:
                        yield ("module", res, default, req, typ)
        vias = ["load_permissions:permissions", "load_permissions:groups"] if res == RES[0] else ["load_permission_mappings"]
        for via in vias if default_filter in (None, defaults[0]) else ():
            for req in reqs:
                for typ in TYPES:
                    if spell(req, typ) is not None:
                        yield (via, res, defaults[0], req, typ)


def evaluate(env, case):
    """-> (position, selected_level_or_None, key_or_None, message_or_None)"""
    via, res, default, req, typ = case
    conf = env.androconf.CONF
    # decoy history: another default level and another request go through the main entry point first (result ignored),
    # then the default is changed to the one of this case: state kept from an earlier call or from import time shows
    # (done whenever resource or default differ from the previous case of this process - always in a replay; in
    # between, the preceding cases of the enumeration are the history)
    if env.decoyed_for != (res, default):
        pool = SHIPPED_DEFAULTS if env.tmp is None else UNIVERSE
        conf["DEFAULT_API"] = pool[(pool.index(default) + 1) % len(pool)]
        try:
            env.androconf.load_api_specific_resource_module(res, req + 1)
        except Exception:      # noqa
            pass
        env.decoyed_for = (res, default)
        env.decoys += 1
    conf["DEFAULT_API"] = dflt = default
    arg = spell(req, typ)
    # ---- reference
    if res == RES[0]:
        level, pos = select(set(env.perm), req)
        part = via.split(":")[1] if via != "module" else "permissions"
        want = content(env.perm[level])[part]
    else:
        if req in env.maps:
            level, pos, want = req, "exact", content(env.maps[req])
        elif via != "module":
            level, pos, want = None, "missing-direct", None            # not judged
        elif dflt in env.maps:
            level, pos, want = dflt, "fallback-default", content(env.maps[dflt])
        else:
            level, pos, want = None, "default-missing", None           # not judged
    # ---- real
    try:
        if via == "module":
            got = env.androconf.load_api_specific_resource_module(res, arg)
        elif res == RES[0]:
            got = env.asr.load_permissions(arg, via.split(":")[1])
        else:
            got = env.asr.load_permission_mappings(arg)
        exc = None
    except Exception as e:      # noqa
        got, exc = None, "%s: %s" % (type(e).__name__, e)
    if want is None and exc is None:
        return pos, level, None, None
    if exc is None and got == want:
        return pos, level, None, None
    if via == "module" and typ == "int" and req == 0:
        key = "api=0:int"
    else:
        key = "%s:%s:%s%s" % (res, pos, typ if typ in ("int", "str") else "str-noncanonical",
                              "" if via == "module" else ":direct")
    which = "?"
    if isinstance(got, dict):
        for lv, p in sorted((env.perm if res == RES[0] else env.maps).items()):
            c = content(p)
            if got in ((c.get("permissions"), c.get("groups")) if res == RES[0] else (c,)):
                which = str(lv)
                break
        else:
            which = "no level (%d entries)" % len(got)
    msg = ("%s(%s%r) with available levels %s, DEFAULT_API=%r: expected the data of level %s (%s), got %s"
           % (via if via != "module" else "load_api_specific_resource_module", "" if via != "module" else "%r, " % res, arg,
              sorted(env.perm if res == RES[0] else env.maps), dflt, level, pos,
              ("exception " + exc) if exc else "the data of level " + which))
    return pos, level, key, msg


def run_shard(ctx, shard):
    acc = Acc()
    universe = shard[1] if shard[0] == "syn" else "shipped"
    env = Env(universe)
    try:
        if shard[0] == "shipped" and shard[2] == SHIPPED_DEFAULTS[0]:
            files = env.perm if shard[1] == RES[0] else env.maps
            acc.count("shipped_levels_%s" % shard[1], len(files))
            acc.count("shipped_distinct_contents_%s" % shard[1],
                      len({json.dumps(content(p), sort_keys=True) for p in files.values()}))
        for case in cases(universe, *((shard[1], shard[2]) if shard[0] == "shipped" else ())):
            via, res, default, req, typ = case
            pos, level, key, msg = evaluate(env, case)
            nontrivial = (universe, case) if (pos != "exact" or typ != "int") else None
            acc.case(nontrivial=nontrivial, outcome=(res, via, pos, level if universe != "shipped" else None))
            if pos in ("default-missing", "missing-direct"):
                acc.count("not_judged_" + pos)
            elif universe != "shipped":
                acc.count("synthetic_content_compared")
            if key:
                acc.violation(key, {"universe": universe, "case": list(case)}, msg)
        if shard == ("shipped", RES[0], SHIPPED_DEFAULTS[0]):
            acc.sample({"resource": RES[0], "available": sorted(env.perm), "request": 20, "selected": select(set(env.perm), 20)[0]})
        if shard == ("syn", 0b10101):
            acc.sample({"synthetic available": [1, 3, 5], "request": "4", "selected": 3, "request2": 7, "selected2": 5})
        acc.count("decoy_calls", env.decoys)
    finally:
        env.restore()
    return acc


def replay(ctx, w):
    env = Env(w["universe"])
    try:
        return evaluate(env, tuple(w["case"]))[3]
    finally:
        env.restore()


def finalize(ctx, acc):
    want = sum(1 for _ in cases("shipped")) + (2 ** len(UNIVERSE) - 1) * sum(1 for _ in cases(1))
    if acc.n != want and not acc.harness_errors:
        acc.harness_error("evaluations %d != size of the stated space %d" % (acc.n, want))
    if acc.extra.get("synthetic_content_compared", 0) < 5000:
        acc.harness_error("synthetic universes were hardly compared (%d): the data directory redirection no longer works"
                          % acc.extra.get("synthetic_content_compared", 0))
    if len(acc.outcomes) < 40:
        acc.harness_error("only %d distinct outcomes (resource, entry, position, selected level): space degenerated"
                          % len(acc.outcomes))
    for r in RES:
        if acc.extra.get("shipped_distinct_contents_" + r, 0) < 2:
            acc.harness_error("shipped data of %s has fewer than two distinct level contents" % r)
