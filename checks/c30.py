"""C30  Locale qualifiers round-trip through the configuration encoding  (engine E1: finite-domain product).

The 32-bit `locale` field of ResTable_config is  language[2] | country[2]  (bytes 0..3).  Each half is either two
ASCII characters or, with bit 7 of its first byte set, three 5-bit letters packed as AOSP's packLanguageOrRegion
does (base 'a' for languages, '0' for regions).

Space (decode: binary config -> get_language_and_region(); encode: ARSCResTableConfig(locale=<that string>)):
  A  every 16-bit language half (65 536)  x  region half in {none, "US", "GB", packed "419"}
  B  every 16-bit region half (65 536)    x  language half in {"en", packed "fil"}
  C  26^2 two-letter languages  x  (36^2 + 1) regions over [A-Z0-9]^2 + none          (876 772)
  D  26^3 packed three-letter languages  x  region in {none, "US", packed "419"}
  E  10^3 packed three-digit regions  x  language in {"en", "de", packed "fil"};  the default locale (0)
A half is *judged* when it is one Android defines: zero, two lowercase letters / two [A-Z0-9] characters, or a packed
triple whose three 5-bit fields are letters (< 26, language) / digits (< 10, region).  Other bit patterns are decoded
too, but only counted.
Histories: decoding is class-level code that may keep state, so every judged case is a HISTORY (earlier decodes, judged
decode) in a process that was pristine before: each shard runs in a fork of a pristine process (mc/fresh.py), its
enumeration order being its history, and explicitly for each of the 1000 byte pairs that are BOTH a judged packed
language (letters a..j) and a judged packed region (digits): language reading then region reading, region then
language (fresh ARSCResTableConfig objects, one process), and both inside one configuration.  A violation is re-run in
pristine forks (alone, recorded history, shard prefix) and stored with the shortest history that reproduces it.
History on ONE object: for every ordered pair (first, second) over 15 locale strings of six classes (default, 2-letter,
packed 3-letter, 2-letter + 2-character region, 2-letter + packed numeric region, 3-letter + region) an object that holds
`first` (built by the locale= constructor, parsed from a binary config, or set on a default object) is re-encoded with
set_language_and_region(second) and must equal a fresh object encoded with `second` (and the reference word).
Oracle: own implementation of AOSP unpackLanguageOrRegion / packLanguageOrRegion (ref_unpack / ref_pack below); the
reported string must be  <lang>[-r<REGION>]  of the encoded codes, and constructing a configuration from that string
must give the same 32-bit locale and report the same string again.
"""
import io
import os
import struct

from mc.core import Acc

PROPERTY = "C30"
LEVEL = "exploration"
RULE = ("every 16-bit language half x 4 region halves, every 16-bit region half x 2 language halves, 26^2 x (36^2+1) "
        "two-character locales, 26^3 packed languages x 3 regions, 10^3 packed regions x 3 languages, default; each decoded "
        "through a binary ResTable_config and re-encoded through ARSCResTableConfig(locale=str); non-trivial = judged "
        "locale != 0; distinct by the 32-bit locale value; plus explicit two-decode histories for the 1000 byte pairs that "
        "read as a language and as a region; every shard starts in a pristine process")
ASSUMPTIONS = [
    "halves that are not [a-z]{2} / [A-Z0-9]{2} / packed letters / packed digits (and a region without a language) are "
    "outside Android's definition: decoded, counted, not judged",
    "the default locale is reported by androguard as two NUL characters (documented); only its round trip is judged",
]
MANIFEST = {
    "engine": "E1-product",
    "technique": "exhaustive enumeration of the 16-bit locale halves and of all letter/digit codes against an AOSP pack/unpack reference",
    "text": "All 65 536 language halves and all 65 536 region halves, all 26^2 x (36^2+1) two-character locales, all 26^3 packed "
            "three-letter languages and all 10^3 packed numeric regions are decoded from a binary configuration and re-encoded "
            "through the constructor; both directions are compared with an independent implementation of AOSP's "
            "(un)packLanguageOrRegion. Complete for the stated space.",
    "note": "Trusted: the 25-line reference codec in checks/c30.py. Bit patterns that are not language/region codes are counted only.",
}

LOW = "abcdefghijklmnopqrstuvwxyz"
REG = "ABCDEFGHIJKLMNOPQRSTUVWXYZ0123456789"


# ------------------------------------------------------------------------------------------------ reference codec
def ref_unpack(b0, b1, base):
    """AOSP unpackLanguageOrRegion(in[2], base) -> str."""
    if b0 & 0x80:
        first = b1 & 0x1F
        second = ((b1 & 0xE0) >> 5) + ((b0 & 0x03) << 3)
        third = (b0 & 0x7C) >> 2
        return chr(first + base) + chr(second + base) + chr(third + base)
    if b0:
        return chr(b0) + (chr(b1) if b1 else "")
    return ""


def ref_pack(s, base):
    """AOSP packLanguageOrRegion(in, base) -> (b0, b1)."""
    if len(s) == 0:
        return 0, 0
    if len(s) == 2:
        return ord(s[0]), ord(s[1])
    first = (ord(s[0]) - base) & 0x7F
    second = (ord(s[1]) - base) & 0x7F
    third = (ord(s[2]) - base) & 0x7F
    return (0x80 | (third << 2) | (second >> 3)) & 0xFF, ((second << 5) | first) & 0xFF


def half(s, base):
    b0, b1 = ref_pack(s, base)
    return b0 | (b1 << 8)


def kind_lang(h):
    """Classification of a 16-bit language half from the input side."""
    b0, b1 = h & 0xFF, h >> 8
    if h == 0:
        return "none"
    if b0 & 0x80:
        s = ref_unpack(b0, b1, ord("a"))
        return "lang3" if all(c in LOW for c in s) else None
    return "lang2" if chr(b0) in LOW and chr(b1) in LOW else None


def kind_region(h):
    b0, b1 = h & 0xFF, h >> 8
    if h == 0:
        return "none"
    if b0 & 0x80:
        s = ref_unpack(b0, b1, ord("0"))
        return "region3" if all(c in "0123456789" for c in s) else None
    return "region2" if chr(b0) in REG and chr(b1) in REG else None


def expected_string(lh, rh):
    lang = ref_unpack(lh & 0xFF, lh >> 8, ord("a"))
    reg = ref_unpack(rh & 0xFF, rh >> 8, ord("0"))
    return lang + ("-r" + reg if reg else "")


# ------------------------------------------------------------------------------------------------ the real thing
def decode(ax, locale):
    """Binary ResTable_config (size 16: size, imsi, locale, screenType) -> reported string."""
    cfg = ax.ARSCResTableConfig(io.BytesIO(struct.pack("<IIII", 16, 0, locale, 0)))
    return cfg.get_language_and_region()


def judge(ax, acc, lh, rh, history=None, after=None, pf=None):
    """One locale = (language half, region half), judged as the last call of `history` (default: alone).
    Shared by the shards and replay.  after: kind of the colliding half decoded earlier (explicit histories);
    pf: (shard, position) for replay through the shard prefix."""
    kl, kr = kind_lang(lh), kind_region(rh)
    locale = lh | (rh << 16)
    try:
        got = decode(ax, locale)
    except Exception as e:      # noqa
        got = e
    if kl is None or kr is None or (kl == "none" and kr != "none"):
        acc.case(outcome=("unjudged", isinstance(got, Exception)))
        acc.count("unjudged_bit_patterns")
        if isinstance(got, Exception):
            acc.count("unjudged_raised_" + type(got).__name__)
        return

    def violation(key, msg):
        w = {"history": [list(c) for c in history] if history else [[lh, rh]]}
        if after:
            w["_hkey"] = "%s:after:%s" % (key, after)
        if pf:
            w["_prefix"] = {"shard": list(pf[0]), "upto": pf[1]}
            w["_pkey"] = key + ":history-dependent"
        acc.violation(key, w, msg)

    if locale == 0:
        # default locale: androguard documents "\0\0"; the round trip must give locale 0 again
        try:
            back = ax.ARSCResTableConfig(None, locale=got).locale
        except Exception as e:      # noqa
            back = e
        acc.case(outcome=("default", back == 0))
        if back != 0:
            violation("default:pack", "default locale reported as %r re-encodes to %r" % (got, back))
        return
    want = expected_string(lh, rh)
    ok_dec = got == want
    acc.case(nontrivial=(locale, after), outcome=(kl, kr, "dec", after, ok_dec))
    if not ok_dec:
        # which half is wrong?  (input-side key: the kind of the half that was mis-decoded)
        lang_want = want.split("-r")[0]
        bad = kl if not (isinstance(got, str) and got.split("-r")[0] == lang_want) else kr
        violation("%s:decode" % bad, "locale 0x%08x (%s) reported as %r" % (locale, want, got))
        return
    try:
        cfg = ax.ARSCResTableConfig(None, locale=got)
        back, again = cfg.locale, cfg.get_language_and_region()
    except Exception as e:      # noqa
        back, again = e, None
    ok_enc = back == locale and again == got
    acc.case(outcome=(kl, kr, "enc", after, ok_enc))
    if not ok_enc:
        if isinstance(back, int) and (back & 0xFFFF) == lh and kr != "none":
            bad = kr
        else:
            bad = kl
        violation("%s:pack" % bad,
                  "ARSCResTableConfig(locale=%r) has locale %s (reports %r); the configuration that reported this string has 0x%08x"
                  % (got, "0x%08x" % back if isinstance(back, int) else repr(back), again, locale))


H_US, H_GB = half("US", ord("0")), half("GB", ord("0"))
H_419 = half("419", ord("0"))
H_EN, H_DE, H_FIL = half("en", ord("a")), half("de", ord("a")), half("fil", ord("a"))


def space(ctx):
    return {"A_language_halves": 65536, "A_regions": ["", "US", "GB", "419(packed)"],
            "B_region_halves": 65536, "B_languages": ["en", "fil(packed)"],
            "C_two_letter_languages": 676, "C_regions": 1297, "D_packed_languages": 17576, "D_regions": ["", "US", "419(packed)"],
            "E_packed_regions": 1000, "E_languages": ["en", "de", "fil(packed)"], "default": 1,
            "histories": {"byte_pairs_with_two_judged_readings": 1000,
                          "orders": ["language then region", "region then language", "both in one configuration"],
                          "same_object_encoded_twice": {"locales": [v for _, v in REENC], "ordered_pairs": len(REENC) ** 2,
                                                        "object_built_by": REENC_CTORS},
                          "isolation": "every shard runs in a fork of a pristine process; its call order is its history"},
            "total": 65536 * 4 + 65536 * 2 + 676 * 1297 + 17576 * 3 + 3000 + 1}


def shards(ctx):
    import androguard.core.axml      # noqa: loaded once in the runner (never called there), inherited by the forked workers
    s = [("A", hi) for hi in range(0, 256, 16)]          # 16 shards x 4096 halves x 4
    s += [("B", hi) for hi in range(0, 256, 32)]         # 8 shards x 8192 halves x 2
    s += [("C", c) for c in LOW]                         # 26 shards x 26 x 1297
    s += [("D", c) for c in LOW[::2]]                    # 13 shards x 2 x 676 x 3
    s += [("E",)]
    s += [("hist", order, block) for order in ("LR", "RL", "same") for block in range(1)]
    s += [("reenc", ctor) for ctor in REENC_CTORS]
    return s


def cases(shard):
    """The (language half, region half) sequence of a product shard; this order is the shard's history."""
    k = shard[0]
    if k == "A":
        for h in range(shard[1] << 8, (shard[1] + 16) << 8):
            # enumerate by first byte low so that simple halves come first
            lh = ((h & 0xFF) << 8) | (h >> 8)
            for rh in (0, H_US, H_GB, H_419):
                yield lh, rh
    elif k == "B":
        for h in range(shard[1] << 8, (shard[1] + 32) << 8):
            rh = ((h & 0xFF) << 8) | (h >> 8)
            for lh in (H_EN, H_FIL):
                yield lh, rh
    elif k == "C":
        regs = [0] + [half(a + b, ord("0")) for a in REG for b in REG]
        for b in LOW:
            lh = half(shard[1] + b, ord("a"))
            for rh in regs:
                yield lh, rh
    elif k == "D":
        i = LOW.index(shard[1])
        for a in LOW[i:i + 2]:
            for b in LOW:
                for c in LOW:
                    lh = half(a + b + c, ord("a"))
                    for rh in (0, H_US, H_419):
                        yield lh, rh
    else:
        for n in range(1000):
            rh = half("%03d" % n, ord("0"))
            for lh in (H_EN, H_DE, H_FIL):
                yield lh, rh
        yield 0, 0


def histories(shard):
    """Shard ("hist", order, block): for every byte pair that is both a judged packed language (letters a..j) and a judged
    packed numeric region (digits), decode it as a language and then as a region ("LR") or the other way round ("RL"),
    each on a fresh ARSCResTableConfig, in one process; plus both readings inside one configuration ("same").
    Yields (calls, after) - every call of `calls` is judged with the calls before it as its history."""
    _, order, block = shard
    for n in range(block * 1000, block * 1000 + 1000):
        h = half("%03d" % n, ord("0"))
        as_lang, as_region = (h, 0), (H_EN, h)
        if order == "LR":
            yield [as_lang, as_region], "lang3"
        elif order == "RL":
            yield [as_region, as_lang], "region3"
        else:
            yield [(h, h)], None


# history on ONE object: a configuration that already carries a locale is encoded again
REENC = [("default", "\x00\x00"), ("lang2", "de"), ("lang2", "en"), ("lang2", "zu"), ("lang3", "haw"), ("lang3", "fil"),
         ("lang3", "ace"), ("lang2+region2", "de-rDE"), ("lang2+region2", "en-rUS"), ("lang2+region2", "pt-rBR"),
         ("lang2+region3", "es-r419"), ("lang2+region3", "en-r001"), ("lang3+region", "fil-rPH"), ("lang3+region", "haw-rUS"),
         ("lang3+region", "kok-r419")]
REENC_CTORS = ["kwargs", "binary", "set"]


def ref_locale(s):
    """Reference encoding of a reported locale string into the 32-bit locale word."""
    if s == "\x00\x00":
        return 0
    lang, _, reg = s.partition("-r")
    return half(lang, ord("a")) | (half(reg, ord("0")) << 16)


def judge_reenc(ax, acc, ctor, first, second, pf=None):
    """One object that holds `first` (built by the locale= constructor, parsed from a binary config, or set on a default
    object) gets set_language_and_region(second); it must then be what a fresh object encoded with `second` is."""
    cls = dict((v, k) for k, v in REENC)
    try:
        if ctor == "kwargs":
            cfg = ax.ARSCResTableConfig(None, locale=first)
        elif ctor == "binary":
            cfg = ax.ARSCResTableConfig(io.BytesIO(struct.pack("<IIII", 16, 0, ref_locale(first), 0)))
        else:
            cfg = ax.ARSCResTableConfig(None)
            cfg.set_language_and_region(first)
        before = cfg.locale
        cfg.set_language_and_region(second)
        got = (cfg.locale, cfg.get_language_and_region())
        fresh = ax.ARSCResTableConfig(None, locale=second)
        want_fresh = (fresh.locale, fresh.get_language_and_region())
    except Exception as e:      # noqa
        before, got, want_fresh = None, e, None
    want = (ref_locale(second), second)
    ok = got == want and want_fresh == want
    acc.case(nontrivial=("reenc", ctor, first, second), outcome=("reenc", cls[first], cls[second], ok))
    if not ok:
        if want_fresh is not None and want_fresh != want:
            # not a history effect: the fresh object is already wrong (its word -> pack, only its string -> decode)
            key = "%s:%s" % (cls[second].split("+")[0], "decode" if want_fresh[0] == want[0] else "pack")
        else:
            key = "reencode:%s:after:%s" % (cls[second], cls[first])
        w = {"history": [["reenc", ctor, first, second]]}
        if pf:
            w["_prefix"] = {"shard": list(pf[0]), "upto": pf[1]}
            w["_pkey"] = key + ":history-dependent"
        acc.violation(key, w, "object holding %r (%s, locale 0x%s) after set_language_and_region(%r): %r; a fresh object "
                      "encoded with %r is %r, reference 0x%08x"
                      % (first, ctor, "%08x" % before if isinstance(before, int) else before, second,
                         got if isinstance(got, Exception) else ("0x%08x" % got[0], got[1]), second,
                         want_fresh and ("0x%08x" % want_fresh[0], want_fresh[1]), want[0]))


def _run(ctx, ax, shard, acc, stop=None):
    """Execute the shard's sequence; stop=position: run the same sequence but judge only that case (prefix replay)."""
    dummy = Acc()
    n = 0
    if shard[0] == "reenc":
        for _, first in REENC:
            for _, second in REENC:
                judge_reenc(ax, acc if stop is None or stop == n else dummy, shard[1], first, second, pf=(shard, n))
                if stop == n:
                    return
                n += 1
        return
    if shard[0] == "hist":
        for calls, after in histories(shard):
            for k, (lh, rh) in enumerate(calls):
                judge(ax, acc if stop is None or stop == n else dummy, lh, rh, history=calls[:k + 1],
                      after=after if k else None, pf=(shard, n))
                if stop == n:
                    return
                n += 1
        return
    for lh, rh in cases(shard):
        judge(ax, acc if stop is None or stop == n else dummy, lh, rh, pf=(shard, n))
        if stop == n:
            return
        n += 1


def _shard_main(ctx, shard):
    """Runs in a fork of a pristine worker: class/module state of the code under test is pristine at entry."""
    from androguard.core import axml as ax
    from mc import fresh
    acc = fresh.HistoryAcc(_SRV[0], replay, ctx)
    _run(ctx, ax, shard, acc)
    if shard == ("C", "e"):
        acc.sample({"locale": "0x%08x" % (H_EN | (H_US << 16)), "reported": decode(ax, H_EN | (H_US << 16))})
    if shard == ("D", "e"):
        acc.sample({"locale": "0x%08x" % (H_FIL | (H_419 << 16)), "reported": decode(ax, H_FIL | (H_419 << 16)),
                    "expected": expected_string(H_FIL, H_419)})
    if shard == ("hist", "LR", 0):
        acc.sample({"history": ["decode language half 0x%04x (%s)" % (half("024", ord("0")), "ace"),
                                "decode en + region half 0x%04x" % half("024", ord("0"))],
                    "reported": [decode(ax, half("024", ord("0"))), decode(ax, H_EN | (half("024", ord("0")) << 16))]})
    return acc


_SRV = [None]


def run_shard(ctx, shard):
    import androguard.core.axml      # noqa: imported, never called here - this process stays pristine
    from mc import fresh
    if _SRV[0] is None or _SRV[0].owner != os.getpid():
        _SRV[0] = fresh.Pristine()
    return fresh.isolated(_shard_main, ctx, tuple(shard))


def replay(ctx, w):
    """Executes the witness history in this (fresh) process and judges its last call."""
    from androguard.core import axml as ax
    acc = Acc()
    if "history" not in w:                  # witness format of the first version
        judge(ax, acc, w["lang"], w["region"])
    elif "prefix" in w:
        _run(ctx, ax, tuple(w["prefix"]["shard"]), acc, stop=w["prefix"]["upto"])
    else:
        dummy = Acc()
        hist = [tuple(c) for c in w["history"]]
        for k, c in enumerate(hist):
            sink = acc if k == len(hist) - 1 else dummy
            if c[0] == "reenc":
                judge_reenc(ax, sink, c[1], c[2], c[3])
            else:
                judge(ax, sink, c[0], c[1], history=hist[:k + 1])
    if acc.viol:
        return "; ".join(v["msg"] for v in acc.viol.values())
    return None


def finalize(ctx, acc):
    # reference self-test: pack and unpack are inverse on every code, and agree with the values AOSP documents
    for a in LOW:
        for b in LOW:
            for c in LOW[:3] + "z":
                s = a + b + c
                b0, b1 = ref_pack(s, ord("a"))
                if not b0 & 0x80 or ref_unpack(b0, b1, ord("a")) != s:
                    acc.harness_error("reference codec is not a bijection on %r" % s)
                    return
    if ref_pack("fil", ord("a")) != (0xAD, 0x05) or ref_pack("419", ord("0")) != (0xA4, 0x24):
        acc.harness_error("reference codec disagrees with hand-computed AOSP values: fil=%r 419=%r"
                          % (ref_pack("fil", ord("a")), ref_pack("419", ord("0"))))
    if expected_string(H_FIL, H_419) != "fil-r419" or expected_string(H_EN, H_US) != "en-rUS":
        acc.harness_error("expected_string self-test failed")
    total = space(ctx)["total"]
    if acc.n < total:
        acc.harness_error("evaluations %d < size of the stated space %d" % (acc.n, total))
    if len(acc.outcomes) < 12:
        acc.harness_error("space collapsed: %d distinct outcomes" % len(acc.outcomes))
