"""C25  Merged short-circuit conditions route control as the original branches did   (engine E2).

Space: every acyclic graph of k = 2, 3 (thorough: 4) CondBlocks c0..c(k-1) (entry c0, every condition reachable) whose
true/false edges range over the other conditions and three exit nodes X, Y, Z; x every truth assignment of the k leaf
conditions; x every writer context that decides negation: loop_follow / if-follow / next_case each in
{None, the node's true target, its false target, an unrelated node}, plus 'raw' (condition printed without
visit_cond_node).  The REAL `short_circuit_struct` restructures a REAL Graph (real CondBlock / ReturnBlock, real
dominators and RPO); the REAL `Writer.visit_cond_node` / `visit_short_circuit_condition` print the condition.  Leaf
conditions are stub instructions printing `A` / `!A` and implementing neg().

A second family ('walk') takes EVERY graph of 2, 3 conditions (thorough: 4 over two exits) whose edges may target any
condition -- loops, self-loops, jumps back to the head -- with the head either the method entry or behind a
pre-header block, restructures it, prints every remaining condition once and walks the restructured graph from its
entry under every truth assignment: it must reach the exit the original branches reach (or never leave, if the
original never leaves; step bound 4k+8).

A third family ('stmt') adds one statement block S to 2 or 3 conditions (c0 = method entry; condition edges target any
condition, S or an exit; S jumps anywhere; loop latches back to the entry included) and compares what is EXECUTED: the
sequence of visits of S (first 3) and the exit, for every truth assignment -- a latch folded into the entry condition
reaches the same exit but skips the first run of the body.

Oracle: for every ShortCircuitBlock N the printed text is parsed (( ) && || !) and evaluated under each assignment; it
must select N.true (as left by the writer after any swap) exactly when walking the ORIGINAL chain from N's first
constituent under that assignment leaves N's constituents towards that node (N.false otherwise).
"""
import itertools

from mc.core import Acc, h8

PROPERTY = "C25"
LEVEL = "exploration"
RULE = ("all acyclic connected graphs of 2..3 (thorough 4) two-way conditions over 3 exits x all truth assignments x all "
        "writer contexts (loop_follow, if-follow, next_case in {None, true target, false target, unrelated}; raw print); "
        "plus all (also cyclic) condition graphs of 2..3 (thorough 4) conditions, head = method entry or behind a "
        "pre-header, walked from the entry under every assignment; plus 2..3 conditions and one statement node "
        "(entry = chain head, latches back to the entry), executions of the statement and exit compared.  "
        "Non-trivial = a case where short_circuit_struct merged at least two conditions; distinct by construction "
        "(graph x merged node x context), assignments are evaluated inside one case")
ASSUMPTIONS = ["leaf conditions are stubs whose neg() toggles their truth value (what ConditionalExpression.neg does by "
               "flipping the comparison operator); real comparison printing is C21/C23 territory",
               "only merged (ShortCircuitBlock) conditions are judged; the negation of single conditions is counted only",
               "the writer is driven per node: visit_node is stubbed so that nested nodes are not printed; contexts are "
               "set directly (loop_follow stack, follow['if'], next_case) instead of arising from loops/switches",
               "decoy history: before every judged graph a different 2-condition chain with the same node names is "
               "restructured and printed in the same process, results ignored",
               "visit_short_circuit_condition mutates cond1 when isnot, so printing one condition twice reads differently; "
               "the writer prints each once; every case prints on a freshly built graph"]
MANIFEST = {
    "engine": "E2-structures",
    "technique": "exhaustive enumeration of condition-chain graphs, truth assignments and writer contexts; printed condition evaluated by a tiny parser",
    "text": "Every acyclic chain graph of two and three (thorough: four) conditional blocks over three exits is restructured "
            "by the real short_circuit_struct and printed by the real writer in every context that makes it negate and "
            "swap; the printed text is parsed and evaluated under every truth assignment and must pick the successor the "
            "original branch chain reaches.  The unit tests compare a few printed methods as text; this is complete for "
            "the stated bound, including nested merges and double negation.",
    "note": "Trusted: the 30-line boolean parser and the chain walker in checks/c25.py.  Leaf conditions are stubs; cyclic "
            "condition graphs (loop headers) are out of the bound.",
}

EXITS = ["X", "Y", "Z"]
LETTERS = "ABCD"


def space(ctx):
    return {"conditions": [2, 3] + ([4] if ctx.thorough else []), "exits": EXITS,
            "edge_targets": "any other condition or any exit; graph acyclic, every condition reachable from c0",
            "truth_assignments": "all 2^k",
            "stmt_family": {"conditions": [2, 3], "statement_nodes": 1, "exits": 2 if ctx.thorough else 1,
                            "edge_targets": "condition edges: any condition (itself included), S or an exit; S: any "
                                            "condition or exit; c0 is the method entry; everything reachable",
                            "oracle": "sequence of executions of S (first %d) and exit reached, every assignment" % MAX_S},
            "walk_family": {"conditions": [2, 3] + (["4 (two exits)"] if ctx.thorough else []),
                            "edge_targets": "any condition (itself included) or any exit; every condition reachable",
                            "head": ["method entry", "behind a pre-header block"], "step_bound": "4k+8"},
            "writer_contexts": {"loop_follow": ["None", "true", "false", "other"], "if_follow": ["None", "true", "false", "other"],
                                "next_case": ["None", "true", "false", "other"], "raw": "visit_cond only"}}


# ---------------------------------------------------------------------------------------------------------------
# enumeration
def targets(k, i):
    return [j for j in range(k) if j != i] + EXITS


def valid(k, edges):
    """acyclic over condition->condition edges and every condition reachable from 0"""
    seen = {0}
    todo = [0]
    while todo:
        u = todo.pop()
        for t in edges[u]:
            if isinstance(t, int) and t not in seen:
                seen.add(t)
                todo.append(t)
    if len(seen) != k:
        return False
    state = [0] * k

    def dfs(u):
        state[u] = 1
        for t in edges[u]:
            if isinstance(t, int):
                if state[t] == 1 or (state[t] == 0 and dfs(t)):
                    return True
        state[u] = 2
        return False
    return not dfs(0)


def graphs(k, first=None, second_true=None):
    """All valid chain graphs with k conditions; `first` fixes c0's (true, false), `second_true` fixes c1.true."""
    per = []
    for i in range(k):
        tg = targets(k, i)
        pairs = list(itertools.product(tg, tg))
        if i == 0 and first is not None:
            pairs = [tuple(first)]
        if i == 1 and second_true is not None:
            pairs = [p for p in pairs if p[0] == second_true]
        per.append(pairs)
    for combo in itertools.product(*per):
        if valid(k, combo):
            yield [list(p) for p in combo]


def walk_targets(k, nexits=3):
    return list(range(k)) + EXITS[:nexits]


def reachable_all(k, edges):
    seen, todo = {0}, [0]
    while todo:
        u = todo.pop()
        for t in edges[u]:
            if isinstance(t, int) and t not in seen:
                seen.add(t)
                todo.append(t)
    return len(seen) == k


def walk_graphs(k, first=None, second_true=None, nexits=3):
    """Every graph of k two-way conditions whose edges target ANY condition (itself included) or an exit, all
    conditions reachable from c0: acyclic chains, loops, self-loops, jumps back to the head."""
    tg = walk_targets(k, nexits)
    per = [list(itertools.product(tg, tg)) for _ in range(k)]
    if first is not None:
        per[0] = [tuple(first)]
    if second_true is not None:
        per[1] = [p for p in per[1] if p[0] == second_true]
    later = []
    for combo in itertools.product(*per):
        if reachable_all(k, combo):
            g = [list(p) for p in combo]
            # plain shapes first (no self-loop, two different targets) so that the first witness per key is a natural one
            if any(p[0] == p[1] or i in p for i, p in enumerate(g)):
                later.append(g)
            else:
                yield g
    for g in later:
        yield g


def shape_of(k, edges):
    if valid(k, edges):                      # valid() = all reachable and no cycle (a self-loop is a cycle)
        return "acyclic"
    if any(isinstance(t, int) and t == 0 for p in edges for t in p):
        return "cyclic:back-to-head"
    return "cyclic:inner"


def shards(ctx):
    s = [("k", 2, None, None)]
    for first in itertools.product(targets(3, 0), repeat=2):
        for st in targets(3, 1):
            s.append(("k", 3, list(first), st))
    if ctx.thorough:
        for first in itertools.product(targets(4, 0), repeat=2):
            for st in targets(4, 1):
                s.append(("k", 4, list(first), st))
    # whole-graph walks over ALL condition graphs (cycles, self-loops, jumps back to the head included)
    s.append(("walk", 2, None, None, 3))
    for first in itertools.product(walk_targets(3), repeat=2):
        s.append(("walk", 3, list(first), None, 3))
    # conditions + one statement node, chain starting at the method entry, latches back to the entry included
    nx = 2 if ctx.thorough else 1
    s.append(("stmt", 2, nx, None))
    for first in itertools.product(list(range(3)) + ["S"] + EXITS[:nx], repeat=2):
        s.append(("stmt", 3, nx, list(first)))
    if ctx.thorough:                              # 4 conditions over two exits
        for first in itertools.product(walk_targets(4, 2), repeat=2):
            for st in walk_targets(4, 2):
                s.append(("walk", 4, list(first), st, 2))
    return s


# ---------------------------------------------------------------------------------------------------------------
# stubs, builder, parser, walker
def _leaf_base():
    from androguard.decompiler.instruction import IRForm
    return IRForm


class _LeafMixin:
    """Stub conditional instruction: prints its letter, neg() toggles it.
    The stub derives from the real IRForm base class (see make_leaf) so that every method the decompiler may call on an
    instruction (has_side_effect, is_call, ...) answers with the IRForm defaults instead of raising AttributeError."""

    def __init__(self, name):
        super().__init__()
        self.name = name
        self.negated = False

    def neg(self):
        self.negated = not self.negated

    def visit(self, visitor):
        visitor.write(("!" if self.negated else "") + self.name)

    def get_used_vars(self):
        return []

    def get_lhs(self):
        return None


_LEAF = []


def Leaf(name):
    if not _LEAF:
        _LEAF.append(type("Leaf", (_LeafMixin, _leaf_base()), {}))
    return _LEAF[0](name)


def build(k, edges, pre=False, stmt=None):
    """Real Graph of real CondBlocks/ReturnBlocks; returns (graph, conds, exits-by-name).
    pre=True puts a StatementBlock P in front of c0 (the chain head then is not the method entry)."""
    from androguard.decompiler.basic_blocks import CondBlock, ReturnBlock, StatementBlock
    from androguard.decompiler.graph import Graph
    g = Graph()
    conds = [CondBlock("c%d" % i, [Leaf(LETTERS[i])]) for i in range(k)]
    exits = {x: ReturnBlock(x, []) for x in EXITS}
    for c in conds:
        g.add_node(c)
    for x in EXITS:
        g.add_node(exits[x])

    snode = StatementBlock("S", []) if stmt is not None else None
    if snode is not None:
        g.add_node(snode)

    def node(t):
        return conds[t] if isinstance(t, int) else snode if t == "S" else exits[t]
    if snode is not None:
        g.add_edge(snode, node(stmt))
    for i, (t, f) in enumerate(edges):
        conds[i].true = node(t)
        conds[i].false = node(f)
        g.add_edge(conds[i], node(t))
        g.add_edge(conds[i], node(f))
    g.entry = conds[0]
    if pre:
        p = StatementBlock("P", [])
        g.add_node(p)
        g.add_edge(p, conds[0])
        g.entry = p
    # exits that no edge uses are unreachable: drop them so that the graph is rooted
    used = {t for p in edges for t in p if not isinstance(t, int)} | {stmt}
    for x in EXITS:
        if x not in used:
            g.nodes.remove(exits[x])
    return g, conds, exits


def restructure(k, edges, pre=False, stmt=None):
    from androguard.decompiler.control_flow import short_circuit_struct
    g, conds, exits = build(k, edges, pre, stmt)
    g.compute_rpo()
    idom = g.immediate_dominators()
    node_map = {}
    short_circuit_struct(g, idom, node_map)
    return g, conds, exits, node_map


def _decoy():
    """Decoy history: a DIFFERENT chain using the same node names (c0, c1, X, Y) and letters goes through the same calls
    first, results ignored -- state carried from one graph to the next inside the process (a cache keyed by name)
    then shows up as a violation that also reproduces in the fresh-process replay."""
    from androguard.decompiler.writer import Writer
    g, _c, _e, _m = restructure(2, [[1, "X"], ["Y", "X"]])
    for node in g.nodes:
        if node.type.is_cond:
            node.visit_cond(Writer(g, None))


def leaves(node):
    """Original CondBlocks merged into `node`, left to right."""
    cond = getattr(node, "cond", None)
    if cond is None:
        return [node]
    return leaves(cond.cond1) + leaves(cond.cond2)


def pattern(node):
    cond = getattr(node, "cond", None)
    if cond is None:
        return "c"
    return "(%s%s %s %s)" % ("!" if cond.isnot else "", pattern(cond.cond1), "&&" if cond.isand else "||",
                             pattern(cond.cond2))


def tokenize(text):
    out, i = [], 0
    while i < len(text):
        ch = text[i]
        if ch.isspace():
            i += 1
        elif text.startswith("&&", i) or text.startswith("||", i):
            out.append(text[i:i + 2])
            i += 2
        elif ch in "()!":
            out.append(ch)
            i += 1
        elif ch in LETTERS:
            out.append(ch)
            i += 1
        else:
            raise ValueError("unexpected %r in printed condition %r" % (ch, text))
    return out


def evaluate(text, val):
    """Java precedence: ! binds tightest, then &&, then ||.  val: {letter: bool}."""
    toks = tokenize(text)
    pos = [0]

    def peek():
        return toks[pos[0]] if pos[0] < len(toks) else None

    def take():
        pos[0] += 1
        return toks[pos[0] - 1]

    def p_or():
        v = p_and()
        while peek() == "||":
            take()
            w = p_and()
            v = v or w
        return v

    def p_and():
        v = p_un()
        while peek() == "&&":
            take()
            w = p_un()
            v = v and w
        return v

    def p_un():
        t = take() if pos[0] < len(toks) else None
        if t == "!":
            return not p_un()
        if t == "(":
            v = p_or()
            if take() != ")":
                raise ValueError("unbalanced parenthesis in %r" % text)
            return v
        if t is not None and t in LETTERS:
            return val[t]
        raise ValueError("cannot parse printed condition %r" % text)
    v = p_or()
    if pos[0] != len(toks):
        raise ValueError("trailing tokens in printed condition %r" % text)
    return v


def walk_original(edges, start, members, val):
    """Follows the ORIGINAL branches from condition `start` while inside `members`; returns the first target outside."""
    cur = start
    for _ in range(len(edges) + 1):
        t = edges[cur][0 if val[LETTERS[cur]] else 1]
        if not isinstance(t, int) or t not in members:
            return t
        cur = t
    raise AssertionError("walk did not leave the chain")


CTX_VALUES = ["none", "true", "false", "other"]


def contexts():
    yield ("raw", None, None, None)
    for lf in CTX_VALUES:
        for iff in CTX_VALUES:
            for nc in CTX_VALUES:
                yield ("cond", lf, iff, nc)


def pick(which, node, other):
    return {"none": None, "true": node.true, "false": node.false, "other": other}[which]


def print_condition(g, node, ctx, other):
    """Runs the real writer on one node.  Returns the text between 'if (' and ') {'."""
    from androguard.decompiler.writer import Writer
    w = Writer(g, None)
    w.visit_node = lambda n: None            # do not descend: only this node's condition is printed
    kind, lf, iff, nc = ctx
    if kind == "raw":
        node.visit_cond(w)
        return str(w)
    # the targets are picked BEFORE the writer swaps anything
    lfn, ifn, ncn = pick(lf, node, other), pick(iff, node, other), pick(nc, node, other)
    w.loop_follow = [None, lfn]
    node.follow["if"] = ifn
    w.next_case = ncn
    w.visit_cond_node(node)
    text = str(w)
    a = text.index("if (") + 4
    b = text.index(") {\n", a)
    return text[a:b]


def judge_graph(k, edges, acc=None):
    """All merged nodes x all contexts x all assignments of one chain graph.  Returns list of (key, message)."""
    _decoy()
    g0, conds0, _ex, _nm = restructure(k, edges)
    merged_names = [n.name for n in g0.nodes if getattr(n, "cond", None) is not None]
    singles = [n for n in g0.nodes if n.type.is_cond and getattr(n, "cond", None) is None]
    if acc is not None:
        acc.count("chain_graphs")
        if merged_names:
            acc.count("chain_graphs_merged")
        acc.count("merged_nodes", len(merged_names))
        acc.count("unmerged_conditions_not_judged", len(singles))
        for n in g0.nodes:
            if getattr(n, "cond", None) is not None:
                p = pattern(n)
                acc.count("pattern_and" if n.cond.isand and not n.cond.isnot else
                          "pattern_not_and" if n.cond.isand else
                          "pattern_not_or" if n.cond.isnot else "pattern_or")
                if p.count("(") > 1:
                    acc.count("nested_merges")
    out = []
    for name in merged_names:
        for ctx in contexts():
            # fresh build for every print: the writer and Condition.neg mutate the nodes
            g, conds, exits, node_map = restructure(k, edges)
            node = next(n for n in g.nodes if n.name == name)
            pat = pattern(node)
            members = [int(c.name[1:]) for c in leaves(node)]
            before = (node.true, node.false)
            other = next((n for n in g.nodes if n is not node and n is not node.true and n is not node.false), None)
            if other is None:
                from androguard.decompiler.basic_blocks import ReturnBlock
                other = ReturnBlock("W", [])
            ctxname = "raw" if ctx[0] == "raw" else "lf=%s,if=%s,nc=%s" % ctx[1:]
            try:
                text = print_condition(g, node, ctx, other)
                swapped = (node.true, node.false) == (before[1], before[0]) and before[0] is not before[1]
                msgs = []
                for bits in itertools.product((False, True), repeat=k):
                    val = {LETTERS[i]: bits[i] for i in range(k)}
                    t = walk_original(edges, members[0], set(members), val)
                    orig = conds[t] if isinstance(t, int) else exits[t]
                    want = node_map.get(orig, orig)
                    sel = node.true if evaluate(text, val) else node.false
                    if sel is not want:
                        msgs.append("%s: printed picks %s, original chain reaches %s"
                                    % ("".join("%s=%d" % (LETTERS[i], bits[i]) for i in members), sel.name, want.name))
            except Exception as e:     # noqa
                text, swapped = "<exception>", False
                msgs = ["%s: %s" % (type(e).__name__, e)]
            if acc is not None:
                acc.n += 1
                acc.nt_disjoint += 1
                acc.count("assignments_evaluated", 1 << k)
                acc.count("writer_swapped" if swapped else "writer_did_not_swap")
                acc.outcomes.add(h8((text, swapped)))
            if msgs:
                cls = "raw" if ctx[0] == "raw" else "+".join(
                    nm for nm, v in zip(("lf", "if", "nc"), ctx[1:]) if v != "none") or "plain"
                out.append(("merge:%s:%s" % (pat, cls),
                            "k=%d edges=%s node %s %s context %s printed %r (true->%s false->%s): %s"
                            % (k, edges, name, pat, ctxname, text, node.true.name, node.false.name, "; ".join(msgs[:4]))))
    if acc is not None and not merged_names:
        acc.n += 1
    return out


def original_route(k, edges, val, limit):
    cur = 0
    for _ in range(limit):
        t = edges[cur][0 if val[LETTERS[cur]] else 1]
        if not isinstance(t, int):
            return t
        cur = t
    return "never leaves the conditions"


def judge_walk(k, edges, pre, acc=None):
    """Whole-graph routing: for every truth assignment the exit reached by walking the restructured graph from its entry
    (every merged or plain condition printed once by the real writer, text evaluated) must be the exit the original
    branches reach; a walk that never leaves in the original must not leave in the restructured graph either.
    Returns (key suffix, message) or None."""
    from androguard.decompiler.writer import Writer
    _decoy()
    limit = 4 * k + 8
    variant = "preheader" if pre else "entry-is-head"
    shp = shape_of(k, edges)
    try:
        g, conds, exits, node_map = restructure(k, edges, pre)
        printed = {}
        for node in g.nodes:
            if node.type.is_cond:
                w = Writer(g, None)
                node.visit_cond(w)
                printed[node] = str(w)
    except Exception as e:      # noqa
        return ("walk:%s:%s:exception" % (shp, variant),
                "k=%d edges=%s %s: restructuring/printing raised %s: %s" % (k, edges, variant, type(e).__name__, e))
    merged = sum(1 for n in printed if getattr(n, "cond", None) is not None)
    if acc is not None:
        acc.count("walk_graphs_" + shp.replace(":", "_"))
        if merged:
            acc.count("walk_graphs_merged_" + shp.replace(":", "_"))
            acc.nt_disjoint += 1
        acc.outcomes.add(h8(tuple(sorted(printed.values()))))
    bad = []
    for bits in itertools.product((False, True), repeat=k):
        val = {LETTERS[i]: bits[i] for i in range(k)}
        want = original_route(k, edges, val, limit)
        cur = g.entry
        got = None
        steps = 0
        while got is None:
            if cur not in g.nodes:
                got = "node %s which is not in the graph any more" % cur.name
            elif cur in printed:
                steps += 1
                if steps > limit:
                    got = "never leaves the conditions"
                else:
                    cur = cur.true if evaluate(printed[cur], val) else cur.false
            elif cur.type.is_return:
                got = cur.name
            else:
                nxt = g.sucs(cur)
                cur = nxt[0] if nxt else None
                if cur is None:
                    got = "dead end"
        if got != want:
            bad.append("%s: original -> %s, restructured -> %s"
                       % (" ".join("%s=%d" % (LETTERS[i], bits[i]) for i in range(k)), want, got))
    if bad:
        return ("walk:%s:%s" % (shp, variant),
                "k=%d edges=%s (%s, %s) conditions after restructuring %s: %s"
                % (k, edges, shp, variant, sorted(printed.values()), "; ".join(bad[:4])))
    return None


# ---------------------------------------------------------------------------------------------------------------
# walks with a statement node: the chain starts at the method entry, a statement block S sits between conditions, a
# later condition may be a loop latch jumping back to the entry; what is EXECUTED (visits of S) is compared, not only
# the exit, because a latch folded into the entry tests the latch before the body has run once yet reaches the same exit
MAX_S = 3


def stmt_graphs(k, nexits, first=None):
    """k conditions + one statement node S.  Condition edges target any condition, S or an exit; S jumps to any
    condition or exit; every condition and S reachable from c0 (= the method entry)."""
    tg = list(range(k)) + ["S"] + EXITS[:nexits]
    per = [list(itertools.product(tg, tg)) for _ in range(k)]
    if first is not None:
        per[0] = [tuple(first)]
    for combo in itertools.product(*per):
        if not any("S" in p for p in combo):
            continue
        for st in list(range(k)) + EXITS[:nexits]:
            seen, todo = {0}, [0]
            while todo:
                u = todo.pop()
                for t in (combo[u] if u != "S" else (st,)):
                    if (isinstance(t, int) or t == "S") and t not in seen:
                        seen.add(t)
                        todo.append(t)
            if len(seen) == k + 1:
                yield [list(p) for p in combo], st


def trace_original(k, edges, st, val, limit):
    cur, trace, steps = 0, [], 0
    while True:
        steps += 1
        if steps > limit:
            return trace, "never leaves"
        if cur == "S":
            trace.append("S")
            if len(trace) >= MAX_S:
                return trace, "..."
            cur = st
        elif isinstance(cur, int):
            cur = edges[cur][0 if val[LETTERS[cur]] else 1]
        else:
            return trace, cur


def judge_stmt(k, edges, st, acc=None):
    """Execution equivalence over the whole graph: for every truth assignment the sequence of executions of S (first
    MAX_S of them) and the exit reached must be the same in the restructured graph as in the original."""
    from androguard.decompiler.writer import Writer
    _decoy()
    limit = 8 * (k + 2)
    back = any(t == 0 for p in edges for t in p) or st == 0
    key = "walk+stmt:%s" % ("back-edge-to-entry" if back else "entry-not-a-target")
    try:
        g, conds, exits, node_map = restructure(k, edges, False, st)
        printed = {}
        for node in g.nodes:
            if node.type.is_cond:
                w = Writer(g, None)
                node.visit_cond(w)
                printed[node] = str(w)
    except Exception as e:      # noqa
        return key + ":exception", "k=%d edges=%s S->%s: restructuring raised %s: %s" % (k, edges, st, type(e).__name__, e)
    nmerged = sum(pattern(n).count("&&") + pattern(n).count("||") for n in printed if getattr(n, "cond", None) is not None)
    if acc is not None:
        acc.count("stmt_graphs")
        if back:
            acc.count("stmt_graphs_with_back_edge_to_entry")
        if nmerged:
            acc.count("stmt_graphs_merged")
            acc.nt_disjoint += 1
        if nmerged >= 2:
            acc.count("stmt_graphs_with_2+_merges")
            if back:
                acc.count("stmt_graphs_with_2+_merges_and_back_edge_to_entry")
        acc.outcomes.add(h8(tuple(sorted(printed.values()))))
    bad = []
    for bits in itertools.product((False, True), repeat=k):
        val = {LETTERS[i]: bits[i] for i in range(k)}
        want = trace_original(k, edges, st, val, limit)
        cur, trace, steps, end = g.entry, [], 0, None
        while end is None:
            steps += 1
            if cur not in g.nodes:
                end = "node %s which is not in the graph any more" % cur.name
            elif steps > limit:
                end = "never leaves"
            elif cur in printed:
                cur = cur.true if evaluate(printed[cur], val) else cur.false
            elif cur.type.is_return:
                end = cur.name
            else:
                trace.append(cur.name)
                if len(trace) >= MAX_S:
                    end = "..."
                else:
                    nxt = g.sucs(cur)
                    cur = nxt[0] if nxt else None
                    if cur is None:
                        end = "dead end"
        if (trace, end) != want:
            bad.append("%s: original executes %s then %s, restructured executes %s then %s"
                       % (" ".join("%s=%d" % (LETTERS[i], bits[i]) for i in range(k)), want[0], want[1], trace, end))
    if bad:
        return key, ("k=%d conditions %s, S -> %s (entry c0); after restructuring %s: %s"
                     % (k, edges, st, sorted(printed.values()), "; ".join(bad[:4])))
    return None


def run_stmt(ctx, shard, acc):
    _, k, nexits, first = shard
    for edges, st in stmt_graphs(k, nexits, first):
        res = judge_stmt(k, edges, st, acc)
        acc.n += 1
        acc.count("assignments_walked", 1 << k)
        if res:
            acc.violation(res[0], {"fam": "stmt", "k": k, "edges": edges, "S": st}, res[1])
    if k == 2:
        acc.sample({"family": "walk with a statement node", "k": 3, "edges": [[1, "X"], ["S", "X"], [0, "X"]], "S": 2})
    return acc


def run_walk(ctx, shard, acc):
    _, k, first, st, nexits = shard
    for edges in walk_graphs(k, first, st, nexits):
        for pre in (False, True):
            res = judge_walk(k, edges, pre, acc)
            acc.n += 1
            acc.count("assignments_walked", 1 << k)
            if res:
                acc.violation(res[0], {"fam": "walk", "k": k, "edges": edges, "pre": pre}, res[1])
    if k == 2:
        acc.sample({"family": "whole-graph walk", "k": 3, "edges": [[1, "X"], [2, "X"], [0, "Y"]], "pre": True})
    return acc


def run_shard(ctx, shard):
    acc = Acc()
    if shard[0] == "walk":
        return run_walk(ctx, shard, acc)
    if shard[0] == "stmt":
        return run_stmt(ctx, shard, acc)
    _, k, first, st = shard
    for edges in graphs(k, first, st):
        for key, msg in judge_graph(k, edges, acc):
            acc.violation(key, {"k": k, "edges": edges}, msg)
        if k == 3 and edges == [[1, "X"], [2, "X"], ["Y", "X"]]:
            g, _c, _e, _m = restructure(k, edges)
            node = next(n for n in g.nodes if getattr(n, "cond", None) is not None)
            acc.sample({"k": 3, "edges": edges, "merged": pattern(node), "printed_raw": print_condition(g, node, ("raw", 0, 0, 0), None)})
    return acc


def replay(ctx, w):
    if w.get("fam") == "stmt":
        res = judge_stmt(w["k"], w["edges"], w["S"])
        return res[1] if res else None
    if w.get("fam") == "walk":
        res = judge_walk(w["k"], w["edges"], w["pre"])
        return res[1] if res else None
    out = judge_graph(w["k"], w["edges"])
    return "\n".join(m for _k, m in out[:6]) if out else None


def finalize(ctx, acc):
    ex = acc.extra
    for name in ("stmt_graphs_with_2+_merges_and_back_edge_to_entry", "stmt_graphs_merged",
                 "chain_graphs_merged", "writer_swapped", "writer_did_not_swap", "walk_graphs_acyclic",
                 "walk_graphs_cyclic_inner", "walk_graphs_cyclic_back-to-head", "walk_graphs_merged_acyclic"):
        if not ex.get(name):
            acc.harness_error("vacuity: counter %s is zero" % name)
    kinds = [p for p in ("pattern_and", "pattern_or", "pattern_not_and", "pattern_not_or") if ex.get(p)]
    if len(kinds) < 2:           # which patterns appear is the implementation's choice; a single one means a dead space
        acc.harness_error("vacuity: only merge patterns %r were produced" % kinds)
    if len(acc.outcomes) < 8:
        acc.harness_error("vacuity: only %d distinct printed conditions" % len(acc.outcomes))
    # parser self-test
    v = {"A": True, "B": False, "C": True, "D": False}
    for text, want in (("(A) && (B)", False), ("(!B) && (A)", True), ("((A) || (B)) && (!C)", False), ("!A || B && C", False),
                       ("A || B && D", True), ("!(A && C)", False)):
        if evaluate(text, v) is not want:
            acc.harness_error("parser self-test failed on %r" % text)
