"""C19  Reverse post-order numbering is a valid topological order of forward edges   (engine E2).

Same graph families as C18 (gen/graphs.py): every rooted digraph on 1..4 nodes (thorough: 5), every <= 3-node graph with
edges in {absent, normal, catch}, every successor insertion order for <= 3 nodes (thorough: 4), every method CFG of
the shipped DEX files; plus HISTORIES on one Graph object (build, number, apply one -- thorough: two -- Graph API
mutation(s) {add_edge, add_catch_edge, remove_node, entry change} keeping the graph rooted, number again after each:
the numbering must be valid for the graph as it is at that moment; 'long-chain' / 'big-fan': small cores inside graphs
of more than recursionlimit/5 nodes (chain of L1 = limit//4+50 or 2*L1 nodes before/behind the core, or L1 leaves on the
entry), same three clauses; a stale but still valid numbering passes, equality
with a freshly built graph is not demanded).  The REAL `Graph.compute_rpo()` is run on a REAL Graph and `node.num` is judged semantically:

  (a) the entry has number 1;
  (b) the numbers of the n (all reachable) nodes are a permutation of 1..n;
  (c) every edge u -> v (normal or catch) with num[u] >= num[v] closes a cycle, i.e. v reaches u.  That is the
      weakest sound reading of 'numbers the source of every non-back edge lower than its target': an edge can be a
      back edge of SOME depth-first search only if its target is an ancestor-or-self of its source, which needs a path
      v ->* u.  On DAGs (c) is exactly 'topological order'.

Deliberately NOT 'equal to my DFS': any valid traversal order passes.  `Graph.rpo` (the list form of the numbering,
position + 1) is held to the same three clauses; that it lists the nodes in exactly `num` order is only counted.
"""
from mc.core import Acc
from gen import graphs as G
from gen import dadgraph as D
from ref import domtree

PROPERTY = "C19"
LEVEL = "exploration"
RULE = ("all rooted digraphs on <=4 (thorough 5) labelled nodes by edge-set bit mask; all <=3-node graphs with edges in "
        "{absent, normal, catch}; all successor insertion orders for <=3 (thorough 4) nodes; every method CFG of the "
        "shipped DEX files.  Non-trivial = at least 3 nodes and at least one edge that must go forward (target does not "
        "reach source) besides the entry's; distinct by construction (edge set x insertion order) / (file, method)")
ASSUMPTIONS = ["'non-back edge' is read as: an edge whose target cannot reach its source (necessary condition for being a "
               "back edge of any DFS); edges inside cycles are not constrained",
               "rooted graphs only (the statement); DEX CFGs with nodes unreachable from the entry are counted and skipped",
               "Graph.rpo is read as the numbering 'position + 1' and held to the same three clauses; equality of the two "
               "numberings is counted, not judged"]
MANIFEST = {
    "engine": "E2-structures",
    "technique": "exhaustive enumeration of small rooted digraphs against the semantic definition of a reverse post-order",
    "text": "Every rooted digraph up to 4 nodes (5 in the thorough tier), every <=3-node graph with normal and catch edges, "
            "every successor insertion order and every method CFG of the shipped DEX files is numbered by the real "
            "compute_rpo; the numbering must start at 1 on the entry, be a permutation of 1..n, and order every edge that "
            "cannot be a back edge (target does not reach source) forward.  Any valid traversal passes, so the check "
            "cannot alarm on an implementation change that picks another order; complete for the stated bound.",
    "note": "Trusted: the bit-set transitive closure in gen/graphs.py.  Edges inside cycles are not constrained (sound but "
            "weaker than 'equal to a DFS').",
}

NLONG = 48
CH5 = 1 << 17
CH4 = 1 << 11


def space(ctx):
    lim = D.recursion_limit()
    return {"long_chain_and_big_fan": {
                "recursion_limit_under_androguard.decompiler": lim, "L1": lim // 4 + 50, "L2": 2 * (lim // 4 + 50),
                "definition": "gen.graphs.long_cases: cores behind/before a chain of L plain nodes (quick: every rooted "
                              "core on <= 3 nodes x both modes x L1; cores on <= 2 nodes also as diamonds and with L2) "
                              "and cores whose entry has L1 extra leaf successors (quick: cores on <= 3 nodes and every "
                              "5-node 'ordered DFS tree + <= 2 extra edges' core); thorough widens to 4-node cores, "
                              "diamonds, L2, both leaf positions, tree+3",
                "note": "pristine HEAD numbers the 2600-node chains (nested generators) without RecursionError"},
            "nodes": [1, 2, 3, 4] + ([5] if ctx.thorough else []),
            "edge_sets": "all 2^(n*n) masks, kept iff every node reachable from node 0",
            "edge_kinds_for_<=3_nodes": ["absent", "normal", "catch"],
            "successor_insertion_orders": "all, for n <= %d" % (4 if ctx.thorough else 3),
            "dex_files": D.dex_files(ctx)}


def shards(ctx):
    s = [("bin", 1, 0, 2), ("bin", 2, 0, 16), ("bin", 3, 0, 512)]
    s += [("bin", 4, lo, lo + CH4) for lo in range(0, 1 << 16, CH4)]
    s += [("tri", 1, 0, 1), ("tri", 2, 0, 1)] + [("tri", 3, k, 9) for k in range(9)]
    s += [("ord", 2, 0, 16)] + [("ord", 3, lo, lo + 64) for lo in range(0, 512, 64)]
    for name in D.dex_files(ctx):
        parts = 4 if name.endswith("classes.dex") else 1
        s += [("dex", name, k, parts) for k in range(parts)]
    # size-gated code paths: a small core inside a graph of > recursionlimit/5 nodes (long chain / big fan of leaves)
    s += [("long", i, NLONG) for i in range(NLONG)]
    # histories on ONE Graph object: number, mutate through the API, number again (must be valid for the graph as it is)
    depth = 2 if ctx.thorough else 1
    s += [("hist", "bin", 1, 0, 2, 1, depth), ("hist", "bin", 2, 0, 16, 1, depth)]
    s += [("hist", "bin", 3, lo, lo + 128, 1, depth) for lo in range(0, 512, 128)]
    s += [("hist", "tri", 1, 0, 1, 1, depth), ("hist", "tri", 2, 0, 1, 1, depth)]
    s += [("hist", "tri", 3, k, 16, 4 if ctx.thorough else 1, depth) for k in range(16)]
    s += [("hist", "bin", 4, lo, lo + 4096, 1 if ctx.thorough else 8, 1) for lo in range(0, 1 << 16, 4096)]
    if ctx.thorough:
        s += [("ord", 4, lo, lo + 256) for lo in range(0, 1 << 16, 256)]
        s += [("bin", 5, lo, lo + CH5) for lo in range(0, 1 << 25, CH5)]
    return s


# ---------------------------------------------------------------------------------------------------------------
def judge(g, nodes, rows, reach, entry=0):
    """Runs the real compute_rpo and judges node.num.  reach(v) = bit set of the nodes reachable from v.
    Returns (message or None, nums or None)."""
    n = len(nodes)
    try:
        g.compute_rpo()
    except Exception as e:      # noqa
        return "compute_rpo raised %s: %s" % (type(e).__name__, e), None
    num = [nd.num for nd in nodes]
    bad = numbering_errors("node.num", num, n, rows, reach, entry)
    # Graph.rpo is the same numbering in list form (position + 1); it is held to the same three clauses, no more
    try:
        where = {id(nd): i + 1 for i, nd in enumerate(g.rpo)}
        lpos = [where.get(id(nd), 0) for nd in nodes]
        if len(g.rpo) != n:
            bad.append("Graph.rpo has %d entries for %d nodes" % (len(g.rpo), n))
        else:
            bad += numbering_errors("Graph.rpo position", lpos, n, rows, reach, entry)
    except Exception as e:      # noqa
        bad.append("Graph.rpo unusable: %s" % e)
    if bad:
        return "; ".join(bad[:6]), num
    return None, num


def numbering_errors(what, num, n, rows, reach, entry):
    bad = []
    if num[entry] != 1:
        bad.append("%s: entry has number %r, not 1" % (what, num[entry]))
    if sorted(num, key=repr) != sorted(range(1, n + 1), key=repr):
        bad.append("%s: numbers %r are not a permutation of 1..%d" % (what, num, n))
    else:
        for u in range(n):
            r = rows[u]
            while r:
                low = r & -r
                v = low.bit_length() - 1
                r ^= low
                if num[u] >= num[v] and u != v and not (reach(v) >> u) & 1:
                    bad.append("%s: edge %d->%d is numbered %d->%d but %d cannot reach %d (not a back edge of any DFS)"
                               % (what, u, v, num[u], num[v], v, u))
    return bad


def rpo_list_agrees(g, nodes):
    try:
        return [nd.num for nd in g.rpo] == list(range(1, len(nodes) + 1)) and set(g.rpo) == set(nodes)
    except Exception:       # noqa
        return False


def forced_forward(n, rows, reach):
    """(edges that the oracle forces forward not counting edges out of the entry, the same counting all edges)."""
    k = k0 = 0
    for u in range(n):
        for v in range(n):
            if u != v and (rows[u] >> v) & 1 and not (reach[v] >> u) & 1:
                if u:
                    k += 1
                else:
                    k0 += 1
    return k, k + k0


def key_of(n, rows, edges, fam):
    doms = domtree.dominator_sets(n, rows, 0)
    shp = G.shape(n, rows, doms)
    catch = any(len(e) > 2 and e[2] == "c" for e in edges)
    nk = "n%d" % n if fam != "dex" else "dex"
    return "rpo:%s:%s%s" % (nk, shp, ":catch" if catch else "")


def one_enum(acc, nodes, n, edges, fam, stats=True):
    rows = G.rows_of_edges(n, edges)
    reach = G.closure(n, rows)
    g = D.build(nodes[:n], edges)
    msg, num = judge(g, nodes[:n], rows, reach.__getitem__)
    acc.n += 1
    ff, ff_all = forced_forward(n, rows, reach)
    if n >= 3 and ff:
        acc.nt_disjoint += 1
    if num is not None:
        acc.outcomes.add(hash(tuple(num)) & 0xffffffffffff)
    if stats:
        cyc = any((reach[v] >> v) & 1 for v in range(n))
        acc.count("graphs_with_cycle" if cyc else "graphs_dag")
        if cyc and ff_all:
            acc.count("graphs_with_cycle_and_forced_forward_edges")
        acc.count("forced_forward_edges", ff_all)
        if rpo_list_agrees(g, nodes[:n]):
            acc.count("rpo_list_sorted_by_num")
    if msg:
        acc.violation(key_of(n, rows, edges, fam),
                      {"fam": "enum", "n": n, "edges": [list(e) for e in edges]},
                      "graph n=%d edges=%s (entry 0): %s" % (n, edges, msg))


def run_history(n, edges, ops):
    """One Graph object: build, compute_rpo, then for each op: mutate through the Graph API and compute_rpo again.
    Returns None or (name of the op after which the numbering is invalid | 'initial', message)."""
    nodes = D.make_nodes(n)
    g = D.build(nodes, edges)
    alive, medges, entry = list(range(n)), [(e[0], e[1], e[2] if len(e) > 2 else "n") for e in edges], 0
    rows = G.rows_of_edges(n, edges)
    msg = judge(g, nodes, rows, G.closure(n, rows).__getitem__)[0]
    if msg:
        return "initial", msg
    for i, op in enumerate(ops):
        op = tuple(op)
        D.apply_real(g, nodes, op)
        alive, medges, entry = D.apply_model(alive, medges, entry, op)
        sub_nodes, rows, sub_edges, e = D.sub_view(n, nodes, alive, medges, entry)
        msg, num = judge(g, sub_nodes, rows, G.closure(len(alive), rows).__getitem__, e)
        if msg:
            return op[0], ("graph n=%d edges=%s, numbered, then %s -> live nodes %s edges %s entry %d; numbering again on "
                           "the SAME Graph object: %s  [nodes renumbered %s]"
                           % (n, edges, [list(o) for o in ops[:i + 1]], alive, medges, entry, msg,
                              {x: k for k, x in enumerate(alive)}))
    return None


def explore_history(acc, n, edges, depth):
    alive, medges, entry = list(range(n)), [(e[0], e[1], e[2] if len(e) > 2 else "n") for e in edges], 0
    seqs = [[op] for op in D.candidate_ops(n, alive, medges, entry)]
    if depth >= 2:
        seqs2 = []
        for (op,) in seqs:
            a2, e2, en2 = D.apply_model(alive, medges, entry, op)
            seqs2 += [[op, op2] for op2 in D.candidate_ops(n, a2, e2, en2)]
        seqs += seqs2
    for ops in seqs:
        res = run_history(n, edges, ops)
        acc.n += 1
        acc.nt_disjoint += 1
        acc.count("histories")
        acc.count("history_ops_" + ops[-1][0])
        if res and res[0] == "initial":
            acc.count("histories_with_wrong_initial_answer_left_to_the_plain_families")
        elif res:
            acc.violation("rpo:after:%s" % res[0],
                          {"fam": "hist", "n": n, "edges": [list(e) for e in edges], "ops": [list(o) for o in ops]}, res[1])


def run_hist(ctx, shard, acc):
    _, fam, n, a, b, stride, depth = shard
    k = 0
    if fam == "bin":
        for mask in G.rooted_masks(n, a, b):
            k += 1
            if k % stride == 0:
                explore_history(acc, n, G.edge_list(n, mask), depth)
    else:
        for i, edges in enumerate(G.rooted_tri(n)):
            if i % b != a or not any(e[2] == "c" for e in edges):
                continue
            k += 1
            if k % stride == 0:
                explore_history(acc, n, edges, depth)
    if fam == "bin" and n == 3 and a == 0:
        acc.sample({"family": "history on one Graph object", "n": 3, "edges": [[0, 1], [1, 2]],
                    "ops": [["add_catch_edge", 0, 2]]})
    return acc


def judge_long(case, cache):
    """One long-chain / big-fan case (gen.graphs.long_cases), judged by the same three clauses.  Returns (key, msg)/None."""
    g, nodes, edges, lc = D.build_long(case, cache)
    n = lc["n"]
    rows = G.rows_of_edges(n, edges)
    memo = {}

    def reach(v):
        if v not in memo:
            memo[v] = G.reach_from(n, rows, v)
        return memo[v]
    k, ce = case["k"], [tuple(e) for e in case["core"]]
    crow = G.rows_of_edges(k, ce)
    label = "long-chain" if case["kind"] == "chain" else "big-fan"
    key = "rpo:%s:n%d:%s" % (label, k, G.shape(k, crow, domtree.dominator_sets(k, crow, 0)))
    try:
        msg, _num = judge(g, nodes, rows, reach, 0)
    except RecursionError as e:
        return key + ":recursion", "%r: RecursionError %s" % (case, e)
    if msg and "RecursionError" in msg:
        key += ":recursion"
    if msg:
        return key, ("%s graph of %d nodes, core (k=%d, edges %s%s) at index %d, %s: %s"
                     % (label, n, k, case["core"], ", every node a diamond" if case.get("diamond") else "",
                        lc["core_off"], {x: case[x] for x in ("mode", "first", "L") if x in case}, msg[:900]))
    return None


def run_long(ctx, shard, acc):
    _, part, nparts = shard
    cache = {}
    for i, case in enumerate(G.long_cases(ctx.thorough, D.recursion_limit())):
        if i % nparts != part:
            continue
        res = judge_long(case, cache)
        acc.n += 1
        acc.nt_disjoint += 1
        acc.count("long_%s_graphs" % case["kind"])
        acc.count("long_nodes_total", case["L"] + case["k"])
        if res:
            acc.violation(res[0], dict(case, fam="long"), res[1])
        if i == 300:
            acc.sample(dict(case, fam="long"))
    return acc


def run_shard(ctx, shard):
    acc = Acc()
    kind = shard[0]
    if kind == "dex":
        return run_dex(ctx, shard, acc)
    if kind == "long":
        return run_long(ctx, shard, acc)
    if kind == "hist":
        return run_hist(ctx, shard, acc)
    n = shard[1]
    nodes = D.make_nodes(n)
    if kind == "bin":
        for mask in G.rooted_masks(n, shard[2], shard[3]):
            one_enum(acc, nodes, n, G.edge_list(n, mask), "bin")
            acc.count("rooted_graphs_n%d" % n)
        if n == 4 and shard[2] == 0x7800:
            acc.sample({"n": 4, "edges": G.edge_list(4, 0x7a36), "family": "all rooted digraphs"})
    elif kind == "tri":
        for i, edges in enumerate(G.rooted_tri(n)):
            if i % shard[3] != shard[2]:
                continue
            if not any(e[2] == "c" for e in edges):
                continue
            one_enum(acc, nodes, n, edges, "tri")
            acc.count("catch_graphs_n%d" % n)
            if n == 3 and i == 9000:
                acc.sample({"n": 3, "edges": [list(e) for e in edges], "family": "normal+catch edges"})
    elif kind == "ord":
        for mask in G.rooted_masks(n, shard[2], shard[3]):
            first = True
            for edges in G.orderings(n, mask):
                one_enum(acc, nodes, n, edges, "ord", stats=False)
                acc.count("insertion_orders_n%d" % n)
                if first and n == 3 and mask == 0o736:
                    acc.sample({"n": 3, "edges": edges, "family": "every successor insertion order"})
                first = False
    return acc


def judge_dex(dm):
    """Returns (message or None, info).  construct() has already called compute_rpo; judge() calls it again on the
    finished graph (same code path as DvMethod.process after simplify)."""
    g = D.method_graph(dm)
    nodes, pos, rows, edges = D.index_graph(g)
    n = len(nodes)
    e = pos[g.entry]
    info = {"n": n, "catch": any(k == "c" for _, _, k in edges), "rooted": True, "ff": 0}
    if G.reach_from(n, rows, e) != (1 << n) - 1:
        info["rooted"] = False
        return None, info
    cache = {}

    def reach(v):                      # on demand: only edges numbered backwards are looked up
        if v not in cache:
            cache[v] = G.reach_from(n, rows, v)
        return cache[v]
    if n <= 64:
        info["ff"] = sum(1 for (u, v, _k) in edges if u != v and not (reach(v) >> u) & 1)
    else:
        info["ff"] = 1
    msg, _num = judge(g, nodes, rows, reach, e)
    return msg, info


def run_dex(ctx, shard, acc):
    _, name, part, nparts = shard
    for idx, label, dm in D.dex_methods(ctx, name):
        if idx % nparts != part:
            continue
        msg, info = judge_dex(dm)
        if not info["rooted"]:
            acc.count("dex_methods_not_rooted_skipped")
            continue
        acc.n += 1
        acc.count("dex_methods")
        acc.count("dex_nodes", info["n"])
        acc.count("forced_forward_edges", info["ff"])
        if info["n"] >= 3 and info["ff"]:
            acc.nt.add(hash((name, idx)) & 0xffffffffffff)
        if info["catch"]:
            acc.count("dex_methods_with_catch_edges")
        if msg:
            acc.violation("rpo:dex%s" % (":catch" if info["catch"] else ""),
                          {"fam": "dex", "file": name, "index": idx},
                          "%s %s (%d nodes): %s" % (name, label, info["n"], msg))
        if idx == 40 and name == "classes.dex":
            acc.sample({"dex": name, "method": label, "nodes": info["n"]})
    return acc


def replay(ctx, w):
    if w["fam"] == "long":
        res = judge_long(w, {})
        return res[1] if res else None
    if w["fam"] == "hist":
        res = run_history(w["n"], [tuple(e) for e in w["edges"]], w["ops"])
        return res[1] if res else None
    if w["fam"] == "dex":
        for idx, label, dm in D.dex_methods(ctx, w["file"]):
            if idx == w["index"]:
                return judge_dex(dm)[0]
        return "replay: method index %r not found in %s" % (w["index"], w["file"])
    n = w["n"]
    edges = [tuple(e) for e in w["edges"]]
    nodes = D.make_nodes(n)
    g = D.build(nodes, edges)
    rows = G.rows_of_edges(n, edges)
    return judge(g, nodes, rows, G.closure(n, rows).__getitem__)[0]


def finalize(ctx, acc):
    ex = acc.extra
    if len(acc.outcomes) < 10:        # 1 + 1 + 2! + 3! numberings with the entry first exist for n <= 4
        acc.harness_error("vacuity: only %d distinct numberings seen" % len(acc.outcomes))
    for name in ("graphs_dag", "graphs_with_cycle", "graphs_with_cycle_and_forced_forward_edges",
                 "forced_forward_edges", "dex_methods", "history_ops_add_edge", "history_ops_add_catch_edge",
                 "history_ops_remove_node", "history_ops_set_entry"):
        if not ex.get(name):
            acc.harness_error("vacuity: counter %s is zero" % name)
    # the oracle must be able to say no: a deliberately wrong numbering of a 3-node chain has to be rejected
    rows = G.rows_of_edges(3, [(0, 1), (1, 2)])
    reach = G.closure(3, rows).__getitem__
    if not numbering_errors("self-test", [1, 3, 2], 3, rows, reach, 0) or numbering_errors("self-test", [1, 2, 3], 3, rows, reach, 0):
        acc.harness_error("oracle self-test: numbering [1,3,2] of the chain 0->1->2 must be rejected and [1,2,3] accepted")
