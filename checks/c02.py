"""C02  Linear-sweep disassembly recovers the instruction stream and always terminates  (engines E2 + E4).

(a) valid streams (E2, exploration): sequences over a catalogue holding, for every valid opcode, one canonical and one
    'all-ones registers' encoding (const-method-handle / const-method-type with every register byte, nop), optionally
    followed by 0-2 switch / array payloads, each 4-byte aligned with nop padding and referenced by a leading 31t
    instruction.  The sweep must yield exactly the assembled list.
(b) arbitrary bytes (E4, fault enumeration): every 1-unit buffer, every 2-unit buffer (first unit exhaustive, second
    from a 16-value alphabet), every single-byte substitution (12 values) and every byte truncation of a base set of
    the streams of (a).  Under a deterministic event budget the sweep must complete or raise InvalidInstruction and
    everything it yields must have the length its own header / format fixes, lie inside the code and re-encode to the
    bytes at its offset.
Every buffer goes through the same judge: an independent reference sweep (gen/dalvik.decode + payload layout from the
specification) decides whether the buffer is a valid stream (oracle (a)) or not (oracle (b)).
"""
import os
import pickle
import struct
import sys
import traceback
import types

from mc.core import Acc, h8
from mc.budget import BudgetExceeded, TOOL
from gen import dalvik as D

PROPERTY = "C02"
LEVEL = "exploration"
RULE = ("(a) all sequences of <=2 catalogue instructions (one canonical + one all-ones-registers encoding per valid "
        "opcode, fe/ff with every register byte, nop), every catalogue instruction x every combination of 0-2 payloads "
        "(packed 0..3, sparse 0..2, fill-array width{1,2,4,8} x count{0,1,3}) with alignment nops and referencing 31t "
        "(thorough: all sequences of <=3 over a reduced catalogue x {no, each single} payload); odd-length fill-array "
        "payloads (width 1 x count 1,3,5) with alignment byte 00/01/ff, as last item or followed by an instruction, behind "
        "none or one reduced-catalogue instruction; these, the <=1 x payload streams "
        "and all <=2 sequences over the reduced catalogue again as code items of generated DEX files through "
        "EncodedMethod.get_instructions(_idx) (first, second and cached calls), DalvikCode.get_bc, DEX.disassemble; "
        "(b, fault-enumeration half) every 1-unit buffer, every 2-unit buffer over 65536 x 16 units, every single-byte "
        "substitution (12 values) and every byte truncation (declared size kept / adjusted) of a base set of (a). "
        "History: every buffer's DCode is asked again (second get_instructions, off_to_pos) and must repeat the first "
        "verdict; all 1-unit buffers are re-judged after an ODEX-mode sweep in the same process. "
        "A case is non-trivial when the buffer is non-empty; distinct by construction within a family (enumeration), "
        "measured by hashing (bytes, declared size) across families")
ASSUMPTIONS = [
    "oracle = gen/dalvik.py (opcode table, decoder, payload layout) typed in from the Dalvik specification",
    "DEX mode only (ClassManager.get_odex_format() is False)",
    "DEX-level view: the <=1-instruction x payload-combination streams and all <=2 sequences over the reduced catalogue "
    "are wrapped as code items of static methods by gen/dexgen.py (trusted writer, 200 methods per file) and read back "
    "through EncodedMethod.get_instructions / get_instructions_idx, DalvikCode.get_bc and DEX.disassemble",
    "DEX.disassemble(offset, size): size is taken as the byte count of the range (it is what read_at() reads)",
    "a buffer is a 'valid stream' when the reference sweep decodes it completely with strictly valid instructions and "
    "complete, 4-byte aligned payloads and the declared size equals the buffer; every other buffer only gets oracle (b)",
    "termination = event budget of mc/budget.py (BUDGET0 + BUDGET1 x bytes), not wall clock; a case that exceeds it is "
    "repeated once in the same process and only a second excess is a violation (one-time lazy initialisation in the "
    "library is charged to the first case that triggers it); replay makes the same two attempts",
    "history dimensions: (1) later requests on the same DCode object (get_instructions twice, then off_to_pos) must give "
    "the first sweep's verdict - judged for every buffer; (2) all 1-unit buffers again in DEX mode after an ODEX-mode "
    "sweep in the same process (forked child; witness carries the history and replay executes it)",
]
MANIFEST = {
    "engine": "E2-structures",
    "technique": "exhaustive bounded stream enumeration + exhaustive single-fault enumeration against a reference sweep",
    "text": "All instruction sequences up to the bound over a catalogue covering every valid opcode, with every bounded "
            "combination of switch/array payloads, must be recovered exactly (names, offsets, lengths, bytes, "
            "off_to_pos/get_ins_off for every offset).  All 1-unit buffers, a 2-unit product and every single-byte "
            "substitution and truncation of a base set of those streams must either sweep inside the buffer with spec "
            "lengths (payloads: from their own header fields) and exact byte round trip or raise InvalidInstruction, "
            "within a deterministic event budget.",
    "note": "Trusted: gen/dalvik.py.  Streams longer than the bound, multi-byte faults and ODEX mode are not explored; "
            "DEX-level APIs are driven on valid streams only, through DEX files written by gen/dexgen.py.",
}

BUDGET0, BUDGET1 = 4000, 400
UNIT2 = [0x0000, 0x0001, 0x0002, 0x0003, 0x0004, 0x000e, 0x00ff, 0x0100, 0x0200, 0x0300, 0x7fff, 0x8000, 0xfffe, 0xffff,
         0x1234, 0xa5c3]
SUBST = [0x00, 0x01, 0x02, 0x03, 0x04, 0x0e, 0x1a, 0x7f, 0x80, 0xfe, 0xff, 0xa5]
PAYLOAD_NAME = {0x0100: "packed-switch-payload", 0x0200: "sparse-switch-payload", 0x0300: "fill-array-data-payload"}
PAYLOAD_SHORT = {0x0100: "packed-switch", 0x0200: "sparse-switch", 0x0300: "fill-array-data"}


# ----------------------------------------------------------------------------------- reference sweep
def ref_sweep(buf, off=0):
    """-> (listing, problems); listing = [(off, name, length, feature)] of everything decodable in order from byte
    offset off; problems = [(off, class)] in order; the sweep stops at the first undecodable point."""
    n = len(buf)
    out, prob = [], []
    while off < n:
        if n - off < 2:
            prob.append((off, "odd-byte-tail"))
            break
        u0 = buf[off] | (buf[off + 1] << 8)
        if u0 in PAYLOAD_NAME:
            short = PAYLOAD_SHORT[u0]
            hdr = 4 if u0 == 0x0200 else 8
            if n - off < hdr:
                prob.append((off, "truncated-payload-header:" + short))
                break
            length = 2 * D.payload_units(buf, off)
            if off + length > n:
                prob.append((off, "truncated-payload:" + short))
                break
            if off % 4:
                prob.append((off, "misaligned-payload:" + short))
            cnt = struct.unpack_from("<H", buf, off + 2)[0] if u0 != 0x0300 else struct.unpack_from("<I", buf, off + 4)[0]
            if u0 == 0x0300:
                w = struct.unpack_from("<H", buf, off + 2)[0]
                nb = cnt * w
                feat = "%s:%s" % (PAYLOAD_NAME[u0], "empty" if nb == 0 else "even-bytes" if nb % 2 == 0 else
                                  "odd:nonzero-pad" if buf[off + 8 + nb] else "odd-bytes")
            else:
                feat = "%s:%s" % (PAYLOAD_NAME[u0], "empty" if cnt == 0 else "nonempty")
            out.append((off, PAYLOAD_NAME[u0], length, feat))
            off += length
            continue
        try:
            ins = D.decode(buf, off)
        except D.Invalid:
            op = u0 & 0xff
            if op in D.UNUSED:
                prob.append((off, "unused-opcode"))
            else:
                prob.append((off, "truncated-instruction:" + D.OPC[op][1]))
            break
        if not ins.strict_ok:
            prob.append((off, "reserved-bits:" + ins.fmt))
        if ins.op == 0xff and u0 >> 8:
            feat = "op-ff-nonzero-reg"
        elif ins.op == 0x00:
            feat = "nop"
        elif ins.fmt == "31c" and ins.ref >= 1 << 31:
            feat = "31c-index>=2^31"
        else:
            feat = "fmt-" + ins.fmt
        out.append((off, ins.name, ins.length, feat))
        off += ins.length
    return out, prob


def spec_length(buf, off):
    """Length in bytes the specification fixes for whatever starts at byte offset off: for a payload pseudo-instruction
    computed from ITS OWN header fields, for an instruction from the format table; None when there is no complete
    header / code unit or the opcode is unused (nothing may be yielded there)."""
    if off + 2 > len(buf):
        return None
    u0 = buf[off] | (buf[off + 1] << 8)
    if u0 in PAYLOAD_NAME:
        if len(buf) - off < (4 if u0 == 0x0200 else 8):
            return None
        return 2 * D.payload_units(buf, off)
    if u0 & 0xff in D.UNUSED:
        return None
    return 2 * D.units(D.OPC[u0 & 0xff][1])


def classify_at(buf, off):
    """Input-side class of what stands at byte offset off (reference view)."""
    if off % 2:
        return "odd-offset"
    lst, prob = ref_sweep(buf, off)
    if prob and prob[0][0] == off:
        return prob[0][1]
    if lst:
        return lst[0][3]
    return "end"


# ----------------------------------------------------------------------------------- environment / judge
class StubCM:
    def __init__(self, dex):
        self.packer = dex.DalvikPacker(0x12345678)

    def get_odex_format(self):
        return False


SWEEP_ONLY = ("LinearSweepAlgorithm", "DCode", "PackedSwitch", "SparseSwitch", "FillArrayData", "get_instruction",
              "get_optimized_instruction", "get_instruction_payload")


def _code_objects(mod, skip=(), only=None):
    out = []

    def walk(co):
        out.append(co)
        for c in co.co_consts:
            if isinstance(c, types.CodeType):
                walk(c)
    for obj in vars(mod).values():
        if only is not None and getattr(obj, "__name__", None) not in only:
            continue
        if isinstance(obj, types.FunctionType) and obj.__module__ == mod.__name__:
            walk(obj.__code__)
        elif isinstance(obj, type) and obj.__module__ == mod.__name__ and obj.__name__ not in skip:
            for f in vars(obj).values():
                f = getattr(f, "__func__", f)
                if isinstance(f, types.FunctionType):
                    walk(f.__code__)
                elif isinstance(f, property) and f.fget:
                    walk(f.fget.__code__)
    return out


class BudgetSession:
    """mc/budget.py's event budget (PY_START + JUMP + BRANCH events, BudgetExceeded), switched on once per shard and
    only for the code under test: every function and method of androguard.core.dex except class DCode (the budget is
    armed during the sweep only; DCode's own loops run over the finished list).  Instrumenting globally per case, as
    mc.budget.run_with_budget does, costs several times more than the ~3 M sweeps themselves.  Same events, same
    exception, same verdicts; the counter is reset per case."""
    OFF = 1 << 62

    def __init__(self, dex, only=None):
        mon = sys.monitoring
        ev = mon.events
        try:
            mon.use_tool_id(TOOL, "verif-budget")
        except ValueError:
            mon.free_tool_id(TOOL)
            mon.use_tool_id(TOOL, "verif-budget")
        self.count = 0
        self.limit = self.OFF
        self.second_attempts = 0
        self.mask = ev.PY_START | ev.JUMP | ev.BRANCH
        for e in (ev.PY_START, ev.JUMP, ev.BRANCH):
            mon.register_callback(TOOL, e, self._tick)
        # only=SWEEP_ONLY (via-DEX shards): just the sweep, the payload classes and DCode, so that loading the generated
        # DEX files is not slowed down; otherwise everything except DCode
        self.cos = _code_objects(dex, skip=() if only else ("DCode",), only=only)
        for co in self.cos:
            mon.set_local_events(TOOL, co, self.mask)

    def watch(self, fn):
        """additionally count events in fn (self-test)"""
        self.cos.append(fn.__code__)
        sys.monitoring.set_local_events(TOOL, fn.__code__, self.mask)

    def _tick(self, *_a):
        self.count += 1
        if self.count > self.limit:
            self.limit = self.OFF          # disarm before raising: handlers in the code under test must not re-trigger
            raise BudgetExceeded()

    def run2(self, fn, budget):
        """run(); a case that exceeds the budget is repeated once immediately in the same process and only exceeding it
        AGAIN counts: one-time lazy initialisation inside the library (first-use tables, caches, imports) is charged to
        whichever case triggers it first and is not input dependent; a sweep that does not terminate always exceeds."""
        r = self.run(fn, budget)
        if r[0] == "budget":
            self.second_attempts += 1
            r = self.run(fn, budget)
        return r

    def run(self, fn, budget):
        """-> (status, value, events) like mc.budget.run_with_budget"""
        self.count = 0
        self.limit = budget
        try:
            r = fn()
            return "ok", r, self.count
        except BudgetExceeded:
            return "budget", None, self.count
        except Exception as e:     # noqa
            return "exc", e, self.count
        finally:
            self.limit = self.OFF

    def close(self):
        mon = sys.monitoring
        ev = mon.events
        for co in self.cos:
            mon.set_local_events(TOOL, co, 0)
        for e in (ev.PY_START, ev.JUMP, ev.BRANCH):
            mon.register_callback(TOOL, e, None)
        mon.free_tool_id(TOOL)


class Env:
    def __init__(self, budget=True):
        from androguard.core import dex
        self.dex = dex
        self.cm = StubCM(dex)
        self.Invalid = dex.InvalidInstruction
        self.budget = BudgetSession(dex, only=SWEEP_ONLY if budget == "sweep-only" else None)

    def close(self):
        self.budget.close()


def _safe(f):
    try:
        return f()
    except Exception as e:     # noqa
        return "EXC:%s: %s" % (type(e).__name__, e)


def _verdict(fn):
    """('exc', exception class name) or ('ok', [raw bytes of every instruction])"""
    try:
        return "ok", [bytes(i.get_raw()) for i in fn()]
    except Exception as e:     # noqa
        return "exc", type(e).__name__


def _second_call(env, buf, size, status, val, got, cls, hx):
    """History on ONE code item: every request for the instructions of the same DCode object must give the verdict of
    the first sweep (same exception class or same instruction list) - get_instructions twice, then off_to_pos."""
    first = ("exc", type(val).__name__) if status == "exc" else ("ok", [bytes(i.get_raw()) for i in got])
    dc = env.dex.DCode(env.cm, 0, size, buf)
    for n, (api, fn) in enumerate((("get_instructions", lambda: list(dc.get_instructions())),
                                   ("get_instructions", lambda: list(dc.get_instructions())),
                                   ("off_to_pos", lambda: [dc.get_instructions(), dc.off_to_pos(0)][0]))):
        r = _verdict(fn)
        if r != first:
            what = "raised %s" % r[1] if r[0] == "exc" else "yielded %d instructions %s" % (len(r[1]), [x.hex() for x in r[1]])
            want = "raised %s" % first[1] if first[0] == "exc" else "yielded %d instructions" % len(first[1])
            return [("arbitrary:second-call:%s" % cls, "%s: the sweep %s, but request #%d on one DCode object (%s) %s"
                     % (hx, want, n + 1, api, what))]
    return []


def judge(env, buf, size):
    """buf: code bytes; size: declared size in 16-bit units (2*size >= len(buf)).
    -> (outcome, [(key, msg)])"""
    dex = env.dex
    n = len(buf)
    hx = "%s (declared %d units)" % (buf.hex(), size)
    listing, prob = ref_sweep(buf)
    valid = not prob and 2 * size == n
    got = []

    def sweep():
        for ins in dex.LinearSweepAlgorithm.get_instructions(env.cm, size, buf, 0):
            got.append(ins)

    def sweep2():
        del got[:]
        sweep()

    status, val, events = env.budget.run2(sweep2, BUDGET0 + BUDGET1 * n)
    v = []
    # ---- oracle (b): holds for every buffer
    off = last_off = 0
    for k, ins in enumerate(got):
        ln = _safe(ins.get_length)
        raw = _safe(ins.get_raw)
        if not isinstance(ln, int) or ln <= 0:
            v.append(("arbitrary:%s" % classify_at(buf, off), "%s: instruction #%d at %d has get_length()=%r" % (hx, k, off, ln)))
            break
        want = spec_length(buf, off)
        if ln != want:
            v.append(("arbitrary:%s" % classify_at(buf, off),
                      "%s: yielded %s at offset %d with get_length()=%d, but the header/format at that offset fixes the "
                      "length at %s bytes (code has %d bytes)" % (hx, _safe(ins.get_name), off, ln, want, n)))
            break
        if off + ln > n or not isinstance(raw, (bytes, bytearray)) or bytes(raw) != bytes(buf[off:off + ln]):
            v.append(("arbitrary:%s" % classify_at(buf, off),
                      "%s: yielded %s at offset %d with get_length()=%d (code has %d bytes), get_raw()=%s, bytes there %s"
                      % (hx, _safe(ins.get_name), off, ln, n, raw.hex() if isinstance(raw, (bytes, bytearray)) else raw,
                         bytes(buf[off:off + ln]).hex())))
            break
        last_off = off              # the last instruction that was in order (where a stuck sweep sits)
        off += ln
    if status == "budget":
        stuck = _safe(got[-1].get_raw) if got else None      # what the sweep kept yielding when it was cut
        v.append(("arbitrary:nontermination:%s" % (classify_at(bytes(stuck), 0) if isinstance(stuck, (bytes, bytearray))
                                                   else classify_at(buf, last_off)),
                  "%s: sweep exceeded the budget of %d events" % (hx, BUDGET0 + BUDGET1 * n)))
    elif status == "exc" and not isinstance(val, env.Invalid):
        v.append(("arbitrary:exception:%s" % classify_at(buf, off),
                  "%s: sweep raised %s: %s after %d instructions (offset %d)" % (hx, type(val).__name__, val, len(got), off)))
    outcome = (status if status != "exc" else type(val).__name__, len(got), prob[0][1] if prob else "valid")
    if not v and not valid and status != "budget":
        cls = prob[0][1].split(":")[0] if prob else "nonstrict"
        st2, r2, _ = env.budget.run2(lambda: _second_call(env, buf, size, status, val, got, cls, hx), 4 * (BUDGET0 + BUDGET1 * n))
        if st2 == "budget":
            v.append(("arbitrary:nontermination:second-call:%s" % cls, "%s: later requests on one DCode object exceeded %d events"
                      % (hx, 4 * (BUDGET0 + BUDGET1 * n))))
        elif st2 == "exc":
            raise r2
        else:
            v += r2
    if not valid or v:
        if v and valid:
            v = [("valid:" + k.split(":", 1)[1], m) for k, m in v]
        return outcome, v
    # ---- oracle (a): exact recovery of a valid stream
    if status != "ok":
        feat = listing[len(got)][3] if len(got) < len(listing) else "end"
        return outcome, [("valid:%s" % feat, "%s: valid stream %r rejected with InvalidInstruction after %d instructions: %s"
                          % (hx, [x[1] for x in listing], len(got), val))]
    off = 0
    for k, (roff, name, ln, feat) in enumerate(listing):
        if k >= len(got):
            return outcome, [("valid:%s:missing" % feat, "%s: sweep stopped after %d of %d instructions" % (hx, len(got), len(listing)))]
        g = got[k]
        if off != roff or g.get_length() != ln:
            return outcome, [("valid:%s:length" % listing[max(k - (off != roff), 0)][3],
                              "%s: instruction #%d at offset %d length %d; assembled %s at %d length %d"
                              % (hx, k, off, g.get_length(), name, roff, ln))]
        if _safe(g.get_name) != name:
            v.append(("valid:%s:name" % feat, "%s: instruction #%d is %r, assembled %r" % (hx, k, _safe(g.get_name), name)))
        off += ln
    if len(got) != len(listing) or off != n:
        return outcome, [("valid:end:count", "%s: %d instructions covering %d bytes, assembled %d covering %d"
                          % (hx, len(got), off, len(listing), n))]
    if v:
        return outcome, v
    # DCode view: same list, off_to_pos / get_ins_off for every byte offset (the sweeps inside count against a budget)
    st2, r2, _ = env.budget.run2(lambda: _dcode_view(env, buf, size, got, listing, hx), 4 * (BUDGET0 + BUDGET1 * n))
    if st2 == "budget":
        return outcome, [("valid:nontermination:dcode:%s" % (listing[0][3] if listing else "end"),
                          "%s: DCode requests exceeded %d events" % (hx, 4 * (BUDGET0 + BUDGET1 * n)))]
    if st2 == "exc":
        raise r2
    return outcome, r2


def _dcode_view(env, buf, size, got, listing, hx):
    n = len(buf)
    dc = env.dex.DCode(env.cm, 0, size, buf)
    try:
        lst = list(dc.get_instructions())
        if [bytes(i.get_raw()) for i in lst] != [bytes(i.get_raw()) for i in got]:
            return [("valid:dcode:list", "%s: DCode.get_instructions() differs from LinearSweepAlgorithm" % hx)]
        starts = {x[0]: k for k, x in enumerate(listing)}
        for o in range(n + 1):
            want = starts.get(o, -1)
            pos = dc.off_to_pos(o)
            io = dc.get_ins_off(o)
            if pos != want or (io is not (lst[want] if want >= 0 else None)):
                feat = listing[want][3] if want >= 0 else "between"
                return [("valid:%s:off_to_pos" % feat, "%s: off_to_pos(%d)=%r get_ins_off -> %r; instruction index there: %d"
                         % (hx, o, pos, io, want))]
        if [bytes(i.get_raw()) for i in dc.get_instructions()] != [bytes(i.get_raw()) for i in got]:
            return [("valid:second-call:%s" % (listing[0][3] if listing else "end"),
                     "%s: a later DCode.get_instructions() differs from the first" % hx)]
    except Exception as e:     # noqa
        return [("valid:dcode:exception", "%s: DCode raised %s: %s" % (hx, type(e).__name__, e))]
    return []


# ----------------------------------------------------------------------------------- valid streams through a DEX file
DEX_BATCH = 200
CODE_ITEM_HEADER = 16       # registers, ins, outs, tries (4 x u2), debug_info_off, insns_size (2 x u4)


def _view(seq):
    return [(_safe(i.get_name), _safe(i.get_length), _safe(i.get_raw)) for i in seq]


def _cmp(api, got, want, listing, hx):
    """got / want: [(name, length, raw)]; -> [(key, msg)]"""
    got = [(a, b, bytes(c) if isinstance(c, (bytes, bytearray)) else c) for a, b, c in got]
    if got == want:
        return []
    k = 0
    while k < len(got) and k < len(want) and got[k] == want[k]:
        k += 1
    feat = listing[k][3] if k < len(listing) else "end"
    return [("valid:via-dex:%s:%s" % (api, feat), "%s: %s differs from the assembled list at instruction #%d: got %r, assembled %r "
             "(%d instructions yielded, %d assembled)" % (hx, api, k, got[k] if k < len(got) else None,
                                                           want[k] if k < len(want) else None, len(got), len(want)))]


def judge_dex(env, codes):
    """codes: list of valid streams (bytes).  Each becomes the code item of a static method of one generated DEX file.
    -> [(index, key, msg)]"""
    from gen import dexgen as G
    dex = env.dex
    ms = [G.Method("m%03d" % i, "V", (), G.ACC_STATIC | G.ACC_PUBLIC, G.Code(256, 0, 0, c)) for i, c in enumerate(codes)]
    raw = G.build(G.Dex([G.Class("La/T;", dmethods=ms)]))
    try:
        vm = dex.DEX(raw)
        methods = {m.get_name(): m for m in vm.get_classes()[0].get_methods()}
    except Exception as e:     # noqa
        if len(codes) > 1:
            out = []
            for i, c in enumerate(codes):
                out += [(i, k, m) for _, k, m in judge_dex(env, [c])]
            return out or [(0, "valid:via-dex:parse:batch-only", "DEX of %d methods failed to load (%s: %s) but each method alone loads"
                            % (len(codes), type(e).__name__, e))]
        lst, _ = ref_sweep(codes[0])
        return [(0, "valid:via-dex:parse:%s" % (lst[0][3] if lst else "end"),
                 "%s: DEX with this code item failed to load: %s: %s" % (codes[0].hex(), type(e).__name__, e))]
    out = []
    for i, code in enumerate(codes):
        hx = code.hex()
        listing, prob = ref_sweep(code)
        assert not prob, (hx, prob)
        want = [(nm, ln, code[o:o + ln]) for o, nm, ln, _ in listing]
        v = []
        try:
            m = methods["m%03d" % i]
            dc = m.get_code()
            off = dc.get_off() + CODE_ITEM_HEADER
            if raw[off:off + len(code)] != code or dc.insns_size != len(code) // 2:
                out.append((i, "HARNESS", "generated DEX does not hold the code item where expected: %s at %d, insns_size %r"
                            % (hx, off, dc.insns_size)))
                continue
            feat0 = listing[0][3] if listing else "end"

            def call(api, fn):
                st, r, _ = env.budget.run2(fn, BUDGET0 + BUDGET1 * len(code))
                if st == "ok":
                    return r
                if st == "budget":
                    v.append(("valid:via-dex:%s:nontermination:%s" % (api, feat0), "%s: %s exceeded %d events"
                              % (hx, api, BUDGET0 + BUDGET1 * len(code))))
                else:
                    v.append(("valid:via-dex:%s:exception:%s" % (api, feat0), "%s: %s raised %s: %s" % (hx, api, type(r).__name__, r)))
                return None
            if i % 2:                       # odd methods: the indexed view is the first (uncached) sweep
                idx1 = call("get_instructions_idx", lambda: list(m.get_instructions_idx()))
                first = call("get_instructions", lambda: list(m.get_instructions()))
            else:
                first = call("get_instructions", lambda: list(m.get_instructions()))
                idx1 = call("get_instructions_idx", lambda: list(m.get_instructions_idx()))
            if first is not None:
                v += _cmp("get_instructions", _view(first), want, listing, hx)
            if idx1 is not None:
                v += _cmp("get_instructions_idx", _view([x[1] for x in idx1]), want, listing, hx)
                offs = [x[0] for x in idx1]
                if not v and offs != [o for o, _, _, _ in listing]:
                    k = [a == b for a, b in zip(offs, [o for o, _, _, _ in listing])].index(False)
                    v.append(("valid:via-dex:get_instructions_idx:offsets:%s" % listing[k][3],
                              "%s: get_instructions_idx offsets %r, assembled %r" % (hx, offs, [o for o, _, _, _ in listing])))
            # disassemble(offset, size): size is the number of bytes read at offset (it is also handed to DCode as the
            # size in code units, which only over-declares; the sweep then stops at the end of the bytes read)
            for api, fn in (("get_instructions-second-call", lambda: list(m.get_instructions())),
                            ("get_bc", lambda: list(dc.get_bc().get_instructions())),
                            ("disassemble", lambda: list(vm.disassemble(off, len(code))))):
                r = call(api, fn)
                if r is not None:
                    v += _cmp(api, _view(r), want, listing, hx)
            if not v:
                total = sum(x.get_length() for x in first)
                if total != 2 * dc.insns_size:
                    v.append(("valid:via-dex:insns_size:end", "%s: instructions cover %d bytes, insns_size declares %d units"
                              % (hx, total, dc.insns_size)))
        except Exception as e:     # noqa
            v.append(("valid:via-dex:get_code:exception:%s" % (listing[0][3] if listing else "end"),
                      "%s: %s: %s" % (hx, type(e).__name__, e)))
        out += [(i, k, msg) for k, msg in v]
    return out


def dex_streams(family, lo, hi):
    """The valid streams of the via-dex families by enumeration index."""
    if family == "pad":
        for k in range(lo, hi):
            yield pad_stream(k)[0]
    elif family == "pay":       # every sequence of <= 1 catalogue instruction x every combination of 1-2 payloads
        cat = catalogue()
        seqs = [[]] + [[c] for c in cat]
        pcs = payload_combos()
        for k in range(lo, hi):
            yield build_stream(seqs[k % len(seqs)], pcs[1 + k // len(seqs)])[0]
    else:                       # "red2": every sequence of <= 2 instructions over the reduced catalogue
        red = reduced_catalogue()
        n = len(red)
        for k in range(lo, hi):
            if k == 0:
                yield b""
            elif k <= n:
                yield red[k - 1][1]
            else:
                a, b = divmod(k - n - 1, n)
                yield red[a][1] + red[b][1]


PAD_COUNTS, PAD_BYTES = (1, 3, 5), (0x00, 0x01, 0xff)


def pad_stream(k):
    """Stream #k of the alignment-byte family: fill-array-data v0 ; [one reduced-catalogue instruction] ; [nop] ;
    fill-array-data-payload of width 1 and odd count whose alignment byte is 00 / 01 / ff ; [one more instruction]
    (the byte after an odd number of data bytes is not constrained by the specification; dx/d8 write 00).
    -> (code, listing)"""
    red = reduced_catalogue()
    opt = [None] + red
    k, si = divmod(k, len(opt))
    k, pi = divmod(k, len(opt))
    ci, bi = divmod(k, len(PAD_BYTES))
    items, off = [[0, "fill-array-data", None]], 6
    if opt[pi]:
        items.append([off, opt[pi][0], opt[pi][1]])
        off += len(opt[pi][1])
    if off % 4:
        items.append([off, "nop", b"\x00\x00"])
        off += 2
    items[0][2] = D.enc("fill-array-data", 0, off // 2)
    data = bytes(range(0x81, 0x81 + PAD_COUNTS[ci]))
    pay = D.fill_array_payload(1, data)[:-1] + bytes((PAD_BYTES[bi],))
    items.append([off, "fill-array-data-payload", pay])
    off += len(pay)
    if opt[si]:
        items.append([off, opt[si][0], opt[si][1]])
    return b"".join(it[2] for it in items), [(o, nm, b) for o, nm, b in items]


def n_pad_streams():
    return len(PAD_COUNTS) * len(PAD_BYTES) * (len(reduced_catalogue()) + 1) ** 2


def dex_family_sizes():
    return {"pay": (len(catalogue()) + 1) * (len(payload_combos()) - 1),
            "red2": 1 + len(reduced_catalogue()) + len(reduced_catalogue()) ** 2,
            "pad": n_pad_streams()}


# ----------------------------------------------------------------------------------- catalogue and streams
IDX, LIT, BR = 0x0012, 5, 3


def _variants(op):
    name, fmt, kind = D.OPC[op]
    if fmt in ("10x",):
        return [()]
    if fmt in ("10t", "20t", "30t"):
        return [(BR,)]
    two = {
        "12x": [(1, 2), (15, 15)], "11n": [(1, LIT), (15, LIT)], "11x": [(1,), (255,)],
        "22x": [(1, 2), (255, 0xffff)], "21t": [(1, BR), (255, BR)], "21s": [(1, LIT), (255, LIT)],
        "21h": [(1, LIT), (255, LIT)], "21c": [(1, IDX), (255, IDX)], "23x": [(1, 2, 3), (255, 255, 255)],
        "22b": [(1, 2, LIT), (255, 255, LIT)], "22t": [(1, 2, BR), (15, 15, BR)], "22s": [(1, 2, LIT), (15, 15, LIT)],
        "22c": [(1, 2, IDX), (15, 15, IDX)], "32x": [(1, 2), (0xffff, 0xffff)], "31t": [(1, BR), (255, BR)],
        "31i": [(1, LIT), (255, LIT)], "31c": [(1, IDX), (255, IDX)],
        "35c": [(IDX, [1, 2]), (IDX, [15] * 5)], "3rc": [(IDX, 1, 2), (IDX, 0xff01, 0xff)],
        "45cc": [(IDX, [1, 2], 0x13), (IDX, [15] * 5, 0x13)], "4rcc": [(IDX, 1, 2, 0x13), (IDX, 0xff01, 0xff, 0x13)],
        "51l": [(1, LIT), (255, LIT)],
    }
    return two[fmt]


def catalogue():
    """[(name, bytes)] simplest first: nop, then every opcode's canonical encoding, then all-ones, then fe/ff sweep."""
    canon, ones, regs = [], [], []
    for op in sorted(D.OPC):
        name = D.OPC[op][0]
        if op in (0xfe, 0xff):
            for r in range(256):
                regs.append((name, D.enc(op, r, 1)))
            continue
        vs = _variants(op)
        canon.append((name, D.enc(op, *vs[0])))
        if len(vs) > 1:
            ones.append((name, D.enc(op, *vs[1])))
    return canon + ones + regs


_RED = []


def reduced_catalogue():
    if not _RED:
        _RED.extend(_reduced_catalogue())
    return list(_RED)


def _reduced_catalogue():
    seen, out = set(), []
    for op in sorted(D.OPC):
        name, fmt, _ = D.OPC[op]
        if fmt in seen or op in (0xfe, 0xff):
            continue
        seen.add(fmt)
        for a in _variants(op):
            out.append((name, D.enc(op, *a)))
    out += [("const-method-handle", D.enc(0xfe, 0, 1)), ("const-method-handle", D.enc(0xfe, 5, 1)),
            ("const-method-type", D.enc(0xff, 0, 1)), ("const-method-type", D.enc(0xff, 5, 1))]
    return out


def payload_specs():
    s = [("packed", k) for k in range(4)] + [("sparse", k) for k in range(3)]
    s += [("array", w, c) for w in (1, 2, 4, 8) for c in (0, 1, 3)]
    return s


def payload_combos():
    ps = payload_specs()
    return [()] + [(p,) for p in ps] + [(p, q) for p in ps for q in ps]


_REFOP = {"packed": "packed-switch", "sparse": "sparse-switch", "array": "fill-array-data"}


def build_stream(seq, combo):
    """seq: [(name, bytes)], combo: tuple of payload specs -> (code bytes, [(off, name, bytes)])"""
    items = []
    off = 0
    ref_pos = []
    for p in combo:
        ref_pos.append(off)
        items.append([off, _REFOP[p[0]], None])
        off += 6
    first = off
    for name, b in seq:
        items.append([off, name, b])
        off += len(b)
    for k, p in enumerate(combo):
        if off % 4:
            items.append([off, "nop", b"\x00\x00"])
            off += 2
        rel = (first - ref_pos[k]) // 2
        if p[0] == "packed":
            b = D.packed_switch_payload(-1, [rel] * p[1])
            nm = "packed-switch-payload"
        elif p[0] == "sparse":
            b = D.sparse_switch_payload([-1, 7][:p[1]], [rel] * p[1])
            nm = "sparse-switch-payload"
        else:
            b = D.fill_array_payload(p[1], bytes(range(0x81, 0x81 + p[1] * p[2])))
            nm = "fill-array-data-payload"
        items[k][2] = D.enc(_REFOP[p[0]], k, (off - ref_pos[k]) // 2)
        items.append([off, nm, b])
        off += len(b)
    code = b"".join(it[2] for it in items)
    assert len(code) == off
    return code, [(o, nm, b) for o, nm, b in items]


def _bare_payload(p):
    code, lst = build_stream([], (p,))
    return lst[-1][2]


def fault_bases():
    """Base set for the fault half: every payload alone; every catalogue instruction alone; every payload combination
    (with its referencing 31t instructions and alignment nops) behind 0 / 1 instruction."""
    cat = catalogue()
    out = [_bare_payload(p) for p in payload_specs()]              # bare payloads first: smallest witnesses
    out += [build_stream([c], ())[0] for c in cat]
    mv = ("move", D.enc("move", 1, 2))
    for combo in payload_combos():
        if not combo:
            continue
        out.append(build_stream([], combo)[0])
        out.append(build_stream([mv], combo)[0])
    return out


# ----------------------------------------------------------------------------------- shards
NFAULT = 48


def _chunks(n, size):
    return [(lo, min(lo + size, n)) for lo in range(0, n, size)]


def space(ctx):
    cat, red, pc = catalogue(), reduced_catalogue(), payload_combos()
    d = {"catalogue": len(cat), "payload_specs": len(payload_specs()), "payload_combinations": len(pc),
         "valid_seq_le2": 1 + len(cat) + len(cat) ** 2, "valid_seq1_x_payloads": (len(cat) + 1) * (len(pc) - 1),
         "arbitrary_1unit": 65536, "arbitrary_2unit": 65536 * len(UNIT2), "unit2_alphabet": ["%04x" % u for u in UNIT2],
         "substitution_alphabet": ["%02x" % b for b in SUBST], "fault_base_streams": len(fault_bases()),
         "budget_events": "%d + %d x bytes" % (BUDGET0, BUDGET1)}
    d["valid_alignment_byte_streams"] = n_pad_streams()
    d["alignment_byte_family"] = {"width": 1, "counts": list(PAD_COUNTS), "alignment_bytes": ["%02x" % b for b in PAD_BYTES],
                                  "before/after": "none or one reduced-catalogue instruction"}
    d["via_dex_methods"] = dex_family_sizes()
    d["via_dex_methods_per_file"] = DEX_BATCH
    if ctx.thorough:
        d["reduced_catalogue"] = len(red)
        d["valid_seq3_reduced_x_payload01"] = len(red) ** 3 * (1 + len(payload_specs()))
    return d


def shards(ctx):
    ncat = len(catalogue())
    s = [("seq2", lo, hi) for lo, hi in _chunks(ncat, 16)]
    npc = len(payload_combos())
    s += [("pay", lo, hi) for lo, hi in _chunks(npc, 12)]
    s += [("pad", lo, hi) for lo, hi in _chunks(n_pad_streams(), 6400)]
    s += [("u1", lo, lo + 0x4000) for lo in range(0, 0x10000, 0x4000)]
    s += [("u2", lo, lo + 0x400) for lo in range(0, 0x10000, 0x400)]
    s += [("fault", r, NFAULT) for r in range(NFAULT)]
    s += [("hist", h, lo, lo + 0x4000) for h in sorted(HISTORIES) for lo in range(0, 0x10000, 0x4000)]
    for fam, n in sorted(dex_family_sizes().items()):
        s += [("dex", fam, lo, hi) for lo, hi in _chunks(n, 40 * DEX_BATCH)]
    if ctx.thorough:
        nred = len(reduced_catalogue())
        s += [("seq3", a, b) for a in range(nred) for b in range(0, nred, 8)]
    return s


HISTORIES = {"after-odex-sweep": "earlier in this process an ODEX-mode linear sweep ran"}
ODEX_HISTORY_CODE = struct.pack("<8H", 0xf9ff, 0x0001, 0x0000, 0x0002, 0xffff, 0x0003, 0x0000, 0x000e)


def run_history(env, hist):
    assert hist == "after-odex-sweep", hist

    class OdexCM(StubCM):
        def get_odex_format(self):
            return True
    seen = []
    try:
        for ins in env.dex.LinearSweepAlgorithm.get_instructions(OdexCM(env.dex), len(ODEX_HISTORY_CODE) // 2, ODEX_HISTORY_CODE, 0):
            seen.append(ins.get_name())
    except Exception as e:     # noqa
        seen.append("EXC:" + type(e).__name__)
    return seen


def _in_child(fn):
    """Run fn() in a forked child: a history changes process-global state and must not leak into the cases the pool
    worker judges afterwards."""
    r, w = os.pipe()
    pid = os.fork()
    if pid == 0:
        code = 0
        try:
            os.close(r)
            try:
                data = pickle.dumps(("ok", fn()))
            except BaseException:     # noqa
                data = pickle.dumps(("err", traceback.format_exc()))
            with os.fdopen(w, "wb") as f:
                f.write(data)
        except BaseException:     # noqa
            code = 1
        finally:
            os._exit(code)
    os.close(w)
    with os.fdopen(r, "rb") as f:
        data = f.read()
    os.waitpid(pid, 0)
    if not data:
        raise RuntimeError("history child died without a result")
    st, val = pickle.loads(data)
    if st != "ok":
        raise RuntimeError("history child failed:\n" + val)
    return val


def _run(acc, env, buf, size, family, listing=None, hist=None, before=None):
    outcome, viols = judge(env, buf, size)
    if before is not None and not hist:            # pre-history pass of a history shard: remember what fails anyway
        before.update((buf, k) for k, _ in viols)
        return
    if hist:
        outcome = outcome + (hist,)
        viols = [(k + ":" + hist, "[%s] %s" % (HISTORIES[hist], m)) for k, m in viols if (buf, k) not in (before or ())]
    acc.n += 1
    acc.count(family)
    if buf:
        acc.nt.add(h8((buf, size)))
    acc._oc.add(outcome)
    if listing is not None:
        # harness self-check: the reference sweep must see exactly what was assembled
        lst, prob = ref_sweep(buf)
        if prob or [(o, nm, ln) for o, nm, ln, _ in lst] != [(o, nm, len(b)) for o, nm, b in listing]:
            acc.harness_error("reference sweep disagrees with the assembler on %s: %r %r vs %r" % (buf.hex(), lst, prob, listing))
    for key, msg in viols:
        old = acc.viol.get(key)
        w = {"buf": buf.hex(), "size": size}
        if hist:
            w["history"] = hist
        elif ":second-call:" in key:
            w["history"] = "second-call"          # informative: the judge always makes the later requests
        acc.violation(key, w, msg)
        if old is not None and len(buf) < len(old["witness"]["buf"]) // 2:      # keep the smallest witness of the shard
            old["witness"], old["msg"] = w, str(msg)[:2000]


def _run_dex(acc, env, codes):
    acc.count("via_dex_files")
    res = judge_dex(env, codes)
    for c in codes:
        acc.n += 1
        acc.count("via_dex_methods")
        if c:
            acc.nt.add(h8(("dex", c)))
    acc._oc.add(("via-dex", len(res) > 0))
    for i, key, msg in res:
        if key == "HARNESS":
            acc.harness_error(msg)
            continue
        w = {"via_dex": [codes[i].hex()]}
        if key not in acc.viol and not any(k == key for _, k, _ in judge_dex(env, [codes[i]])):
            w = {"via_dex": [c.hex() for c in codes]}          # only reproduces inside the batch
        acc.violation(key, w, msg)


class ShardBackstop(BaseException):
    pass


def _backstop(on):
    """Harness safety net, not an oracle: every sweep runs under the event budget, but should some unbudgeted path of a
    broken tree loop anyway, the worker must die as a HARNESS-ERROR instead of eating the machine."""
    import multiprocessing
    import resource
    import signal
    if multiprocessing.current_process().name == "MainProcess":
        return
    if on:
        soft, hard = resource.getrlimit(resource.RLIMIT_AS)
        lim = 6 << 30
        resource.setrlimit(resource.RLIMIT_AS, (lim if hard == resource.RLIM_INFINITY else min(lim, hard), hard))

        def boom(*_a):
            raise ShardBackstop("shard still running after 1800 s")
        signal.signal(signal.SIGALRM, boom)
        signal.alarm(1800)
    else:
        signal.alarm(0)


def run_shard(ctx, shard):
    _backstop(True)
    try:
        return _run_shard0(ctx, shard)
    finally:
        _backstop(False)


def _run_shard0(ctx, shard):
    if shard[0] == "hist":
        return _in_child(lambda: _run_shard(ctx, shard))
    return _run_shard(ctx, shard)


def _run_shard(ctx, shard):
    env = Env(budget="sweep-only" if shard[0] == "dex" else True)
    acc = Acc()
    acc._oc = set()
    kind = shard[0]
    if kind == "hist":
        before = set()
        for u in range(shard[2], shard[3]):
            _run(acc, env, struct.pack("<H", u), 1, None, before=before)
        seen = run_history(env, shard[1])
        for u in range(shard[2], shard[3]):
            _run(acc, env, struct.pack("<H", u), 1, shard[1] + ":arbitrary_1unit", hist=shard[1], before=before)
        if shard[2] == 0:
            acc.sample({"history": shard[1], "history_observed": seen, "then": "every 1-unit buffer in DEX mode"})
    elif kind == "dex":
        batch = []
        for code in dex_streams(shard[1], shard[2], shard[3]):
            batch.append(code)
            if len(batch) == DEX_BATCH:
                _run_dex(acc, env, batch)
                batch = []
        if batch:
            _run_dex(acc, env, batch)
        if shard[2] == 0:
            acc.sample({"via_dex": "%d static methods per generated DEX; code item of the first: %s"
                        % (DEX_BATCH, next(dex_streams(shard[1], 0, 1)).hex() or "<empty>")})
    elif kind == "seq2":
        cat = catalogue()
        if shard[1] == 0:
            _run(acc, env, b"", 0, "valid_streams", [])
        for i in range(shard[1], shard[2]):
            code, lst = build_stream([cat[i]], ())
            _run(acc, env, code, len(code) // 2, "valid_streams", lst)
        for i in range(shard[1], shard[2]):
            for c2 in cat:
                code, lst = build_stream([cat[i], c2], ())
                _run(acc, env, code, len(code) // 2, "valid_streams", lst)
        if shard[1] == 0:
            acc.sample({"valid_stream": build_stream([cat[1], cat[2]], ())[0].hex()})
    elif kind == "pay":
        cat = catalogue()
        pcs = payload_combos()[shard[1]:shard[2]]
        for combo in pcs:
            if not combo:
                continue
            for seq in [[]] + [[c] for c in cat]:
                code, lst = build_stream(seq, combo)
                _run(acc, env, code, len(code) // 2, "valid_streams", lst)
        if shard[1] == 0:
            code, lst = build_stream([cat[1]], payload_combos()[25])
            acc.sample({"valid_stream_with_payloads": code.hex(), "listing": [(o, nm) for o, nm, _ in lst]})
    elif kind == "pad":
        for k in range(shard[1], shard[2]):
            code, lst = pad_stream(k)
            _run(acc, env, code, len(code) // 2, "valid_streams", lst)
            acc.count("valid_pad_streams")
        if shard[1] == 0:
            k = (len(reduced_catalogue()) + 1) ** 2 * 2 + 1
            acc.sample({"valid_stream_nonzero_alignment_byte": pad_stream(k)[0].hex(), "listing": [(o, nm) for o, nm, _ in pad_stream(k)[1]]})
    elif kind == "seq3":
        red = reduced_catalogue()
        a = red[shard[1]]
        opts = [()] + [(p,) for p in payload_specs()]
        for b in red[shard[2]:shard[2] + 8]:
            for c in red:
                for combo in opts:
                    code, lst = build_stream([a, b, c], combo)
                    _run(acc, env, code, len(code) // 2, "valid_streams", lst)
    elif kind == "u1":
        for u in range(shard[1], shard[2]):
            _run(acc, env, struct.pack("<H", u), 1, "arbitrary_1unit")
    elif kind == "u2":
        for u in range(shard[1], shard[2]):
            for w in UNIT2:
                _run(acc, env, struct.pack("<HH", u, w), 2, "arbitrary_2unit")
    elif kind == "fault":
        bases = fault_bases()[shard[1]::shard[2]]
        for base in bases:
            units = len(base) // 2
            for pos in range(len(base)):
                for b in SUBST:
                    if b != base[pos]:
                        _run(acc, env, base[:pos] + bytes((b,)) + base[pos + 1:], units, "fault_substitutions")
            for k in range(len(base)):
                _run(acc, env, base[:k], units, "fault_truncations")          # file cut short, declared size kept
                if k % 2 == 0 and k:
                    _run(acc, env, base[:k], k // 2, "fault_truncations")     # declared size cut with it
        if shard[1] == 0:
            acc.sample({"fault_base": bases[1].hex(), "faults": "every byte := each of %d values; every prefix" % len(SUBST)})
    for o in acc._oc:
        acc.outcomes.add(h8(o))
    del acc._oc
    if env.budget.second_attempts:
        acc.count("budget_second_attempts", env.budget.second_attempts)
    env.close()
    return acc


def replay(ctx, w):
    if "via_dex" in w:
        env = Env(budget="sweep-only")
        res = judge_dex(env, [bytes.fromhex(x) for x in w["via_dex"]])
        env.close()
        return "\n".join("%s: %s" % (k, m) for _, k, m in res) or None
    env = Env()
    if w.get("history") in HISTORIES:
        run_history(env, w["history"])            # fresh process: execute the history first
    _, viols = judge(env, bytes.fromhex(w["buf"]), w["size"])
    env.close()
    if viols:
        return "\n".join("%s: %s" % kv for kv in viols)
    return None


def finalize(ctx, acc):
    sp = space(ctx)
    want_valid = (sp["valid_seq_le2"] + sp["valid_seq1_x_payloads"] + sp["valid_alignment_byte_streams"]
                  + sp.get("valid_seq3_reduced_x_payload01", 0))
    if acc.extra.get("valid_streams", 0) != want_valid:
        acc.harness_error("valid streams explored %d != %d" % (acc.extra.get("valid_streams", 0), want_valid))
    if acc.extra.get("arbitrary_1unit", 0) != 65536 or acc.extra.get("arbitrary_2unit", 0) != 65536 * len(UNIT2):
        acc.harness_error("arbitrary buffers explored %r" % acc.extra)
    if acc.extra.get("via_dex_methods", 0) != sum(dex_family_sizes().values()):
        acc.harness_error("via-dex methods explored %d != %d" % (acc.extra.get("via_dex_methods", 0), sum(dex_family_sizes().values())))
    if acc.extra.get("after-odex-sweep:arbitrary_1unit", 0) != 65536:
        acc.harness_error("history dimension: %d of 65536 1-unit buffers re-judged after an ODEX sweep"
                          % acc.extra.get("after-odex-sweep:arbitrary_1unit", 0))
    if not acc.extra.get("fault_substitutions") or not acc.extra.get("fault_truncations"):
        acc.harness_error("fault half empty")
    # the budget mechanism itself must be live: a loop that never ends has to be cut
    env = Env()

    def forever():
        i = 0
        while True:
            i += 1
    env.budget.watch(forever)
    st, _, ev = env.budget.run(forever, 5000)
    # ... and the events of a real sweep must be counted (200 nops -> at least 200 constructor entries)
    got = []
    st2, _, ev2 = env.budget.run(lambda: got.extend(env.dex.LinearSweepAlgorithm.get_instructions(env.cm, 200, bytes(400), 0)), 100000)
    st3, _, ev3 = env.budget.run(lambda: list(env.dex.LinearSweepAlgorithm.get_instructions(env.cm, 200, bytes(400), 0)), 150)
    env.close()
    if st != "budget" or st2 != "ok" or len(got) != 200 or ev2 < 400 or st3 != "budget":
        acc.harness_error("budget self-test failed: endless loop -> %r after %d events; 200-nop sweep -> %r, %d events, "
                          "%d instructions; same sweep under 150 events -> %r" % (st, ev, st2, ev2, len(got), st3))
    acc.count("budget_selftest_events_200_nops", ev2)
    if len(acc.outcomes) < 40:
        acc.harness_error("vacuous: only %d distinct (status, #instructions, input class) outcomes" % len(acc.outcomes))
