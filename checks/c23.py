"""C23  Java string literals denote exactly the original string  (engine E1: finite-domain product).

Code under test: `androguard.decompiler.writer.string(s)` -- the function `Writer.visit_constant` uses to print every
const-string operand --, `Writer.visit_constant` itself on a bare Writer, and end to end through a generated DEX
(gen/dexgen.py): const-string and const-string/jumbo operands in `DvMethod.get_source()` and static String field
initialisers in `DvClass.get_source()` (decompile.py prints those with a different escaper than writer.string).

Space
  * every code point 0..0x10FFFF (surrogates included) as a one-character string            -> string()
  * every ordered pair over the 40-character boundary alphabet ALPHA                          -> string(), visit_constant
  * thorough: every ordered triple over ALPHA                                                 -> string()
  * generated DEX: "", the 40 alphabet singles, all 1600 ordered pairs and ~215 spread single code points (incl.
    non-BMP) as const-string, const-string/jumbo operands and as static String field initialisers
                                                          -> DvMethod.get_source(), DvClass.get_source()
Oracle: ref/javalex.py (JLS 3.3 unicode-escape translation with backslash parity, then JLS 3.10.5/3.10.7 escape
sequences and the well-formedness of the literal) reads the produced text back to UTF-16 code units, which must equal
the input's code units (`s.encode('utf-16-le', 'surrogatepass')`).

The model is bound to the real compiler (JDK 17 javac + java): every distinct literal text produced for all BMP
one-character strings, the pair set (thorough: the triple set), non-BMP boundary samples, and a model exerciser (all
sequences of <= 3 tokens over TOKENS, inside quotes: unicode escapes that produce backslashes, quotes and line
terminators, octal look-alikes, doubled u) are compiled; a `main` prints the code units.  javac's reading must equal
the model's, and javac must reject exactly the literals the model calls ill-formed (those are compiled one per file).
A disagreement there is a HARNESS error (the model is wrong), never a property violation.  Judging uses the
specification dialect of the model; the two places where javac 17 is observed to deviate from the specification are
modelled / excluded for the binding only and reported in the evidence notes.

Keys (input side): single:<class of the code point>, pair:<classA>+<classB>, triple:<A>+<B>+<C>, prefixed by the path
when it is not string(): visit_constant:, dex-const-string:, dex-const-string-jumbo:, field-init:.  A pair/triple that
contains a character whose one-character string is already mis-written on the same path is not reported again
(counted as `subsumed_by_single`), and a DEX const-string case that string() itself already mis-writes is counted as
`subsumed_by_string`, so one root cause in one character class gives one key per path.
"""
import itertools
import os
import re
import shutil
import subprocess
import tempfile

from mc.core import Acc
from ref import javalex

PROPERTY = "C23"
LEVEL = "exploration"
RULE = ("writer.string(chr(cp)) for every code point 0..0x10FFFF; every ordered pair (thorough: and triple) over a "
        "40-character boundary alphabet through string() and Writer.visit_constant; the alphabet singles, all pairs and "
        "~215 spread code points as const-string(/jumbo) operands and static String field initialisers of a generated DEX "
        "through DvMethod/DvClass.get_source(); each literal read back by a "
        "JLS lexer model that is itself checked against javac/java on all distinct BMP, pair and token-sequence "
        "literals; non-trivial = the literal needs an escape (input is not a plain printable ASCII character other than "
        "quote/backslash); distinct by input string (enumeration index)")
ASSUMPTIONS = [
    "ref/javalex.py is the trusted reading of a literal; it is bound to JDK 17 javac on every distinct literal text of "
    "the BMP/pair sets and on an exhaustive token-sequence exerciser, non-BMP one-character literals only at plane "
    "boundaries (the writer treats every non-BMP code point by the same arithmetic)",
    "gen/dexgen.py (independent DEX writer incl. its MUTF-8 encoder, conformance-checked) is trusted for the DEX paths; "
    "a wrong string decoded from the DEX (property C06) would surface here as a C23 violation on the dex-* paths",
    "a raw unpaired surrogate in a literal denotes itself (UTF-16 input units); such texts cannot be stored in a source "
    "file and are left out of the javac binding",
]
MANIFEST = {
    "engine": "E1-product",
    "technique": "exhaustive code-point enumeration read back by a JLS lexer model validated against javac",
    "text": "Every one of the 1,114,112 code points as a one-character string, and every ordered pair (thorough: triple) "
            "over a 40-character boundary alphabet (quotes, backslash, u, digits, hex letters, controls, DEL, Latin-1, "
            "U+FFFF, lone surrogates, non-BMP), is written by decompiler.writer.string and read back under Java's lexical "
            "rules (unicode-escape translation first, then string escapes); the denoted UTF-16 code units must be the "
            "input's.  Complete for the stated space; the lexer model is itself compared with the real javac on every "
            "distinct literal it has to read for the BMP and pair sets.",
    "note": "Trusted: ref/javalex.py (bound to javac 17 in both tiers), the JDK, and gen/dexgen.py for the paths that go "
            "through a generated DEX (const-string operands in DvMethod.get_source, static String field initialisers in "
            "DvClass.get_source; alphabet singles, all pairs, ~215 spread code points).",
}

ALPHA = ['"', "'", "\\", "u", "U", "0", "1", "2", "3", "4", "5", "6", "7", "8", "9", "a", "f", "b", "n", "s",
         "{", "}", " ", "\n", "\r", "\t", "\x08", "\x0c", "\0", "\x7f", "\x80", "\xe9", "￿",
         "\ud800", "\udbff", "\udc00", "\udfff", "\U00010000", "\U0001f600", "\U0010ffff"]
assert len(ALPHA) == 40 and len(set(ALPHA)) == 40
TOKENS = ["\\", "u", '"', "'", "0", "3", "4", "7", "8", "a", "n", "s", "\\u005c", "\\u0022", "\\u000a", "\\uu0041",
          "u0041", "\\u000d"]
N_SINGLE = 64
BLOCK = 0x110000 // N_SINGLE
N_JBMP = 4
N_JEXER = 4


def space(ctx):
    return {"single_code_points": [0, 0x10FFFF], "alphabet": ["U+%04X" % ord(c) for c in ALPHA],
            "tuples_over_alphabet": [2, 3] if ctx.thorough else [2],
            "generated_dex": {"strings": len(dex_strings()) + 1, "paths": list(DEX_PATHS),
                              "field_types": ["String", "Object", "CharSequence"], "long_string_chars": len(LONG_STRING),
                              "entry_points": ["get_source()", "get_source_ext() tokens (CONSTANT_STRING, FIELD_VALUE)",
                                               "get_ast() Literal values (the string itself or a Java literal accepted)"],
                              "decoy_history": "same names and pool, constants in reversed order, decompiled first",
                              "spread_code_points": ["U+%04X" % c for c in spread_code_points()][:12] + ["..."]},
            "javac_bound": ["all BMP one-char literals", "pair literals"] + (["triple literals"] if ctx.thorough else [])
            + ["non-BMP plane-boundary samples", "all sequences of <=3 tokens over %r" % TOKENS,
               "all sequences of <=%d tokens over %r" % (7 if ctx.thorough else 6, BS_TOKENS)]}


# ---------------------------------------------------------------------------------- classification (input side)
def cls(c):
    o = ord(c)
    if o > 0xFFFF:
        return "nonbmp"
    if 0xD800 <= o <= 0xDFFF:
        return "surrogate"
    if o >= 0x100:
        return "bmp"
    if o >= 0x80:
        return "latin1"
    if o == 0x7F:
        return "del"
    if c in "\n\r":
        return "lf-cr"
    if o < 0x20:
        return "c0-control"
    if c == '"':
        return "quote"
    if c == "'":
        return "apostrophe"
    if c == "\\":
        return "backslash"
    return "ascii"


def cls_ctx(c):
    """Finer classes for characters inside a pair: what matters is what the character could combine into."""
    k = cls(c)
    if k == "ascii":
        if c in "uU":
            return "u"
        if c in "01234567":
            return "octdigit"
        if c in "89abcdefABCDEF":
            return "hexdigit"
        if c in "ntsr":
            return "escape-letter"
    return k


def _fns():
    from androguard.decompiler import writer

    def via_writer(s):
        w = writer.Writer(None, None)
        w.visit_constant(s)
        return str(w)
    return {"string": writer.string, "visit_constant": via_writer}


def judge(fn, s):
    """(literal, None) if fn(s) is a literal denoting s, else (literal_or_None, message).  Shared by run_shard and replay."""
    try:
        lit = fn(s)
    except Exception as e:      # noqa
        return None, "raised %s: %s" % (type(e).__name__, e)
    if not isinstance(lit, str):
        return None, "returned %r" % (lit,)
    return judge_lit(lit, s)


def judge_lit(lit, s):
    want = javalex.utf16_units(s)
    try:
        got = javalex.read_string_literal(lit, "jls")       # the statement's "Java's lexical rules" = the specification
    except javalex.JavaLexError as e:
        return lit, "literal %s is not a well-formed Java string literal: %s" % (ascii(lit), e)
    if got != want:
        return lit, "literal %s denotes code units [%s], the constant is [%s]" % (
            ascii(lit), " ".join("%04x" % x for x in got), " ".join("%04x" % x for x in want))
    return lit, None


def _trivial(s):
    return all(cls(c) == "ascii" for c in s)


def check_single(fns, cp, acc):
    s = chr(cp)
    lit, bad = judge(fns["string"], s)
    acc.n += 1
    if not _trivial(s):
        acc.nt_disjoint += 1
    if bad:
        acc.violation("single:" + cls(s), {"kind": "single", "fn": "string", "cps": [cp]},
                      "string(U+%04X): %s" % (cp, bad))
    return lit


def check_tuple(fns, fname, chars, acc):
    s = "".join(chars)
    lit, bad = judge(fns[fname], s)
    acc.n += 1
    if not _trivial(s):
        acc.nt_disjoint += 1
    if bad:
        if any(judge(fns[fname], c)[1] for c in set(chars)):
            acc.count("subsumed_by_single")
        elif fname != "string" and judge(fns["string"], s)[1]:
            acc.count("subsumed_by_string")      # same input already reported for string(), the function it calls
        else:
            kind = {2: "pair", 3: "triple"}.get(len(chars), "tuple")
            pre = "" if fname == "string" else fname + ":"
            acc.violation("%s%s:%s" % (pre, kind, "+".join(cls_ctx(c) for c in chars)),
                          {"kind": kind, "fn": fname, "cps": [ord(c) for c in chars]},
                          "%s(%s): %s" % (fname, ascii(s), bad))
    return lit


# ---------------------------------------------------------------------------------- generated DEX paths
# path -> parent path (a failure with the same text as the parent's failure is counted once, under the parent)
DEX_PARENT = {"dex-const-string": None, "dex-const-string-jumbo": None, "field-init": None,
              "field-init-object": "field-init", "field-init-charsequence": "field-init",
              "ext:dex-const-string": "dex-const-string", "ext:dex-const-string-jumbo": "dex-const-string-jumbo",
              "ext:field-init": "field-init", "ext:field-init-object": "field-init-object",
              "ext:field-init-charsequence": "field-init-charsequence",
              "ast:dex-const-string": None, "ast:dex-const-string-jumbo": None, "ast:field-init": None}
DEX_PATHS = tuple(DEX_PARENT)
LONG_STRING = "".join(ALPHA) * 500            # 20000 characters, 2-byte uleb length, every alphabet adjacency
N_DEX = 16


def spread_code_points():
    s = set(range(0x11, 0x110000, 5519))
    s |= {0x7e, 0x7f, 0x80, 0xa0, 0xff, 0x100, 0x7ff, 0x800, 0x2028, 0xd7ff, 0xe000, 0xfffe, 0xffff, 0x10000, 0x1f600, 0x10ffff}
    return sorted(c for c in s if not 0xD800 <= c <= 0xDFFF and chr(c) not in ALPHA)


def dex_strings():
    """Everything but the alphabet singles (those are in every DEX, they decide subsumption)."""
    return [""] + [a + b for a in ALPHA for b in ALPHA] + [chr(c) for c in spread_code_points()]


class DexRenderError(Exception):
    pass


def _between(text, start, nxt, what):
    i = text.find(start)
    if i < 0:
        raise DexRenderError("marker %r not found in the decompiled source (%s)" % (start, what))
    j = text.find(nxt, i + len(start))
    if j < 0:
        raise DexRenderError("marker %r not found after %r (%s)" % (nxt, start, what))
    return text[i + len(start):j]


def _string_literals_of_ast(node, out):
    if isinstance(node, (list, tuple)):
        if len(node) == 3 and node[0] == "Literal" and isinstance(node[2], (list, tuple)) and tuple(node[2]) == ("java/lang/String", 0):
            out.append(node[1])
            return
        for x in node:
            _string_literals_of_ast(x, out)


def dex_render(strings):
    """Decoy history first: the same class, field and method names and the same pool, but every constant sits in
    another field / call (reversed order), pushed through every entry point, results ignored."""
    _dex_render(list(reversed(strings)))
    return _dex_render(strings)


def _dex_render(strings):
    """Build one class holding `strings` as const-string / const-string/jumbo operands and as initialisers of static
    fields declared String, Object and CharSequence; decompile it through get_source(), the get_source_ext() token
    stream and get_ast(), and cut out what is printed for each.  -> {path: [text per string]}"""
    from gen import dalvik as D, dexgen as G
    from androguard.core import dex
    from androguard.core.analysis.analysis import Analysis
    from androguard.decompiler.decompile import DvClass, DvMethod
    n = len(strings)

    def body(op, sink):
        def f(ix):
            b = b""
            for i, s in enumerate(strings):
                b += D.enc("const/16", 1, i) + D.enc(op, 0, ix.string(s))
                b += D.enc("invoke-static", ix.method("LK;", sink, "V", ("I", "Ljava/lang/String;")), [1, 0])
            return b + D.enc("return-void")
        return f
    st = G.ACC_STATIC | G.ACC_PUBLIC
    c = G.Class("Lp/S;", sfields=[G.Field("f%04d" % i, "Ljava/lang/String;", st) for i in range(n)]
                + [G.Field("g%04d" % i, "Ljava/lang/Object;", st) for i in range(n)]
                + [G.Field("h%04d" % i, "Ljava/lang/CharSequence;", st) for i in range(n)],
                static_values=[G.EV("string", s) for s in strings] * 3,
                dmethods=[G.Method("ka", "V", (), st, G.Code(2, 0, 2, body("const-string", "use"))),
                          G.Method("kb", "V", (), st, G.Code(2, 0, 2, body("const-string/jumbo", "usj")))])
    vm = dex.DEX(G.build(G.Dex([c])))
    dx = Analysis(vm)
    dc = DvClass(vm.get_classes()[0], dx)
    dc.process()
    src = dc.get_source()
    ext = dc.get_source_ext()
    da = DvClass(vm.get_classes()[0], dx)
    da.process(doAST=True)
    ast = da.get_ast()
    out = {p: [] for p in DEX_PATHS}
    msrc = {m.name: m.get_source() for m in dc.methods if isinstance(m, DvMethod)}
    for path, mname, sink in (("dex-const-string", "ka", "use"), ("dex-const-string-jumbo", "kb", "usj")):
        text = msrc.get(mname)
        if text is None:
            raise DexRenderError("method %s was not decompiled" % mname)
        for i in range(n):
            nxt = "K.%s(%d, " % (sink, i + 1) if i + 1 < n else "return;"
            t = _between(text, "K.%s(%d, " % (sink, i), nxt, path).rstrip()
            if not t.endswith(");"):
                raise DexRenderError("call %d of %s does not end in ');': %r" % (i, path, t[-20:]))
            out[path].append(t[:-2])
    for path, tname, fl, nfl in (("field-init", "String", "f", "g"), ("field-init-object", "Object", "g", "h"),
                                 ("field-init-charsequence", "CharSequence", "h", None)):
        for i in range(n):
            if i + 1 < n:
                nxt = "    public static %s %s%04d" % (tname, fl, i + 1)
            else:
                nxt = "    public static Object g0000" if nfl == "g" else "    public static CharSequence h0000" if nfl == "h" \
                    else "\n    public static void k"
            t = _between(src, "%s %s%04d = " % (tname, fl, i), nxt, path).rstrip()
            if not t.endswith(";"):
                raise DexRenderError("field initialiser %s%d does not end in ';': %r" % (fl, i, t[-20:]))
            out[path].append(t[:-1])
    # --- the token stream
    fval = {}
    for kind, toks in ext:
        if kind == "FIELD":
            d = {}
            for t in toks:
                d.setdefault(t[0], t[1])
            if "FIELD_VALUE" in d:
                if not d["FIELD_VALUE"].startswith(" = "):
                    raise DexRenderError("FIELD_VALUE token %r does not start with ' = '" % d["FIELD_VALUE"][:20])
                fval[d.get("NAME_FIELD")] = d["FIELD_VALUE"][3:]
    for path, fl in (("ext:field-init", "f"), ("ext:field-init-object", "g"), ("ext:field-init-charsequence", "h")):
        for i in range(n):
            nm = "%s%04d" % (fl, i)
            if nm not in fval:
                raise DexRenderError("no FIELD_VALUE token for field %s in get_source_ext()" % nm)
            out[path].append(fval[nm])
    mext = {m.name: m.get_source_ext() for m in dc.methods if isinstance(m, DvMethod)}
    for path, mname in (("ext:dex-const-string", "ka"), ("ext:dex-const-string-jumbo", "kb")):
        lits = [t[1] for t in mext.get(mname, ()) if t[0] == "CONSTANT_STRING"]
        if len(lits) != n:
            raise DexRenderError("%d CONSTANT_STRING tokens in the ext stream of %s for %d constants" % (len(lits), mname, n))
        out[path] = lits
    # --- the AST (values, not Java text)
    am = {m["triple"][1]: m for m in ast["methods"]}
    for path, mname in (("ast:dex-const-string", "ka"), ("ast:dex-const-string-jumbo", "kb")):
        vals = []
        _string_literals_of_ast(am[mname]["body"] if mname in am else [], vals)
        if len(vals) != n:
            raise DexRenderError("%d string literals in the AST of %s for %d constants" % (len(vals), mname, n))
        out[path] = vals
    af = {f["triple"][1]: f["expr"] for f in ast["fields"]}
    for i in range(n):
        e = af.get("f%04d" % i)
        if not (isinstance(e, (list, tuple)) and len(e) == 3 and e[0] == "Literal"):
            raise DexRenderError("AST of field f%04d has no Literal initialiser: %r" % (i, e))
        out["ast:field-init"].append(e[1])
    return out


def judge_ast_value(v, s):
    """The AST carries the constant as a value.  Accepted: the very string, or a Java literal that denotes it."""
    if isinstance(v, str) and javalex.utf16_units(v) == javalex.utf16_units(s):
        return v, None
    if not isinstance(v, str):
        return None, "the AST carries %r" % (v,)
    lit, bad = judge_lit(v, s)
    return v, (None if not bad else "the AST carries %s, which is neither the constant [%s] nor a Java literal denoting it"
               % (ascii(v), " ".join("%04x" % x for x in javalex.utf16_units(s))))


def check_dex(fns, strings, acc, count_singles=True, only=None):
    """Judge `strings` (alphabet singles are added, they decide subsumption) on the three DEX paths."""
    singles = list(ALPHA)
    allstr = singles + [s for s in strings if s not in ALPHA]
    try:
        lits = dex_render(allstr)
    except DexRenderError as e:
        acc.harness_error("generated DEX could not be read back from the source: %s" % e)
        return {}
    except Exception as e:      # noqa
        acc.violation("dex:raises", {"kind": "dex", "path": "any", "strs": [[ord(c) for c in s] for s in strings]},
                      "decompiling a class with %d string constants raised %s: %s" % (len(allstr), type(e).__name__, e))
        return {}
    allv = {}
    for path in DEX_PATHS:
        if only and path != only and DEX_PARENT.get(only) != path:
            continue
        verdict = {}
        for s, lit in zip(allstr, lits[path]):
            verdict[s] = judge_ast_value(lit, s) if path.startswith("ast:") else judge_lit(lit, s)
        allv[path] = verdict
        parent = DEX_PARENT[path]
        for k, s in enumerate(allstr):
            if k < len(singles) and not count_singles:
                continue
            acc.n += 1
            if not _trivial(s) or s == "":
                acc.nt_disjoint += 1
            acc.outcomes.add(hash((path, verdict[s][0])))
            bad = verdict[s][1]
            if not bad:
                continue
            if len(s) > 1 and any(verdict[c][1] for c in set(s)):
                acc.count("subsumed_by_single")
            elif parent and parent in allv and allv[parent][s][1] and allv[parent][s][0] == verdict[s][0]:
                acc.count("subsumed_by_parent_path")
            elif not path.startswith("ast:") and judge(fns["string"], s)[1] and judge(fns["string"], s)[0] == verdict[s][0]:
                acc.count("subsumed_by_string")      # the same wrong text string() gives: reported under single:/pair:
            else:
                # in a DEX (MUTF-8) a high+low surrogate pair and the supplementary character are the same constant
                norm = s.encode("utf-16-le", "surrogatepass").decode("utf-16-le", "surrogatepass")
                kind = {0: "empty", 1: "single", 2: "pair"}.get(len(norm), "long")
                shape = cls(norm) if len(norm) == 1 else "+".join(cls_ctx(c) for c in norm) if len(norm) == 2 else ""
                acc.violation("%s:%s%s" % (path, kind, ":" + shape if shape else ""),
                              {"kind": "dex", "path": path, "cps": [ord(c) for c in s]},
                              "%s of a generated DEX, constant %s: %s" % (path, ascii(s), bad))
    return lits


# ---------------------------------------------------------------------------------- javac binding
JAVA_MAIN_HEAD = """public class Main {
  static void dump(StringBuilder sb, String[] a) {
    for (String s : a) {
      for (int i = 0; i < s.length(); i++) { if (i > 0) sb.append(' '); sb.append(Integer.toHexString(s.charAt(i))); }
      sb.append('\\n');
    }
  }
  public static void main(String[] x) throws Exception {
    StringBuilder sb = new StringBuilder();
"""
PER_METHOD = 3000
METHODS_PER_CLASS = 4


def _run(cmd, cwd):
    return subprocess.run(cmd, cwd=cwd, capture_output=True, text=True, timeout=900,
                          env=dict(os.environ, LC_ALL="C.UTF-8", JAVA_TOOL_OPTIONS=""))


def _write(path, text):
    with open(path, "w", encoding="utf-8", errors="surrogatepass", newline="") as f:
        f.write(text)


def javac_read(literals):
    """Compile the literal texts (all expected well-formed) and return (list of code-unit lists, None) or (None, error)."""
    d = tempfile.mkdtemp(prefix="verif_c23_")
    try:
        calls, files = [], []
        per_class = PER_METHOD * METHODS_PER_CLASS
        for ci in range(0, len(literals), per_class):
            cname = "B%d" % (ci // per_class)
            src = ["public class %s {" % cname]
            chunk = literals[ci:ci + per_class]
            for mi in range(0, len(chunk), PER_METHOD):
                src.append("static String[] g%d() { return new String[] {" % (mi // PER_METHOD))
                src.extend(l + "," for l in chunk[mi:mi + PER_METHOD])
                src.append("}; }")
                calls.append("    dump(sb, %s.g%d());" % (cname, mi // PER_METHOD))
            src.append("}")
            _write(os.path.join(d, cname + ".java"), "\n".join(src) + "\n")
            files.append(cname + ".java")
        _write(os.path.join(d, "Main.java"), JAVA_MAIN_HEAD + "\n".join(calls)
               + "\n    System.out.print(sb);\n  }\n}\n")
        p = _run(["javac", "-encoding", "UTF-8", "-nowarn", "-Xmaxerrs", "50", "-J-Xmx512m", "-J-XX:TieredStopAtLevel=1",
                  "Main.java"] + files, d)
        if p.returncode != 0:
            msg = (p.stdout + p.stderr)
            m = re.search(r"^(B\d+)\.java:(\d+): error", msg, re.M)
            where = ""
            if m:
                try:
                    with open(os.path.join(d, m.group(1) + ".java"), encoding="utf-8", errors="surrogatepass") as f:
                        where = " offending line: %s" % ascii(f.read().split("\n")[int(m.group(2)) - 1])
                except Exception:      # noqa
                    pass
            return None, "javac rejected a literal the model accepts.%s\n%s" % (where, msg[:1500])
        p = _run(["java", "-Xmx512m", "-XX:TieredStopAtLevel=1", "-Xshare:auto", "-cp", ".", "Main"], d)
        if p.returncode != 0:
            return None, "java Main failed: %s" % (p.stdout + p.stderr)[:1500]
        lines = p.stdout.split("\n")
        if lines and lines[-1] == "":
            lines.pop()
        if len(lines) != len(literals):
            return None, "java printed %d lines for %d literals" % (len(lines), len(literals))
        return [[int(t, 16) for t in ln.split(" ")] if ln else [] for ln in lines], None
    finally:
        shutil.rmtree(d, ignore_errors=True)


def javac_rejects(literals):
    """One compilation unit per literal text; returns (set of indices javac found erroneous, None) or (None, error)."""
    d = tempfile.mkdtemp(prefix="verif_c23_")
    try:
        files = []
        for i, l in enumerate(literals):
            _write(os.path.join(d, "R%d.java" % i), "class R%d { static String s = %s; }\n" % (i, l))
            files.append("R%d.java" % i)
        if not files:
            return set(), None
        _write(os.path.join(d, "args"), "\n".join(files) + "\n")
        p = _run(["javac", "-encoding", "UTF-8", "-nowarn", "-Xmaxerrs", "1000000", "-J-Xmx768m",
                  "-J-XX:TieredStopAtLevel=1", "-proc:none", "@args"], d)
        out = p.stdout + p.stderr
        bad = set(int(m) for m in re.findall(r"^R(\d+)\.java:\d+: error", out, re.M))
        if p.returncode == 0 and bad:
            return None, "javac exit 0 but errors parsed"
        if p.returncode != 0 and not bad:
            return None, "javac failed without per-file errors: %s" % out[:1500]
        return bad, None
    finally:
        shutil.rmtree(d, ignore_errors=True)


def model_read(lit, dialect="javac"):
    try:
        return javalex.read_string_literal(lit, dialect)
    except javalex.JavaLexError:
        return None


# javac 17.0.x defect (observed, not in the specification): after a Unicode escape that yields a HIGH surrogate which is
# not followed by a low surrogate, the reader has peeked one unit ahead and does not restore its backslash-parity flag,
# so a directly following backslash run is mis-paired and the \uXXXX after it is read as the illegal string escape \u
# or vice versa ("\ud800\\\u0000" is rejected with 'illegal escape character' although it is a well-formed literal).
# Shape: escaped high surrogate, then either >= 2 backslashes directly followed by 'u', or an escape producing a
# backslash.  Literals of that shape are kept out of the binding and counted.
_JAVAC_HI_SURR_DEFECT = re.compile(r"\\u+[dD][89abAB][0-9a-fA-F]{2}(?:\\{2,}u|\\u+005[cC])")


def bind(acc, literals, what):
    """literals: distinct texts.  Model-valid ones are read by javac, model-invalid ones must be rejected by javac."""
    literals = sorted(set(literals))
    unstorable = [l for l in literals if javalex.has_raw_unpaired_surrogate(l)]
    if unstorable:
        acc.count("javac_binding_excluded_raw_unpaired_surrogate", len(unstorable))
        literals = [l for l in literals if not javalex.has_raw_unpaired_surrogate(l)]
    skip = [l for l in literals if _JAVAC_HI_SURR_DEFECT.search(l)]
    if skip:
        acc.count("javac_binding_excluded_known_javac_surrogate_defect", len(skip))
        literals = [l for l in literals if not _JAVAC_HI_SURR_DEFECT.search(l)]
    valid = [l for l in literals if model_read(l) is not None]
    invalid = [l for l in literals if model_read(l) is None]
    if any("\n" in l or "\r" in l for l in valid):
        acc.harness_error("model accepted a literal with a raw line terminator")
        return
    acc.count("javac_literals_read", len(valid))
    acc.count("literals_where_javac_deviates_from_jls", sum(1 for l in literals if model_read(l) != model_read(l, "jls")))
    acc.count("javac_literals_expected_rejected", len(invalid))
    if valid:
        units, err = javac_read(valid)
        if err:
            acc.harness_error("javac binding (%s): %s" % (what, err))
        else:
            for l, u in zip(valid, units):
                if u != model_read(l):
                    acc.harness_error("javac binding (%s): literal %s: javac reads [%s], model reads [%s]" % (
                        what, ascii(l), " ".join("%x" % x for x in u), " ".join("%x" % x for x in model_read(l))))
                    break
                acc.count("javac_agreements")
    if invalid:
        cap = 6000
        if len(invalid) > cap:
            acc.note("javac binding (%s): %d ill-formed literals, only the first %d compiled" % (what, len(invalid), cap))
            invalid = invalid[:cap]
        rej, err = javac_rejects(invalid)
        if err:
            acc.harness_error("javac binding (%s): %s" % (what, err))
        else:
            for i, l in enumerate(invalid):
                if i not in rej:
                    acc.harness_error("javac binding (%s): javac accepts %s which the model calls ill-formed" % (what, ascii(l)))
                    break
                acc.count("javac_agreements")


BS_TOKENS = ["\\", "\\u005c", "\\uu0041", "n"]


def exerciser(ctx):
    out = []
    for n in (1, 2, 3):
        for t in itertools.product(TOKENS, repeat=n):
            out.append('"' + "".join(t) + '"')
    for n in range(1, 8 if ctx.thorough else 7):     # backslash parity across escape-produced backslashes
        for t in itertools.product(BS_TOKENS, repeat=n):
            out.append('"' + "".join(t) + '"')
    out += ['""', '"\\377"', '"\\400"', '"\\477"', '"\\078"', '"\\b\\s\\t\\n\\f\\r\\"\\\'\\\\"', '"\\q"', '"\\u00"',
            '"\\u004g"', '"\\uuuuuu0041\\u005c\\u005c"', '"\\\\u0041"', '"\\\\\\u0041"', '"\\u005cu0041"', '"\\ud83d\\ude00"',
            '"\\uD83D"', '"\\udc00\\ud800"', '"\t"', '"\xe9€￿"', '"\U0001f600"', '"\\u005c\\u0022"',
            '"\\u005c\\u005c\\u0022"', '"\\\\u005c"', '"\\u1f600"', '"\\u005c\\u000a"', '"\\\n"', '"a', 'a"', '"a"b"']
    return out


def nonbmp_samples():
    s = [0x1F600, 0x1F60, 0x12345, 0xFFFFF]
    for plane in range(1, 17):
        b = plane << 16
        s += [b, b + 1, b + 0xFFFE, b + 0xFFFF]
    return sorted(set(s))


# ---------------------------------------------------------------------------------- shards
def shards(ctx):
    s = [("jexer", i) for i in range(N_JEXER)]          # the javac-bound shards first: they are the longest
    s += [("jbmp", i) for i in range(N_JBMP)]
    s += [("jpairs",), ("jfield",)]
    if ctx.thorough:
        s += [("jtriples", i) for i in range(0, 40, 5)]
    s += [("single", i) for i in range(N_SINGLE)]
    s += [("pairs", i) for i in range(0, 40, 5)]
    s += [("dex", i) for i in range(N_DEX)]
    if ctx.thorough:
        s += [("triples", i) for i in range(40)]
    return s


def have_javac():
    return shutil.which("javac") is not None and shutil.which("java") is not None


def run_shard(ctx, shard):
    acc = Acc()
    fns = _fns()
    kind = shard[0]
    acc.count("shards:" + kind)
    if kind == "single":
        lo = shard[1] * BLOCK
        for cp in range(lo, lo + BLOCK):
            lit = check_single(fns, cp, acc)
            if cp < 0x800 or cp % 257 == 0:
                acc.outcomes.add(hash(lit))
            if cp in (0x22, 0x0A, 0xD800, 0x1F600):
                acc.sample({"input": "U+%04X" % cp, "literal": lit})
    elif kind == "pairs":
        for a in ALPHA[shard[1]:shard[1] + 5]:
            for b in ALPHA:
                for fname in ("string", "visit_constant"):
                    lit = check_tuple(fns, fname, (a, b), acc)
                    acc.outcomes.add(hash(lit))
    elif kind == "triples":
        a = ALPHA[shard[1]]
        for b in ALPHA:
            for c in ALPHA:
                lit = check_tuple(fns, "string", (a, b, c), acc)
                acc.outcomes.add(hash(lit))
    elif kind == "dex":
        lits = check_dex(fns, dex_strings()[shard[1]::N_DEX] + ([LONG_STRING] if shard[1] == 1 else []), acc,
                         count_singles=shard[1] == 0)
        if shard[1] == 0 and lits:
            k = len(ALPHA)        # the empty string is the first non-alphabet entry of shard 0
            acc.sample({"input": "U+0022 (one-character string) in a generated DEX",
                        "const-string": lits["dex-const-string"][0], "field-init": lits["field-init"][0],
                        "empty string field-init": lits["field-init"][k]})
    elif not have_javac():
        acc.harness_error("javac/java not found: the lexer model cannot be bound to the compiler")
    elif kind == "jbmp":
        per = 0x10000 // N_JBMP
        lits = []
        for cp in range(shard[1] * per, (shard[1] + 1) * per):
            lit = judge(fns["string"], chr(cp))[0]
            if lit is not None:
                lits.append(lit)
        bind(acc, lits, "BMP block %d" % shard[1])
    elif kind == "jpairs":
        lits = [judge(fns[f], a + b)[0] for a in ALPHA for b in ALPHA for f in ("string", "visit_constant")]
        lits += [judge(fns["string"], chr(cp))[0] for cp in nonbmp_samples()]
        bind(acc, [l for l in lits if l is not None], "pairs + non-BMP samples")
    elif kind == "jfield":
        acc2 = Acc()
        lits = check_dex(fns, dex_strings(), acc2)
        acc.harness_errors += acc2.harness_errors
        if lits:
            bind(acc, lits["field-init"] + lits["field-init-object"] + lits["field-init-charsequence"] + lits["dex-const-string"],
                 "field initialisers / const-string of a generated DEX")
    elif kind == "jtriples":
        lits = [judge(fns["string"], a + b + c)[0] for a in ALPHA[shard[1]:shard[1] + 5] for b in ALPHA for c in ALPHA]
        bind(acc, [l for l in lits if l is not None], "triples %d" % shard[1])
    elif kind == "jexer":
        bind(acc, sorted(set(exerciser(ctx)))[shard[1]::N_JEXER], "token exerciser %d" % shard[1])
    return acc


def replay(ctx, w):
    fns = _fns()
    acc = Acc()
    if w["kind"] == "single":
        check_single(fns, w["cps"][0], acc)
    elif w["kind"] == "dex":
        strs = ["".join(chr(c) for c in x) for x in (w["strs"] if "strs" in w else [w["cps"]])]
        check_dex(fns, strs, acc, only=None if w["path"] == "any" else w["path"])
        if acc.harness_errors:
            return "; ".join(acc.harness_errors)
        hit = [v["msg"] for k, v in acc.viol.items() if k == "dex:raises" or v["witness"].get("cps") == w.get("cps")]
        return "; ".join(hit) if hit else None
    else:
        check_tuple(fns, w["fn"], tuple(chr(c) for c in w["cps"]), acc)
    if acc.viol:
        return "; ".join(v["msg"] for v in acc.viol.values())
    if acc.extra.get("subsumed_by_single") or acc.extra.get("subsumed_by_string"):
        return "tuple mis-written (subsumed by a single-character / string() violation)"
    return None


# ---------------------------------------------------------------------------------- vacuity self-test
def finalize(ctx, acc):
    R = javalex.read_string_literal
    ok = {'"a"': [0x61], '"\\u0041"': [0x41], '"\\uuu0041"': [0x41], '"\\\\u0041"': [0x5C, 0x75, 0x30, 0x30, 0x34, 0x31],
          '"\\\\\\u0041"': [0x5C, 0x41], '"\\u1f600"': [0x1F60, 0x30], '"\\ud83d\\ude00"': [0xD83D, 0xDE00],
          '"\\477"': [0o47, 0x37], '"\\377"': [0xFF], '"\\u005c\\u005c"': [0x5C], '"\\u005c""': [0x22], '"\\s"': [0x20],
          '"\\0"': [0], '"\\08"': [0, 0x38], '""': []}
    for lit, want in ok.items():
        try:
            got = R(lit)
        except javalex.JavaLexError as e:
            got = "ERR %s" % e
        if got != want:
            acc.harness_error("lexer model self-test: %s read as %r, expected %r" % (lit, got, want))
    for lit in ('"\\u000a"', '"\\u000d"', '"\n"', '"\\u0022"', '"\\u005cu0041"', '"\\q"', '"\\u00"', '"a', 'a"', '"a"b"',
                '"\\"', '"\\\n"'):
        try:
            got = R(lit)
            acc.harness_error("lexer model self-test: ill-formed %s accepted as %r" % (ascii(lit), got))
        except javalex.JavaLexError:
            pass
    # the oracle must reject plausible wrong writers and accept a right one
    def right(s):
        return '"' + "".join({10: "\\n", 13: "\\r", 34: '\\"', 92: "\\\\"}.get(u, "\\u%04x" % u)
                             for u in javalex.utf16_units(s)) + '"'
    for fn, s, must_fire in ((right, "\U0001f600\n\"\\", False), (lambda s: '"%s"' % s, '"', True),
                             (lambda s: '"\\u000a"', "\n", True), (lambda s: '"\\u1f600"', "\U0001f600", True),
                             (lambda s: '"\\\\u0041"', "\\A", True), (lambda s: '"\\u005c\\\\uu0041"', "\\A", True),
                             (lambda s: '"\\ud800\\\\\\u0000"', "\ud800\\\0", False),
                             (lambda s: '"\\u0022"', '"', True), (lambda s: '"\\u005c\\u005c"', "\\", False)):
        if bool(judge(fn, s)[1]) != must_fire:
            acc.harness_error("oracle self-test on %s: fired=%r" % (ascii(s), not must_fire))
    want_n = 0x110000 + 2 * 1600 + (64000 if ctx.thorough else 0) + len(DEX_PATHS) * (len(ALPHA) + len(dex_strings()) + 1)
    if acc.n != want_n:
        acc.harness_error("evaluations %d != size of the stated space %d" % (acc.n, want_n))
    if len(acc.outcomes) < 1000:
        acc.harness_error("only %d distinct literals observed" % len(acc.outcomes))
    need = 0x10000 // 2
    if not acc.harness_errors and acc.extra.get("javac_agreements", 0) < need:
        acc.harness_error("javac binding covered only %d literals" % acc.extra.get("javac_agreements", 0))
    acc.note("pairs/triples containing a character whose one-character string is already mis-written are counted in "
             "subsumed_by_single, not reported under a pair key")
    acc.note("javac_agreements = number of distinct literal texts on which javac+java and ref/javalex.py agreed "
             "(read or rejected)")
    acc.note("judged by the specification's reading (ref/javalex.py dialect 'jls'). javac 17 deviates from it in two observed "
             "ways that are NOT judged: (1) a backslash produced by \\u005c pairs with a following raw backslash (modelled as "
             "dialect 'javac', counted in literals_where_javac_deviates_from_jls); (2) after an escaped unpaired high "
             "surrogate followed by a backslash javac mis-pairs backslashes and rejects e.g. \"\\ud800\\\\\\u0000\", which "
             "HEAD's writer emits for the string U+D800 U+005C U+0000 (such literals are excluded from the binding and "
             "counted in javac_binding_excluded_known_javac_surrogate_defect)")
    acc.note("get_ast(): the initialiser of a static field that is not declared String is a Dummy node in the AST "
             "(decompile.get_field_ast) - only String-declared fields are judged through the AST; the AST value is "
             "accepted as the constant itself or as a Java literal denoting it")
    if not acc.extra.get("shards:dex"):
        acc.harness_error("no generated-DEX shard ran")
