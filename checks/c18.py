"""C18  The decompiler's dominator tree is the true dominator tree   (engine E2: bounded structure enumeration).

Space: every rooted digraph (entry = node 0, all nodes reachable, self-loops allowed) on 1..4 labelled nodes
(thorough: 5 nodes, all 2^25 edge sets filtered by reachability); every rooted graph on 1..3 nodes with each ordered
pair in {absent, normal edge, catch edge}; every insertion order of the successor lists for <= 3 nodes (thorough: 4)
-- the order drives the DFS inside dom_lt; the CFG of every method of the shipped DEX files after graph.construct;
HISTORIES on one Graph object: build a <=3-node graph (normal and catch edges; a reduced 4-node set), query, apply one
(thorough: two) mutation(s) of the Graph API {add_edge, add_catch_edge, remove_node, entry change} that keep the graph
rooted, query after each: every answer must be the dominator tree of the graph as it is at that moment.
Size-gated paths: small cores embedded in graphs of more than recursionlimit/4 nodes -- behind / before a chain of
L1 = limit//4+50 or L2 = 2*L1 plain nodes (optionally every core node a diamond), or with L1 leaf successors on the
entry ('big fan'); chain, tail and leaf dominators are known analytically, the core's by the removal definition.
Structural sub-spaces of larger graphs (both tiers, complete within their definition): every rooted 5-node graph with
at most 7 edges; for 5 and 6 nodes every 'DFS spanning tree + at most 3 extra edges' graph (all ordered trees x all
sets of <= 3 non-tree pairs).
Each is built as a REAL androguard `Graph` (add_edge / add_catch_edge, real StatementBlock nodes) and
`Graph.immediate_dominators()` is compared with ref/domtree.py (definition by node removal over edges U catch edges).
"""
from mc.core import Acc
from gen import graphs as G
from gen import dadgraph as D
from ref import domtree

PROPERTY = "C18"
LEVEL = "exploration"
RULE = ("all rooted digraphs on <=4 (thorough 5) labelled nodes by edge-set bit mask; all <=3-node graphs with edges in "
        "{absent, normal, catch}; all successor insertion orders for <=3 (thorough 4) nodes; every method CFG of the "
        "shipped DEX files.  Non-trivial = at least 3 nodes and a node with >= 2 predecessors (a join); distinct by "
        "construction (enumeration index = edge set x insertion order) / by (file, method index)")
ASSUMPTIONS = ["catch edges count as ordinary edges for dominance (the statement says 'including catch edges'; "
               "Graph.all_sucs is what dom_lt walks)",
               "unreachable nodes are outside the statement (rooted graphs); in DEX CFGs only reachable nodes are judged",
               "enumerated nodes carry a fixed hash (index based) so that the iteration order of dom_lt's node sets, and "
               "with it every witness, is reproducible; for the 5/6-node sub-spaces both orders are enumerated",
               "trusted: ref/domtree.py (node-removal definition) and the bit-mask enumerator gen/graphs.py"]
MANIFEST = {
    "engine": "E2-structures",
    "technique": "exhaustive enumeration of small rooted digraphs against a definitional dominator reference",
    "text": "Every rooted digraph up to 4 nodes (5 in the thorough tier), every <=3-node graph with normal and catch edges, "
            "every successor insertion order for small graphs and every method CFG of the shipped DEX files is pushed "
            "through the real Lengauer-Tarjan code and compared node by node with dominance computed from its "
            "definition (node removal).  Irreducible and self-looping graphs are the majority of the space, which the "
            "nine hand-written graphs of the unit test cannot claim; complete for the stated bound.",
    "note": "Trusted: the 60-line reference in ref/domtree.py and the enumerator gen/graphs.py.  Graphs larger than the "
            "bound are covered only through the shipped DEX methods.",
}

SPARSE5 = 7        # every rooted 5-node graph with at most this many edges (102 262 graphs)
NLONG = 48         # shards of the long-chain / big-fan families (case index modulo)
CH5 = 1 << 17      # masks per shard for 5 nodes (256 shards)
CH4 = 1 << 11      # masks per shard for 4 nodes (32 shards)


def space(ctx):
    lim = D.recursion_limit()
    return {"long_chain_and_big_fan": {
                "recursion_limit_under_androguard.decompiler": lim, "L1": lim // 4 + 50, "L2": 2 * (lim // 4 + 50),
                "chain": "core behind (entry -> chain of L plain nodes -> core) or before (every core node -> tail of L "
                         "nodes) a chain; quick: every rooted core on <= 3 nodes x both modes x L1, every core on <= 2 "
                         "nodes x both modes x {plain, each node expanded to a diamond} x {L1, L2}; thorough: cores on "
                         "<= 3 nodes and 4-node cores with <= 5 edges x modes x plain/diamond x L1/L2, 5-node tree+<=2 "
                         "cores behind L1",
                "fan": "core whose entry also has L1 leaf successors; quick: every core on <= 3 nodes and every 'ordered "
                       "DFS tree + <= 2 extra edges' core on 5 nodes, leaves after the core edges; thorough: leaves "
                       "before/after, tree+<=3 on 5 nodes, 4-node cores with <= 6 edges",
                "note": "pristine HEAD handles the 2600- and 4000-node chains (recursive) without RecursionError"},
            "sparse_5_nodes": "every rooted digraph on 5 labelled nodes (entry 0, self-loops allowed) with at most %d "
                              "edges: all subsets of the 25 ordered pairs of size 4..%d, kept iff every node is "
                              "reachable (102 262 graphs)" % (SPARSE5, SPARSE5),
            "set_iteration_order": "sparse and tree families run twice: node sets (dom_lt's predecessor sets and buckets) "
                                   "iterating in ascending and in descending node index (fixed node hashes)",
            "tree_plus_extra_edges": "for n = 5 and n = 6: every ordered rooted tree on n nodes labelled in DFS preorder "
                                     "(Catalan(n-1) = 14 / 42 trees) x every set of at most 3 ordered pairs that are not "
                                     "tree edges (self-loops, back, forward, cross), tree edges inserted first "
                                     "(21 868 + 209 664 graphs)",
            "nodes": [1, 2, 3, 4] + ([5] if ctx.thorough else []),
            "edge_sets": "all 2^(n*n) masks, kept iff every node reachable from node 0",
            "edge_kinds_for_<=3_nodes": ["absent", "normal", "catch"],
            "successor_insertion_orders": "all, for n <= %d" % (4 if ctx.thorough else 3),
            "dex_files": D.dex_files(ctx)}


def shards(ctx):
    s = [("bin", 1, 0, 2), ("bin", 2, 0, 16), ("bin", 3, 0, 512)]
    s += [("bin", 4, lo, lo + CH4) for lo in range(0, 1 << 16, CH4)]
    s += [("tri", 1, 0, 1), ("tri", 2, 0, 1)] + [("tri", 3, k, 9) for k in range(9)]
    s += [("ord", 2, 0, 16)] + [("ord", 3, lo, lo + 64) for lo in range(0, 512, 64)]
    for name in D.dex_files(ctx):
        parts = 8 if name.endswith("classes.dex") else 1
        s += [("dex", name, k, parts) for k in range(parts)]
    # structurally defined sub-spaces of 5- and 6-node graphs (quick and thorough): complete within their definition
    s += [("sparse", 5, SPARSE5, k, 32) for k in range(32)]
    s += [("tree", 5, 3, t) for t in range(14)] + [("tree", 6, 3, t) for t in range(42)]
    # size-gated code paths: a small core inside a graph of > recursionlimit/4 nodes (long chain / big fan of leaves)
    s += [("long", i, NLONG) for i in range(NLONG)]
    # histories on ONE Graph object: query, mutate through the API, query again (the answer must follow the graph)
    depth = 2 if ctx.thorough else 1
    s += [("hist", "bin", 1, 0, 2, 1, depth), ("hist", "bin", 2, 0, 16, 1, depth)]
    s += [("hist", "bin", 3, lo, lo + 128, 1, depth) for lo in range(0, 512, 128)]
    s += [("hist", "tri", 1, 0, 1, 1, depth), ("hist", "tri", 2, 0, 1, 1, depth)]
    s += [("hist", "tri", 3, k, 16, 4 if ctx.thorough else 1, depth) for k in range(16)]
    s += [("hist", "bin", 4, lo, lo + 4096, 1 if ctx.thorough else 8, 1) for lo in range(0, 1 << 16, 4096)]
    if ctx.thorough:
        s += [("ord", 4, lo, lo + 256) for lo in range(0, 1 << 16, 256)]
        s += [("bin", 5, lo, lo + CH5) for lo in range(0, 1 << 25, CH5)]
    return s


# ---------------------------------------------------------------------------------------------------------------
def judge(g, nodes, rows, entry=0):
    """Runs the real immediate_dominators on the real Graph `g` and compares with the reference.
    Returns (message or None, reference idoms, dominator sets)."""
    n = len(nodes)
    doms = domtree.dominator_sets(n, rows, entry)
    want = domtree.idoms(n, rows, entry, doms)
    try:
        got = g.immediate_dominators()
    except Exception as e:      # noqa
        return "immediate_dominators raised %s: %s" % (type(e).__name__, e), want, doms
    pos = {nd: i for i, nd in enumerate(nodes)}
    bad = []
    for v, d in sorted(want.items()):
        nd = nodes[v]
        if nd not in got:
            bad.append("node %d: no entry in the result (expected idom %r)" % (v, d))
            continue
        gd = got[nd]
        gi = None if gd is None else pos.get(gd, "<foreign %r>" % (gd,))
        if gi != d:
            bad.append("node %d: idom %r, definition says %r" % (v, gi, d))
    if bad:
        return "; ".join(bad[:6]), want, doms
    return None, want, doms


def features(n, rows, edges, doms=None):
    if doms is None:
        doms = domtree.dominator_sets(n, rows, 0)
    shp = G.shape(n, rows, doms)
    selfloop = any((rows[u] >> u) & 1 for u in range(n))
    catch = any(len(e) > 2 and e[2] == "c" for e in edges)
    return shp, selfloop, catch


def key_of(n, rows, edges, fam):
    if fam.startswith("tree+"):
        return "idom:n%d:%s" % (n, fam)
    shp, selfloop, catch = features(n, rows, edges)
    nk = "n%d" % n if fam != "dex" else "dex"
    return "idom:%s:%s%s%s" % (nk, shp, ":selfloop" if selfloop else "", ":catch" if catch else "")


def has_join(n, rows):
    indeg = [0] * n
    for u in range(n):
        for v in range(n):
            if u != v and (rows[u] >> v) & 1:
                indeg[v] += 1
    return any(x >= 2 for x in indeg)


def one_enum(acc, nodes, n, edges, fam, stats=True, hm="asc"):
    rows = G.rows_of_edges(n, edges)
    g = D.build(nodes[:n], edges)
    msg, want, doms = judge(g, nodes[:n], rows)
    nt = n >= 3 and has_join(n, rows)
    acc.n += 1
    if nt:
        acc.nt_disjoint += 1
    acc.outcomes.add(hash(tuple(-1 if want[v] is None else want[v] for v in range(n))) & 0xffffffffffff)
    if stats:
        shp, selfloop, catch = features(n, rows, edges, doms)
        acc.count("graphs_" + shp)
        if selfloop:
            acc.count("graphs_with_self_loop")
        if catch:
            acc.count("graphs_with_catch_edge")
    if msg:
        acc.violation(key_of(n, rows, edges, fam),
                      {"fam": "enum", "n": n, "edges": [list(e) for e in edges], "hash": hm},
                      "graph n=%d edges=%s (entry 0, node sets iterate %sending): %s" % (n, edges, hm, msg))
    return want


def got_as_indices(g, nodes):
    pos = {nd: i for i, nd in enumerate(nodes)}
    try:
        return {pos.get(k, repr(k)): (None if v is None else pos.get(v, repr(v)))
                for k, v in g.immediate_dominators().items()}
    except Exception as e:      # noqa
        return "raised %s" % e


def run_history(n, edges, ops):
    """One Graph object: build, query, then for each op: mutate through the Graph API and query again.
    Returns None or (name of the op after which the answer is wrong | 'initial', message)."""
    nodes = D.make_nodes(n)
    g = D.build(nodes, edges)
    alive, medges, entry = list(range(n)), [(e[0], e[1], e[2] if len(e) > 2 else "n") for e in edges], 0
    msg = judge(g, nodes, G.rows_of_edges(n, edges))[0]
    if msg:
        return "initial", msg
    for i, op in enumerate(ops):
        op = tuple(op)
        D.apply_real(g, nodes, op)
        alive, medges, entry = D.apply_model(alive, medges, entry, op)
        sub_nodes, rows, sub_edges, e = D.sub_view(n, nodes, alive, medges, entry)
        msg = judge(g, sub_nodes, rows, e)[0]
        if msg:
            fresh_nodes = D.make_nodes(len(alive))
            fresh = D.build(fresh_nodes, sub_edges, e)
            return op[0], ("graph n=%d edges=%s, queried, then %s -> live nodes %s edges %s entry %d; second query on the "
                           "SAME Graph object: %s  [nodes renumbered %s; a freshly built Graph of that shape answers %s]"
                           % (n, edges, [list(o) for o in ops[:i + 1]], alive, medges, entry, msg,
                              {x: k for k, x in enumerate(alive)}, got_as_indices(fresh, fresh_nodes)))
    return None


def explore_history(acc, n, edges, depth):
    alive, medges, entry = list(range(n)), [(e[0], e[1], e[2] if len(e) > 2 else "n") for e in edges], 0
    seqs = [[op] for op in D.candidate_ops(n, alive, medges, entry)]
    if depth >= 2:
        seqs2 = []
        for (op,) in seqs:
            a2, e2, en2 = D.apply_model(alive, medges, entry, op)
            seqs2 += [[op, op2] for op2 in D.candidate_ops(n, a2, e2, en2)]
        seqs += seqs2
    for ops in seqs:
        res = run_history(n, edges, ops)
        acc.n += 1
        acc.nt_disjoint += 1
        acc.count("histories")
        acc.count("history_ops_" + ops[-1][0])
        if res and res[0] == "initial":
            acc.count("histories_with_wrong_initial_answer_left_to_the_plain_families")
        elif res:
            acc.violation("idom:after:%s" % res[0],
                          {"fam": "hist", "n": n, "edges": [list(e) for e in edges], "ops": [list(o) for o in ops]}, res[1])


def run_hist(ctx, shard, acc):
    _, fam, n, a, b, stride, depth = shard
    k = 0
    if fam == "bin":
        for mask in G.rooted_masks(n, a, b):
            k += 1
            if k % stride == 0:
                explore_history(acc, n, G.edge_list(n, mask), depth)
    else:
        for i, edges in enumerate(G.rooted_tri(n)):
            if i % b != a or not any(e[2] == "c" for e in edges):
                continue
            k += 1
            if k % stride == 0:
                explore_history(acc, n, edges, depth)
    if fam == "bin" and n == 3 and a == 0:
        acc.sample({"family": "history on one Graph object", "n": 3, "edges": [[0, 1], [1, 2]],
                    "ops": [["add_catch_edge", 0, 2]]})
    return acc


def core_class(k, edges):
    rows = G.rows_of_edges(k, edges)
    return "n%d:%s" % (k, G.shape(k, rows, domtree.dominator_sets(k, rows, 0)))


def judge_long(case, cache):
    """One long-chain / big-fan case.  Reference: removal definition on the small core, analytic for the chain / tail /
    leaves (idom of chain node i is node i-1, of a leaf the core entry).  Returns (key, message) or None."""
    g, nodes, edges, lc = D.build_long(case, cache)
    K = lc["K"]
    core_idoms = domtree.idoms(K, G.rows_of_edges(K, lc["core_edges"]), 0)
    want = D.long_idoms(lc, core_idoms)
    label = "long-chain" if case["kind"] == "chain" else "big-fan"
    key = "idom:%s:%s" % (label, core_class(case["k"], [tuple(e) for e in case["core"]]))
    try:
        got = g.immediate_dominators()
    except RecursionError as e:
        return key + ":recursion", "%r: immediate_dominators raised RecursionError: %s" % (case, e)
    except Exception as e:      # noqa
        return key, "%r: immediate_dominators raised %s: %s" % (case, type(e).__name__, e)
    pos = {nd: i for i, nd in enumerate(nodes)}
    bad = []
    for v in range(lc["n"]):
        d = want[v]
        gd = got.get(nodes[v], "<missing>")
        gi = gd if gd is None or gd == "<missing>" else pos.get(gd, "<foreign>")
        if gi != d:
            bad.append("node %d: idom %r, definition says %r" % (v, gi, d))
            if len(bad) >= 4:
                break
    if bad:
        return key, ("%s graph of %d nodes, core (k=%d, edges %s%s) at index %d, %s: %s"
                     % (label, lc["n"], case["k"], case["core"], ", every node a diamond" if case.get("diamond") else "",
                        lc["core_off"], {x: case[x] for x in ("mode", "first", "L") if x in case}, "; ".join(bad)))
    return None


def run_long(ctx, shard, acc):
    _, part, nparts = shard
    cache = {}
    for i, case in enumerate(G.long_cases(ctx.thorough, D.recursion_limit())):
        if i % nparts != part:
            continue
        res = judge_long(case, cache)
        acc.n += 1
        acc.nt_disjoint += 1
        acc.count("long_%s_graphs" % case["kind"])
        acc.count("long_nodes_total", case["L"] + case["k"])
        if res:
            acc.violation(res[0], dict(case, fam="long"), res[1])
        if i == 300:
            acc.sample(dict(case, fam="long"))
    return acc


def run_shard(ctx, shard):
    acc = Acc()
    kind = shard[0]
    if kind == "dex":
        return run_dex(ctx, shard, acc)
    if kind == "long":
        return run_long(ctx, shard, acc)
    if kind == "hist":
        return run_hist(ctx, shard, acc)
    n = shard[1]
    nodes = D.make_nodes(n)
    if kind == "bin":
        for mask in G.rooted_masks(n, shard[2], shard[3]):
            one_enum(acc, nodes, n, G.edge_list(n, mask), "bin")
            acc.count("rooted_graphs_n%d" % n)
        if n == 4 and shard[2] == 0x7800:
            acc.sample({"n": 4, "edges": G.edge_list(4, 0x7a36), "family": "all rooted digraphs"})
    elif kind == "tri":
        for i, edges in enumerate(G.rooted_tri(n)):
            if i % shard[3] != shard[2]:
                continue
            if not any(e[2] == "c" for e in edges):
                continue                      # all-normal graphs are the 'bin' family
            one_enum(acc, nodes, n, edges, "tri")
            acc.count("catch_graphs_n%d" % n)
            if n == 3 and i == 9000:
                acc.sample({"n": 3, "edges": [list(e) for e in edges], "family": "normal+catch edges"})
    elif kind == "sparse":
        for hm in ("asc", "desc"):          # both iteration orders of dom_lt's predecessor / bucket sets
            nodes = D.make_nodes(n, None, hm)
            for edges in G.sparse_rooted(n, shard[2], shard[3], shard[4]):
                one_enum(acc, nodes, n, edges, "bin", hm == "asc", hm)
                acc.count("sparse_graphs_n%d_x_set_order" % n)
    elif kind == "tree":
        for hm in ("asc", "desc"):
            nodes = D.make_nodes(n, None, hm)
            for edges, k in G.tree_plus(n, shard[2], shard[3]):
                one_enum(acc, nodes, n, edges, "tree+%d" % k, hm == "asc", hm)
                acc.count("tree_plus_graphs_n%d_x_set_order" % n)
        if n == 6 and shard[3] == 17:
            acc.sample({"family": "DFS tree + 3 extra edges", "n": 6,
                        "edges": [[0, 1], [1, 2], [2, 3], [1, 4], [4, 5], [0, 4], [1, 5], [5, 3]]})
    elif kind == "ord":
        for mask in G.rooted_masks(n, shard[2], shard[3]):
            first = True
            for edges in G.orderings(n, mask):
                one_enum(acc, nodes, n, edges, "ord", stats=False)
                acc.count("insertion_orders_n%d" % n)
                if first and n == 3 and mask == 0o736:
                    acc.sample({"n": 3, "edges": edges, "family": "every successor insertion order"})
                first = False
    return acc


def run_dex(ctx, shard, acc):
    _, name, part, nparts = shard
    for idx, label, dm in D.dex_methods(ctx, name):
        if idx % nparts != part:
            continue
        msg, info = judge_dex(dm)
        acc.n += 1
        acc.count("dex_methods")
        acc.count("dex_nodes", info["n"])
        if info["n"] >= 3 and info["join"]:
            acc.nt.add(hash((name, idx)) & 0xffffffffffff)
        if info["catch"]:
            acc.count("dex_methods_with_catch_edges")
        if info["unreachable"]:
            acc.count("dex_methods_with_unreachable_nodes")
        if msg:
            acc.violation("idom:dex:%s%s" % (info["shape"], ":catch" if info["catch"] else ""),
                          {"fam": "dex", "file": name, "index": idx},
                          "%s %s (%d nodes): %s" % (name, label, info["n"], msg))
        if idx == 40 and name == "classes.dex":
            acc.sample({"dex": name, "method": label, "nodes": info["n"]})
    return acc


def judge_dex(dm):
    g = D.method_graph(dm)
    nodes, pos, rows, edges = D.index_graph(g)
    n = len(nodes)
    e = pos[g.entry]
    msg, want, _ = judge(g, nodes, rows, e)
    info = {"n": n, "catch": any(k == "c" for _, _, k in edges), "unreachable": len(want) != n,
            "join": n <= 400 and has_join(n, rows), "shape": "?"}
    if msg:
        if e != 0:
            info["shape"] = "entry-not-first"
        else:
            info["shape"] = G.shape(n, rows, domtree.dominator_sets(n, rows, 0))
    return msg, info


def replay(ctx, w):
    if w["fam"] == "long":
        res = judge_long(w, {})
        return res[1] if res else None
    if w["fam"] == "hist":
        res = run_history(w["n"], [tuple(e) for e in w["edges"]], w["ops"])
        return res[1] if res else None
    if w["fam"] == "dex":
        for idx, label, dm in D.dex_methods(ctx, w["file"]):
            if idx == w["index"]:
                return judge_dex(dm)[0]
        return "replay: method index %r not found in %s" % (w["index"], w["file"])
    n = w["n"]
    edges = [tuple(e) for e in w["edges"]]
    nodes = D.make_nodes(n, None, w.get("hash", "asc"))
    g = D.build(nodes, edges)
    return judge(g, nodes, G.rows_of_edges(n, edges))[0]


def finalize(ctx, acc):
    ex = acc.extra
    if len(acc.outcomes) < 20:
        acc.harness_error("vacuity: only %d distinct dominator trees seen" % len(acc.outcomes))
    for name in ("graphs_irreducible", "graphs_reducible", "graphs_dag", "graphs_with_self_loop",
                 "graphs_with_catch_edge", "dex_methods", "history_ops_add_edge", "history_ops_add_catch_edge",
                 "history_ops_remove_node", "history_ops_set_entry"):
        if not ex.get(name):
            acc.harness_error("vacuity: counter %s is zero" % name)
    # closed form for the number of rooted digraphs is not used; cross-check the enumerator against itself instead:
    # every 3-node rooted mask must also be produced by the three-state enumerator restricted to normal edges.
    a = set(G.rooted_masks(3))
    b = set()
    for edges in G.rooted_tri(3):
        if all(e[2] == "n" for e in edges):
            m = 0
            for u, v, _ in edges:
                m |= 1 << (u * 3 + v)
            b.add(m)
    if a != b or ex.get("rooted_graphs_n3") != len(a):
        acc.harness_error("enumerator self-check failed: %d vs %d vs %r" % (len(a), len(b), ex.get("rooted_graphs_n3")))
