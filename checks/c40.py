"""C40  Disassembly and analysis agree on instruction offsets   (engine E2: bounded structure enumeration).

Space: skeletons of <= 2 (thorough: <= 3) slots over {const-string, invoke-static, new-instance, sget, goto->t,
if-eqz->t, packed-switch->{t,u}, sparse-switch->{t,u}, fill-array-data} (targets over all slots, final return-void
appended) x payload layouts
    aligned     payloads behind the final return, 4-byte aligned (nop spacer where needed)
    misaligned  payloads behind the final return at offsets 2 mod 4 (no spacer / an extra nop)
    first       goto/16 over the payloads, which PRECEDE the code: switch and fill-array-data AFTER their payload
    first-mis   the same at 2 mod 4
x {no orphan, an unreferenced packed / sparse / array payload before or after the referenced ones}
x {own payloads, every ordered pair of same-kind switches sharing ONE payload (kept when the inherited relative
targets land on instruction starts)}.
Plus skeletons of <= 2 slots (thorough: 3 over a reduced alphabet) containing at least one packed-switch / sparse-switch /
fill-array-data whose 31t offset addresses NO payload: the middle of the instruction itself, the middle of a payload
(+2 and +4 bytes), an ordinary instruction (the final return-void), the first byte behind the code, end + 4, and 2 bytes
before offset 0 -- x the 4 layouts x {no orphan, orphan packed payload before, orphan array payload after}.
Plus layout "mid" (slot 0, goto/16 over the payload tables, slot 1 ...) and the set_instructions() HISTORY family
(analyse, ONE edit of the instruction list -- prepend 1 or 2 nops, nop behind the final return, list replaced by itself
-- through EncodedMethod.set_instructions(), NEW MethodAnalysis judged against the reference decoded from the edited
bytes; keys end in ":after:set_instructions").
No-op history (plans again-*): the SAME parsed code analysed again without any edit -- a stand-alone MethodAnalysis(vm, em)
and a second Analysis(vm) over the same DEX object -- judged exactly like the first analysis (keys end in
":second-analysis"); every shipped method is likewise analysed twice.
Plus every method of the shipped DEX files (quick: classes.dex).
Oracle (ref/cfg.judge_c40 and judge_xrefs below), S = offsets EncodedMethod.get_instructions_idx() yields:
  every basic-block start is in S, every block end is in S or the end of the code;
  every key of a block's special_ins is in S and is a switch / fill-array-data instruction;
  for every switch / fill-array-data instruction at idx, get_special_ins(idx) IS (identity) the object the sweep
  yields at the offset the instruction encodes, and its keys/targets/data are those the generator put there;
  if NO payload starts at the encoded offset: get_special_ins(idx) is None or the object that starts exactly there
  (never something that starts elsewhere), and -- for encoded offsets that are 4-byte aligned -- the switch has no
  successor besides the fall-through (no case successors borrowed from some other payload);
  every offset stored in an xref (method xref_to/xref_from, field read/write, string xref_from, new-instance /
  const-class, class xref_from) is in S of the method the xref names (after Analysis.create_xref()).
Misaligned payloads are not well-formed Dalvik (the specification requires 4-byte alignment): violations that occur
only there are keyed "misaligned-payload:...".
"""
from checks import cfgcommon as CC
from gen import methods as M
from ref import cfg as R

PROPERTY = "C40"
LEVEL = "exploration"
RULE = ("skeletons of <=2 (thorough <=3) slots over a 9-kind alphabet (4 xref-producing plain kinds, goto, if, packed/sparse "
        "switch, fill-array-data) x 4 payload layouts x 6 orphan-payload variants x shared-payload variants; all methods of "
        "the shipped DEX files.  Non-trivial = more than one basic block; distinct by construction (enumeration index) / "
        "by (file, class, method)")
ASSUMPTIONS = ["trusted: gen/dalvik, gen/dexgen, gen/dexread, ref/cfg.py",
               "only MEMBERSHIP of xref offsets in the disassembler's offsets is judged (which instruction an xref names is "
               "C13-C15's subject)",
               "ClassAnalysis.xrefto entries of invoke kinds carry the CALLEE method, so their offset cannot be attributed "
               "to a method: not judged; offsets inside CFG edge tuples and ExceptionAnalysis are not listed by the statement: "
               "not judged",
               "determineNext deliberately rounds a 2-mod-4 switch offset up to the next 4-aligned offset ('skip the nop "
               "spacer', dex/__init__.py:393-405); case successors taken from a payload found THERE although the encoded "
               "offset addresses something else are counted (bogus_succ_off2mod4_not_judged) but not judged",
               "how determineNext resolves a misaligned payload (it adds alignment padding, the switch then has no case "
               "successors) is CFG content, not an offset the analysis reports: not judged here"]
MANIFEST = {
    "engine": "E2-structures",
    "technique": "exhaustive enumeration of payload layouts over small methods; offsets cross-checked against the disassembler",
    "text": "Every small method with switches, fill-array-data and xref-producing instructions is laid out with its payloads "
            "aligned, misaligned, before the code, shared between two switches and accompanied by unreferenced payloads, "
            "assembled by an independent writer and analysed (incl. create_xref) by the real code; every offset the analysis "
            "reports is looked up in the disassembler's own offset list and every payload link is compared by object identity "
            "and content with the payload the generator placed.  Shipped DEX files are swept completely.  Complete for the "
            "stated bound.",
    "note": "Trusted: gen/dalvik, gen/dexgen, gen/dexread, ref/cfg.py.  Misaligned payloads are outside well-formed Dalvik and "
            "keyed separately.",
}
_ME = "checks.c40"
SPECIAL = True
ALT_TOPICS = ("offsets",)
XREF = True
ORPHANS_BOGUS = (("K", "before"), ("A", "after"))
ORPHANS = (("K", "before"), ("K", "after"), ("S", "after"), ("A", "before"), ("A", "after"))


def plans(ctx):
    top = 3 if ctx.thorough else 2
    p = [{"id": "layouts-n%d" % n, "n": n, "kinds": "CVNFGIKSA", "layouts": M.LAYOUTS, "orphans": ORPHANS, "shared": True}
         for n in range(0, top + 1)]
    # payload tables in the middle of the code (jumped over by a goto/16)
    for n in range(1, top + 1):
        p.append({"id": "mid-n%d" % n, "n": n, "kinds": "CVNFGIKSA" if n < 3 else "VGIKSA", "layouts": ("mid",),
                  "orphans": ORPHANS_BOGUS, "shared": True})
    # history: analyse, ONE edit through set_instructions(), analyse again (keys end in :after:set_instructions)
    for n in (1, 2):
        p.append({"id": "hist-n%d" % n, "n": n, "kinds": "GIKSA", "layouts": ("aligned", "first", "mid"),
                  "history": M.EDITS})
    # no-op history: the same parsed code analysed a second / third time (keys end in :second-analysis)
    for n in (1, 2):
        p.append({"id": "again-n%d" % n, "n": n, "kinds": "VGIKSA", "layouts": M.LAYOUTS_MID, "history": ("reanalyse",)})
    p += CC.combo_plans(ctx)
    # 31t offsets at which NO payload starts (inside an instruction / a payload, at an ordinary instruction, outside the code)
    for n in (1, 2):
        p.append({"id": "bogus-n%d" % n, "n": n, "kinds": "VGKSA", "bogus": M.BOGUS, "require_bogus": True,
                  "layouts": M.LAYOUTS, "orphans": ORPHANS_BOGUS})
    if ctx.thorough:
        p.append({"id": "bogus-n3", "n": 3, "kinds": "K", "bogus": ("Kx", "Ax"), "require_bogus": True,
                  "layouts": M.LAYOUTS, "orphans": ORPHANS_BOGUS})
    return p


def space(ctx):
    d = CC.space_common(ctx, plans(ctx))
    d["layouts"] = list(M.LAYOUTS)
    d["orphan_payloads"] = [list(o) for o in ORPHANS]
    d["note"] = "plan sizes exclude the shared-payload variants (counted in evaluations)"
    return d


def shards(ctx):
    s = CC.shards_common(ctx, plans(ctx), per_shard=20000)
    s += [("shipx", name) for name in CC.shipped_names(ctx)]
    return s


def judge(acc, rm, obs, layout, ma=None, gen=True):
    v, links, skipped = R.judge_c40(rm, obs, layout)
    for k, n in skipped.items():
        acc.count(k, n)
    acc.count("payload_links_checked", links)
    for i in rm.ins:
        if i[2] in ("switch", "array") and (rm.by_off.get(i[4]) is None or rm.by_off[i[4]][2] != "payload"):
            acc.count("bogus_offsets_checked[%s]" % R.offset_class(rm, i[4]))
    acc.count("block_boundaries_checked", 2 * len(obs["blocks"]))
    if layout in ("misaligned", "first-mis") and links:
        acc.count("misaligned_links_checked", links)
    if any(i[2] in ("switch", "array") and i[4] is not None and i[4] < i[0] for i in rm.ins):
        acc.count("methods_with_backward_payload_link")
    if gen:
        sw = [i[4] for i in rm.ins if i[2] == "switch"]
        if len(sw) != len(set(sw)):
            acc.count("methods_with_shared_payload")
        ref = {i[4] for i in rm.ins if i[2] in ("switch", "array")}
        if any(i[2] == "payload" and i[0] not in ref for i in rm.ins):
            acc.count("methods_with_unreferenced_payload")
    return v


# ------------------------------------------------------------------------------------------------- xref offsets
def _xref_tuples(dx):
    """Yield (container, MethodAnalysis owning the offset, offset)."""
    for ma in dx.get_methods():
        for _c, _m, off in ma.get_xref_to():
            yield "method.xref_to", ma, off
        for _c, caller, off in ma.get_xref_from():
            yield "method.xref_from", caller, off
        for _c, _f, off in ma.get_xref_read():
            yield "method.xref_read", ma, off
        for _c, _f, off in ma.get_xref_write():
            yield "method.xref_write", ma, off
        for _c, off in ma.get_xref_new_instance():
            yield "method.xref_new_instance", ma, off
        for _c, off in ma.get_xref_const_class():
            yield "method.xref_const_class", ma, off
    for sa in dx.get_strings():
        for _c, m, off in sa.get_xref_from(with_offset=True):
            yield "string.xref_from", m, off
    for fa in dx.get_fields():
        for _c, m, off in fa.get_xref_read(with_offset=True):
            yield "field.xref_read", m, off
        for _c, m, off in fa.get_xref_write(with_offset=True):
            yield "field.xref_write", m, off
    for ca in dx.get_classes():
        for _c, refs in ca.get_xref_from().items():
            for _k, m, off in refs:
                yield "class.xref_from", m, off
        for _c, refs in ca.get_xref_to().items():
            for k, m, off in refs:
                if int(k) in (0x1c, 0x22):
                    yield "class.xref_to", m, off
        for m, off in ca.get_xref_new_instance():
            yield "class.xref_new_instance", m, off
        for m, off in ca.get_xref_const_class():
            yield "class.xref_const_class", m, off


def _check_xrefs(acc, dx):
    """-> [(key, EncodedMethod, msg)]"""
    S = {}
    out = []
    n = 0
    for cont, ma, off in _xref_tuples(dx):
        em = ma.get_method()
        if em not in S:
            try:
                S[em] = {o for o, _ in em.get_instructions_idx()}
            except Exception:       # noqa  (external method: no code)
                S[em] = None
        n += 1
        if S[em] is None or off not in S[em]:
            out.append(("xref-offset:%s" % cont, em, "%s holds offset %#x for %s, which is not an offset the disassembler "
                        "yields for that method" % (cont, off, ma)))
    acc.count("xref_offsets_checked", n)
    return out


def judge_xrefs(acc, dx, ems, builts):
    idx = {em: k for (c, n, d), em in ems.items() if n.startswith("m") and n[1:].isdigit() for k in [int(n[1:])]}
    res = []
    for key, em, msg in _check_xrefs(acc, dx):
        k = idx.get(em)
        if k is None:
            acc.harness_error("xref offset attributed to a helper method: %s" % msg)
            continue
        lay = builts[k].layout
        pre = "misaligned-payload:" if lay in ("misaligned", "first-mis") else ""
        res.append((pre + key, k, msg))
    return res


def run_extra(ctx, acc, shard, only=None):
    """('shipx', file): full Analysis + create_xref of one shipped file; xref offsets only."""
    name = shard[1]
    vm, dx, ems = CC.load(M.shipped_file(ctx.repo, name), xref=True)
    for key, em, msg in _check_xrefs(acc, dx):
        ident = [em.get_class_name(), em.get_name(), em.get_descriptor().replace(" ", "")]
        if only is not None and tuple(ident) != tuple(only):
            continue
        acc.violation(key, {"shipped": name, "method": ident, "xref": True}, "%s\n  method: %s:%s->%s%s"
                      % ((msg, name) + tuple(ident)))
    acc.n += 1
    acc.count("shipped_files_xref_swept")


def run_shard(ctx, shard):
    return CC.run_shard_common(__import__(_ME, fromlist=["x"]), ctx, shard)


def replay(ctx, w):
    return CC.replay_common(__import__(_ME, fromlist=["x"]), ctx, w)


def finalize(ctx, acc):
    for k in ["payload_links_checked", "misaligned_links_checked", "methods_with_backward_payload_link",
              "methods_with_shared_payload", "methods_with_unreferenced_payload", "xref_offsets_checked",
              "bogus_offsets_checked[inside-instruction]", "bogus_offsets_checked[inside-payload]",
              "bogus_offsets_checked[at-instruction]", "bogus_offsets_checked[outside-code]",
              "shipped_methods", "shipped_files_xref_swept"]:
        if not acc.extra.get(k):
            acc.harness_error("vacuity: counter %s is zero" % k)
    if len(acc.outcomes) < 30:
        acc.harness_error("vacuity: only %d distinct block structures observed" % len(acc.outcomes))
