"""C28  Resource tables resolve to the values they contain  (engine E2: bounded structure enumeration).

A resource model (packages -> types -> entries -> per-configuration values) is enumerated, serialised by the independent
writer gen/arscgen.py, parsed by androguard's ARSCParser, and every listing / resolution API named by the property is
compared with ref/resolver.py, which computes the expected answer from the model alone.

The full product of all dimensions is far too large, so the space is a union of five families; each family is the FULL
product of the dimensions it names, all other dimensions at a base value (family E: all pairs of all dimensions):

  A presence   1 package, 1 type, n = 1..3 entries, EVERY presence matrix entry x config over the 4 configurations
               (holes in any position, whole-hole entries, missing configurations) x chunk encoding {dense, off16, sparse}
               (+ compact entries for n <= 2; thorough: all n x {plain, compact, mixed} x trimmed trailing holes)
               + entry-area layout {reversed, rotated}: the entry structures of a chunk placed out of index order (legal:
               an offset may point anywhere in the entry area; aapt never writes it) for every matrix with n >= 2
  B kinds      every type x every ordered pair of entry encodings legal for that type (plain / compact / complex with 0-2
               items / reference, typed values) x chunk encoding x configuration set x entry flags {0, PUBLIC, WEAK, both}
  C refs       acyclic reference chains of length 1-2: source kind {plain, compact, complex item, two complex items, and
               the diamonds: a bag referencing ONE target from two items (adjacent / with a concrete item between), a bag
               reaching one target through two different intermediate entries} x
               target kind {plain, compact, complex, chain on} x target location {same type, other type, other package}
               x configuration sets of source and target (quick 5 x 5, thorough 15 x 15) x chunk encoding
  D types      every non-empty subset of the 7 types x {1, 2} packages x chunk encoding x string pool encodings
               {utf8, utf16, mixed} x type-id gap
  H history    on ONE parser object: every listing API -> one query (of 19) for something the table does not contain (absent
               locale / config / key / type / id / package) -> every listing API again, and the same without the first
               listing round; the listings must still describe the table (thorough: two queries)
  O order      container orders the format leaves free: 3 types x 2 entries x the 4 configurations, type chunks of a type in
               EVERY one of the 24 configuration orders x chunk order {typeSpec+types grouped, all typeSpecs first,
               type chunks interleaved across types} x chunk encoding x {1, 2} packages
  M maxima     one representative at the large end of each field the writer controls: entry OFFSET (sparse offset/4 =
               0xFFFF, which is a real offset; off16 0xFFFE next to a 0xFFFF hole; dense 0x3FFFC and 0x50000), entry index 0x0233 (sparse / dense /
               off16, with a compact entry), key index > 255 and > 0xFFFF boundary for compact keys, type id 255, strings of
               127/128/0x7FFF (UTF-8) and 0x7FFF/0x8000 (UTF-16) units, 40 packages-worth of unused pool prefix
  E pairs      16 global dimensions (packages, type set, entry presence, configuration set, staggered configurations, entry
               kind profile, flags, chunk encoding incl. mixed per configuration, pool encodings, ResTable_config size
               28..64, trimmed trailing holes, unused pool prefix, type-id gap, entry-area layout, chunk order, configuration order): every pair of values of every pair of
               dimensions around two base vectors (thorough: every triple around the first base)
"""
import itertools

from mc.core import Acc

PROPERTY = "C28"
LEVEL = "exploration"
RULE = ("union of five full products over a resource-table grammar (A presence matrices x chunk encodings, B entry-kind "
        "pairs per type x encodings x configs x flags, C reference chains x locations x config sets, D type subsets x "
        "packages x pool encodings, O all 24 configuration orders x chunk orders, M field maxima, E all pairs of 16 global dimensions); every table is serialised, parsed and queried "
        "for every resource id x {all configs, each stored config}; non-trivial = table with a hole, a non-dense chunk, a "
        "non-plain entry, a reference, >1 configuration or >1 package; distinct = distinct table specification")
ASSUMPTIONS = [
    "gen/arscgen.py writes well-formed tables (validated: type chunks re-serialised from 5 shipped tables are byte-identical, "
    "androguard reports identical content for the rebuilt files)",
    "bag (complex) entries occur only in bag types (array), as aapt2 emits them; references to ids absent from the table "
    "(framework resources) and @null (reference to 0) are not in the alphabet",
    "selecting a configuration that a resource (or a resource on its reference path) does not store is not judged "
    "(androguard documents a generous fallback there)",
    "value spelling (hex digit case, dip/dp, float digits) is C27's subject: values are compared in canonical form; "
    "get_types() may also list 'public'; get_locales() spells the default locale '\\x00\\x00'; listings are compared as sets",
    "a well-formed FLAG_SPARSE chunk lists only present entries (ResourceTypes.h: the runtime never tests a sparse offset for "
    "NO_ENTRY), so holes in sparse chunks are absent index pairs",
]
MANIFEST = {
    "engine": "E2-structures",
    "technique": "bounded exhaustive enumeration of resource-table models, independent writer, reference resolver from the model",
    "text": "Every resource table of a stated grammar (1-2 packages, 7 types, 1-3 entries with holes, 4 configurations, "
            "plain/compact/complex/reference entries, dense/16-bit/sparse chunks, UTF-8/UTF-16 pools) within five bounded "
            "products is written by a writer that shares no code with androguard, parsed by ARSCParser, and every id, key, "
            "locale, type, string and resolved value is compared with the model; complete for the stated space, so a defect "
            "that needs a particular combination of two features inside the grammar cannot hide.",
    "note": "Trusted: gen/arscgen.py (byte-identical to aapt output on shipped tables) and ref/resolver.py. Not judged: "
            "fallback selection of configurations a resource does not store, value spelling details (C27), dangling references.",
}

TYPES = ["string", "id", "bool", "integer", "color", "dimen", "array"]
CFGS = ["", "en", "de-rDE", "fr-hdpi"]
ENCS = ["dense", "off16", "sparse"]
KINDS = {
    "string": ["p-str", "c-str", "p-ref", "c-ref"],
    "id": ["p-bool", "c-bool"],
    "bool": ["p-bool", "c-bool", "p-ref"],
    "integer": ["p-int", "p-neg", "p-hex", "c-int", "p-ref", "c-ref"],
    "color": ["p-color", "c-color", "p-ref"],
    "dimen": ["p-dim", "c-dim", "p-ref"],
    "array": ["x0", "x1", "x2", "xr", "xrr"],
}
PLAIN_OF = {"string": "p-str", "id": "p-bool", "bool": "p-bool", "integer": "p-int", "color": "p-color", "dimen": "p-dim",
            "array": "x2"}
COMPACT_OF = {"string": "c-str", "id": "c-bool", "bool": "c-bool", "integer": "c-int", "color": "c-color", "dimen": "c-dim",
              "array": "x1"}
PRESENCE = [(1, 1), (2, 3), (2, 1), (2, 2), (3, 7), (3, 3), (3, 5), (3, 6), (3, 1), (3, 2), (3, 4)]    # (n, bitmask of present)
CFGSETS = [[CFGS[i] for i in range(4) if m >> i & 1] for m in
           (1, 3, 2, 15, 12, 5, 9, 4, 8, 6, 10, 7, 11, 13, 14)]
POOLS = [(1, 0, 1), (0, 0, 0), (1, 1, 1), (0, 1, 0)]          # (value pool utf8, type pool utf8, key pool utf8)
CSIZES = [64, 56, 52, 48, 36, 28]


# ---------------------------------------------------------------------------------------------------------------------
# specification (JSON) -> model
# ---------------------------------------------------------------------------------------------------------------------
def _cfg(name, size=64):
    from gen import arscgen as G
    return {"": G.Cfg(size=size), "en": G.Cfg(lang="en", size=size), "de-rDE": G.Cfg(lang="de", region="DE", size=size),
            "fr-hdpi": G.Cfg(lang="fr", density=240, sdk=4, size=size)}[name]


def table_from_spec(spec):
    from gen import arscgen as G
    size = spec.get("csize", 64)

    def rid(ref):
        pi, ti, ei = ref
        return (spec["pkgs"][pi]["id"] << 24) | ((ti + 1) << 16) | ei

    def val(v):
        if v[0] == "s":
            return G.S(v[1])
        if v[0] == "ref":
            return G.R(rid(v[1:]))
        return G.RAW(v[1], v[2])

    def ev(x):
        if x[0] == "p":
            return G.Plain(val(x[1]))
        if x[0] == "c":
            return G.Compact(val(x[1]))
        return G.Complex([(n, val(v)) for n, v in x[2]], x[1])
    pkgs = []
    for p in spec["pkgs"]:
        types = []
        for t in p["types"]:
            entries = []
            for e in t["e"]:
                if e is None:
                    entries.append(None)
                else:
                    entries.append(G.Entry(e["k"], {_cfg(c, size): ev(x) for c, x in e["v"].items()}, e.get("f", 0)))
            enc = t.get("enc", "dense")
            if isinstance(enc, dict):
                enc = {_cfg(c, size): v for c, v in enc.items()}
            types.append(G.Type(t["n"], entries, enc, bool(t.get("trim")), t.get("lay", "index"),
                                {int(k): v for k, v in t.get("at", {}).items()}))
        pkgs.append(G.Package(p["id"], p["name"], types, bool(p.get("tu8", 0)), bool(p.get("ku8", 1)),
                              p.get("corder", "grouped"), p.get("cfgorder", "first")))
    return G.Table(pkgs, bool(spec.get("utf8", 1)), ["unused%d" % i for i in range(spec.get("prefix", 0))])


class _Cells:
    """Hands out distinct, typed values so that a mix-up between two cells is visible."""

    def __init__(self):
        self.u = 0

    def value(self, kind, cfg):
        from gen import arscgen as G
        self.u += 1
        u = self.u
        k = kind.split("-")[1]
        if k == "str":
            return ["s", "v%d%s" % (u, ("-" + cfg) if cfg else "") if u % 5 else "Grüße 日本 %d %s" % (u, cfg)]
        if k == "int":
            return ["r", G.TYPE_INT_DEC, 1000 + u]
        if k == "neg":
            return ["r", G.TYPE_INT_DEC, (-(1000 + u)) & 0xFFFFFFFF]
        if k == "hex":
            return ["r", G.TYPE_INT_HEX, 0xA000 + u]
        if k == "bool":
            return ["r", G.TYPE_INT_BOOLEAN, 0xFFFFFFFF if u % 2 else 0]
        if k == "color":
            return ["r", G.TYPE_INT_COLOR_ARGB8, 0xFF000000 | (u * 0x010203 & 0xFFFFFF)]
        if k == "dim":
            return ["r", G.TYPE_DIMENSION, ((u + 1) << 8) | (u % 6)]
        raise ValueError(kind)

    def entry_value(self, kind, cfg, target=None, target2=None):
        """kind code -> spec entry value.  target(s): (pi, ti, ei) for reference kinds."""
        if kind in ("p-ref", "c-ref"):
            return [kind[0], ["ref"] + list(target)]
        if kind[0] in "pc":
            return [kind[0], self.value(kind, cfg)]
        arr = 0x02000000
        if kind == "x0":
            return ["x", 0, []]
        if kind == "x1":
            return ["x", 0, [[arr, self.value("p-str", cfg)]]]
        if kind == "x2":
            return ["x", 0, [[arr, self.value("p-str", cfg)], [arr + 1, self.value("p-int", cfg)]]]
        if kind == "xr":
            return ["x", 0, [[arr, self.value("p-str", cfg)], [arr + 1, ["ref"] + list(target)]]]
        if kind == "xrr":
            return ["x", 0, [[arr, ["ref"] + list(target)], [arr + 1, ["ref"] + list(target2 or target)]]]
        if kind == "xrsr":      # diamond: the same target referenced twice with a concrete item in between
            return ["x", 0, [[arr, ["ref"] + list(target)], [arr + 1, self.value("p-str", cfg)],
                             [arr + 2, ["ref"] + list(target)]]]
        raise ValueError(kind)


def _entry(cells, key, kind, cfgs, flags=0, target=None, target2=None):
    return {"k": key, "f": flags, "v": {c: cells.entry_value(kind, c, target, target2) for c in cfgs}}


# ---------------------------------------------------------------------------------------------------------------------
# families
# ---------------------------------------------------------------------------------------------------------------------
def fam_a(ctx):
    for n in (1, 2, 3):
        for bits in range(1, 1 << (4 * n)):
            for enc in ENCS:
                vs = [("plain", 0)]
                if n <= 2 or ctx.thorough:
                    vs.append(("compact", 0))
                if ctx.thorough:
                    vs += [("mixed", 0), ("plain", 1), ("compact", 1)]
                for prof, trim in vs:
                    yield ("A", n, bits, enc, prof, trim)
                # entry-area layout (the entry structures of a chunk not in index order; same table):
                #   n = 2: reversed (= rotated) for every matrix and encoding
                #   n = 3: reversed for every matrix (quick: one encoding per matrix, rotating; thorough: all three),
                #          reversed + rotated x all encodings for every matrix over the configurations {default, en}
                if n >= 2:
                    two_cfg = not any(bits >> (4 * i + c) & 1 for i in range(n) for c in (2, 3))
                    lays = ["reversed"] if (n == 2 or ctx.thorough or enc == ENCS[bits % 3] or two_cfg) else []
                    if n == 3 and (two_cfg or ctx.thorough):
                        lays.append("rotated")
                    for lay in lays:
                        yield ("A", n, bits, enc, "plain", 0, lay)


def build_a(p):
    _f, n, bits, enc, prof, trim = p[:6]
    lay = p[6] if len(p) > 6 else "index"
    cells = _Cells()
    entries = []
    for i in range(n):
        cfgs = [CFGS[c] for c in range(4) if bits >> (4 * i + c) & 1]
        if not cfgs:
            entries.append(None)
            continue
        v = {}
        for ci, c in enumerate(cfgs):
            kind = {"plain": "p-str", "compact": "c-str", "mixed": ("p-str", "c-str")[(i + ci) % 2]}[prof]
            v[c] = cells.entry_value(kind, c)
        entries.append({"k": "key%d" % i, "f": 0, "v": v})
    return {"pkgs": [{"id": 0x7F, "name": "com.a",
                      "types": [{"n": "string", "enc": enc, "trim": trim, "lay": lay, "e": entries}]}]}


def fam_b(ctx):
    for cfgs in (range(len(CFGSETS)) if ctx.thorough else (0, 1, 3)):
        for flags in (0, 2, 4, 6):
            for enc in ENCS:
                for t in TYPES:
                    for k0 in KINDS[t]:
                        for k1 in KINDS[t]:
                            yield ("B", t, k0, k1, enc, cfgs, flags)


def build_b(p):
    _f, t, k0, k1, enc, cfgs, flags = p
    cfgs = CFGSETS[cfgs]
    cells = _Cells()
    # reference kinds point at the concrete helper entry (index 2); array items point at a string of the 2nd type
    if t == "array":
        types = [{"n": "array", "enc": enc, "e": [_entry(cells, "k0", k0, cfgs, flags, (0, 1, 0), (0, 1, 1)),
                                                 _entry(cells, "k1", k1, cfgs, 0, (0, 1, 1), (0, 1, 0))]},
                 {"n": "string", "enc": enc, "e": [_entry(cells, "s0", "p-str", cfgs), _entry(cells, "s1", "p-str", cfgs)]}]
    else:
        types = [{"n": t, "enc": enc, "e": [_entry(cells, "k0", k0, cfgs, flags, (0, 0, 2)),
                                           _entry(cells, "k1", k1, cfgs, 0, (0, 0, 2)),
                                           _entry(cells, "helper", PLAIN_OF[t], cfgs)]}]
    return {"pkgs": [{"id": 0x7F, "name": "com.a", "types": types}]}


C_SRC = ["p-ref", "c-ref", "xr", "xrr", "xrsr", "xvia"]   # xrr / xrsr: one target twice; xvia: two intermediates, one final target
C_T1 = ["p-str", "c-str", "x1", "p-ref", "xr"]
C_T2 = ["p-str", "c-str", "x1"]
C_NCS = 5            # quick: the first five of CFGSETS: [""], ["", en], [en], all four, [de-rDE, fr-hdpi]; thorough: all 15
C_LOC = ["same", "type", "pkg"]


def _c_names(s, t1, loc):
    """type names of the source and the first target, or None if the combination does not exist."""
    src_bag, t1_bag = s[0] == "x", t1[0] == "x"
    if s == "xvia" and loc != "type":
        return None
    if loc == "same":
        if src_bag != t1_bag:
            return None
        n = "array" if src_bag else "string"
        return n, n
    if loc == "pkg":
        return ("array" if src_bag else "string"), ("array" if t1_bag else "string")
    src = "array" if src_bag else "drawable"
    tgt = ("plurals" if src_bag else "array") if t1_bag else "string"
    return src, tgt


def fam_c(ctx):
    for enc in ENCS:
        for loc in C_LOC:
            for s in C_SRC:
                for t1 in C_T1:
                    if _c_names(s, t1, loc) is None:
                        continue
                    for t2 in (C_T2 if t1 in ("p-ref", "xr") else [None]):
                        for cs in range(len(CFGSETS) if ctx.thorough else C_NCS):
                            for ct in range(len(CFGSETS) if ctx.thorough else C_NCS):
                                yield ("C", s, t1, t2, loc, cs, ct, enc)


def build_c(p):
    _f, s, t1, t2, loc, cs, ct, enc = p
    cells = _Cells()
    cs, ct = CFGSETS[cs], CFGSETS[ct]
    pkgs = [{"id": 0x7F, "name": "com.a", "types": []}]
    if loc == "pkg":
        pkgs.append({"id": 0x02, "name": "com.lib", "types": []})

    def alloc(pi, tname):
        for ti, t in enumerate(pkgs[pi]["types"]):
            if t["n"] == tname:
                t["e"].append(None)
                return (pi, ti, len(t["e"]) - 1)
        pkgs[pi]["types"].append({"n": tname, "enc": enc, "e": [None]})
        return (pi, len(pkgs[pi]["types"]) - 1, 0)

    def put(ref, entry):
        pkgs[ref[0]]["types"][ref[1]]["e"][ref[2]] = entry
    nsrc, nt1 = _c_names(s, t1, loc)
    rs = alloc(0, nsrc)
    if s == "xvia":
        # diamond through two different intermediate entries (one plain, one compact reference) that share the final
        # target t1 (which may itself chain on to t2)
        m1, m2 = alloc(0, "string"), alloc(0, "string")
        r1 = alloc(0, nt1)
        r2 = alloc(0, "array" if t2[0] == "x" else "string") if t2 else None
        put(rs, _entry(cells, "src", "xrr", cs, 0, m1, m2))
        put(m1, _entry(cells, "via1", "p-ref", ct, 0, r1))
        put(m2, _entry(cells, "via2", "c-ref", ct, 0, r1))
        put(r1, _entry(cells, "t1", t1, ct, 0, r2, r2))
        if t2:
            put(r2, _entry(cells, "t2", t2, ct))
        return {"pkgs": pkgs}
    r1 = alloc(1 if loc == "pkg" else 0, nt1)
    r2 = alloc(0, "array" if t2[0] == "x" else "string") if t2 else None
    put(rs, _entry(cells, "src", s, cs, 0, r1, r1))
    put(r1, _entry(cells, "t1", t1, ct, 0, r2, r2))
    if t2:
        put(r2, _entry(cells, "t2", t2, ct))
    return {"pkgs": pkgs}


def fam_d(ctx):
    for mask in range(1, 128):
        for npk in (1, 2):
            for enc in ENCS:
                for pool in range(3):
                    for gap in (0, 1):
                        yield ("D", mask, npk, enc, pool, gap)


def _grid_pkg(cells, pid, name, tnames, n, present, cfgs, stagger, profile, flags, enc, pool, trim, gap, other=None):
    types = []
    if gap:
        types.append({"n": "attr", "e": []})
    for tj, t in enumerate(tnames):
        entries = []
        for i in range(n):
            if not present >> i & 1:
                entries.append(None)
                continue
            ecfgs = [c for ci, c in enumerate(cfgs) if not (stagger and len(cfgs) > 1 and ci == i % len(cfgs))]
            v = {}
            for ci, c in enumerate(ecfgs):
                if profile == "plain":
                    kind = PLAIN_OF[t]
                elif profile == "compact":
                    kind = COMPACT_OF[t]
                elif profile == "mixed":
                    kind = (PLAIN_OF[t], COMPACT_OF[t])[(i + ci + tj) % 2]
                else:       # "refs": the first present entry of every type but 'id' refers to the last present entry
                    last = max(j for j in range(n) if present >> j & 1)
                    first = min(j for j in range(n) if present >> j & 1)
                    if i == first and i != last and t != "id":
                        tgt = (len(other or []), len(types), last)
                        kind = "xr" if t == "array" else "p-ref"
                        v[c] = cells.entry_value(kind, c, tgt)
                        continue
                    kind = PLAIN_OF[t]
                v[c] = cells.entry_value(kind, c)
            entries.append({"k": "%s_%d" % (t, i), "f": flags if i == 0 else 0, "v": v} if v else None)
        types.append({"n": t, "enc": enc, "trim": trim, "e": entries})
    return {"id": pid, "name": name, "types": types, "tu8": pool[1], "ku8": pool[2]}


def build_d(p):
    _f, mask, npk, enc, pool, gap = p
    cells = _Cells()
    tn = [TYPES[i] for i in range(7) if mask >> i & 1]
    pool = POOLS[pool]
    pkgs = [_grid_pkg(cells, 0x7F, "com.a", tn, 2, 3, ["", "en"], 0, "plain", 0, enc, pool, 0, gap)]
    if npk == 2:
        pkgs.append(_grid_pkg(cells, 0x02, "com.lib", tn[::-1], 2, 3, ["", "en"], 0, "plain", 0, enc, pool, 0, 0, pkgs))
    return {"pkgs": pkgs, "utf8": pool[0]}


E_DIMS = [
    ("pkgs", [1, 2]),
    ("types", [["string"], ["string", "array"], ["id", "string"], ["bool", "integer", "color", "dimen"], TYPES, TYPES[::-1]]),
    ("presence", list(range(len(PRESENCE)))),
    ("cfgset", list(range(len(CFGSETS)))),
    ("stagger", [0, 1]),
    ("profile", ["plain", "compact", "mixed", "refs"]),
    ("flags", [0, 2, 4, 6]),
    ("enc", ["dense", "off16", "sparse", "percfg"]),
    ("pools", list(range(len(POOLS)))),
    ("csize", CSIZES),
    ("trim", [0, 1]),
    ("prefix", [0, 3]),
    ("gap", [0, 1]),
    ("layout", ["index", "reversed", "rotated"]),
    ("corder", ["grouped", "specs-first", "interleaved"]),
    ("cfgorder", ["first", "reversed", "rotated"]),
]
E_BASES = [[0] * len(E_DIMS), [1, 4, 6, 3, 1, 2, 1, 2, 1, 5, 1, 1, 1, 1, 2, 1]]


def fam_e(ctx):
    seen = set()
    nd = len(E_DIMS)
    for b, base in enumerate(E_BASES):
        order = 3 if (ctx.thorough and b == 0) else 2
        for k in range(order + 1):
            for dims in itertools.combinations(range(nd), k):
                for vals in itertools.product(*[range(len(E_DIMS[d][1])) for d in dims]):
                    v = list(base)
                    for d, x in zip(dims, vals):
                        v[d] = x
                    v = tuple(v)
                    if v not in seen:
                        seen.add(v)
                        yield ("E",) + v


def build_e(p):
    v = {name: alpha[i] for (name, alpha), i in zip(E_DIMS, p[1:])}
    cells = _Cells()
    n, present = PRESENCE[v["presence"]]
    cfgs = CFGSETS[v["cfgset"]]
    pool = POOLS[v["pools"]]
    enc = v["enc"]
    if enc == "percfg":
        enc = {c: ENCS[i % 3] for i, c in enumerate(CFGS)}
    args = (n, present, cfgs, v["stagger"], v["profile"], v["flags"], enc, pool, v["trim"])
    pkgs = [_grid_pkg(cells, 0x7F, "com.a", v["types"], *args, v["gap"])]
    if v["pkgs"] == 2:
        pkgs.append(_grid_pkg(cells, 0x02, "com.lib", v["types"][::-1], *args, 0, pkgs))
    for pk in pkgs:
        pk["corder"], pk["cfgorder"] = v["corder"], v["cfgorder"]
        for t in pk["types"]:
            t["lay"] = v["layout"]
    return {"pkgs": pkgs, "utf8": pool[0], "csize": v["csize"], "prefix": v["prefix"]}


# ---- family H: histories on ONE parser object ----------------------------------------------------------------------
# (a) every listing  ->  (b) 1 (thorough: 2) queries that ask for something the table does not contain  ->  (c) every
# listing again.  (c) has to equal the model (a read accessor must not change what the table is reported to contain).
# Both the history with (a) and the one without it (fresh parser, b, c) are run: some listings cache their first answer.
ABSENT_LOCALE = "it"
ABSENT_PKG = "absent.pkg"
QUERIES = [
    ("get_string(absent-locale)", lambda a, x: a.get_string(x["pkg"], x["key"], ABSENT_LOCALE)),
    ("get_string(absent-key)", lambda a, x: a.get_string(x["pkg"], "no_such_key")),
    ("get_string(absent-package)", lambda a, x: a.get_string(ABSENT_PKG, x["key"])),
    ("get_string_resources(absent-locale)", lambda a, x: a.get_string_resources(x["pkg"], ABSENT_LOCALE)),
    ("get_public_resources(absent-locale)", lambda a, x: a.get_public_resources(x["pkg"], ABSENT_LOCALE)),
    ("get_integer_resources(absent-locale)", lambda a, x: a.get_integer_resources(x["pkg"], ABSENT_LOCALE)),
    ("get_id(absent-locale)", lambda a, x: a.get_id(x["pkg"], x["rid"], ABSENT_LOCALE)),
    ("get_types(absent-locale)", lambda a, x: a.get_types(x["pkg"], ABSENT_LOCALE)),
    ("get_locales(absent-package)", lambda a, x: a.get_locales(ABSENT_PKG)),
    ("get_res_configs(absent-config)", lambda a, x: a.get_res_configs(x["rid"], x["cfg"])),
    ("get_resolved_res_configs(absent-config)", lambda a, x: a.get_resolved_res_configs(x["rid"], x["cfg"])),
    ("get_res_configs(absent-id)", lambda a, x: a.get_res_configs(0x7F7F0077)),
    ("get_resolved_res_configs(absent-id)", lambda a, x: a.get_resolved_res_configs(0x7F7F0077)),
    ("get_res_id_by_key(absent-key)", lambda a, x: a.get_res_id_by_key(x["pkg"], x["type"], "no_such_key")),
    ("get_res_id_by_key(absent-type)", lambda a, x: a.get_res_id_by_key(x["pkg"], "notype", x["key"])),
    ("get_type_configs(absent-type)", lambda a, x: a.get_type_configs(x["pkg"], "notype")),
    ("get_type_configs(absent-package)", lambda a, x: a.get_type_configs(ABSENT_PKG)),
    ("get_resource_xml_name(absent-id)", lambda a, x: a.get_resource_xml_name(0x7F7F0077)),
    ("get_items(absent-package)", lambda a, x: a.get_items(ABSENT_PKG)),
]


def _h_tables(ctx):
    for n in (1, 2):
        for bits in range(1, 1 << (4 * n)):
            yield ("A", n, bits, "dense", "plain", 0)
    for mask in [1 << i for i in range(7)] + [(1 << i) | (1 << j) for i in range(7) for j in range(i)] + [127]:
        for npk in (1, 2):
            yield ("D", mask, npk, "sparse" if npk == 2 else "dense", 0, 0)


def fam_h(ctx):
    nq = len(QUERIES)
    for src in _h_tables(ctx):
        for q in range(nq):
            for with_a in ((1, 0) if src[0] == "A" else (1,)):
                yield ("H", list(src), [q], with_a)
        if ctx.thorough and src[0] == "A":
            for q1 in range(nq):
                for q2 in range(nq):
                    if q1 != q2:
                        yield ("H", list(src), [q1, q2], 1)


def build_h(p):
    src = tuple(p[1])
    return FAMILIES[src[0]][1](src)


def _listing_snapshot(a, axml, ref):
    """{api: value} for every listing; per-package listings are asked for the packages of the MODEL."""
    import re

    def safe(f):
        try:
            return f()
        except Exception as e:      # noqa
            return "EXC:" + type(e).__name__
    snap = {"get_packages_names": safe(lambda: list(a.get_packages_names()))}
    for p in ref.get_packages_names():
        snap["get_locales"] = snap.get("get_locales", []) + [safe(lambda: sorted(a.get_locales(p)))]
        snap["get_types"] = snap.get("get_types", []) + [
            safe(lambda: sorted(set(a.get_types(p, l)) - {"public"})) for l in sorted(ref.get_locales(p))]
        snap["get_type_configs"] = snap.get("get_type_configs", []) + [
            safe(lambda: sorted((k, sorted(_words(c) for c in v)) for k, v in a.get_type_configs(p).items()))]
    snap["get_strings_resources"] = safe(lambda: sorted(re.findall(r"<locale value=(.*?)>", a.get_strings_resources().decode("utf-8"))))
    snap["get_resolved_strings"] = safe(lambda: sorted((p, sorted(v)) for p, v in a.get_resolved_strings().items()))
    snap["get_arsc_info"] = safe(lambda: sorted(re.findall(r"^\t(\S.*):$", axml.get_arsc_info(a), re.M)))
    return snap


def _listing_model(ref):
    pk = ref.get_packages_names()
    loc = {p: sorted(ref.get_locales(p)) for p in pk}
    m = {"get_packages_names": pk, "get_locales": [loc[p] for p in pk],
         "get_types": [sorted(ref.get_types(p, l)) for p in pk for l in loc[p]],
         "get_type_configs": [sorted(ref.get_type_configs(p).items()) for p in pk],
         "get_strings_resources": sorted(repr(l) for p in pk for l in loc[p]),
         "get_resolved_strings": sorted((p, sorted("DEFAULT" if l == "\x00\x00" else l for l in loc[p])) for p in pk),
         "get_arsc_info": sorted(repr(l) for p in pk for l in loc[p])}
    return m


def judge_history(spec, queries, with_a):
    from androguard.core import axml
    from gen import arscgen as G
    from ref import resolver as RR
    table = table_from_spec(spec)
    data = G.serialise(table)
    ref = RR.RefResolver(table)
    out = []
    a = axml.ARSCParser(data)           # (no decoy here: this family is a history on one object by itself)
    model = _listing_model(ref)
    rid, p, t, e = next(iter(table.iter_entries()))
    x = {"pkg": p.name, "key": e.key, "rid": rid, "type": t.name,
         "cfg": axml.ARSCResTableConfig(None, locale=ABSENT_LOCALE, density=320)}
    # get_arsc_info also renders every value listing (get_bool_resources ...), which are outside this property and may
    # raise on their own; it is judged only when it worked before the queries
    judged = [api for api in model if api != "get_arsc_info"]
    if with_a:
        first = _listing_snapshot(a, axml, ref)
        if not (isinstance(first["get_arsc_info"], str) and first["get_arsc_info"].startswith("EXC:")):
            judged.append("get_arsc_info")
        for api in judged:
            if first[api] != model[api]:
                out.append(("listing:%s:fresh" % api, "%s on a fresh parser lists %r, the table contains %r" % (api, first[api], model[api])))
        if out:
            return out, data
    names = []
    for q in queries:
        names.append(QUERIES[q][0])
        try:
            QUERIES[q][1](a, x)
        except Exception:       # noqa  -- what the query itself answers is not judged here
            pass
    after = _listing_snapshot(a, axml, ref)
    for api in judged:
        if after[api] != model[api]:
            if out and api in ("get_strings_resources", "get_resolved_strings", "get_arsc_info"):
                continue        # these are rendered from get_packages_names / get_locales, which already differ
            out.append(("listing:%s:after:%s" % (api, "+".join(names)),
                        "after %s%s, %s lists %r; the table contains %r"
                        % ("the listings and then " if with_a else "", " and ".join(names), api, after[api], model[api])))
    return out, data


def fam_o(ctx):
    for perm in itertools.permutations(range(4)):
        for corder in ("grouped", "specs-first", "interleaved"):
            for enc in ENCS:
                for npk in (1, 2):
                    yield ("O", list(perm), corder, enc, npk)


def build_o(p):
    _f, perm, corder, enc, npk = p
    cells = _Cells()
    tn = ["string", "integer", "array"]
    pkgs = [_grid_pkg(cells, 0x7F, "com.a", tn, 2, 3, CFGS, 1, "mixed", 0, enc, POOLS[0], 0, 0)]
    if npk == 2:
        pkgs.append(_grid_pkg(cells, 0x02, "com.lib", tn[::-1], 2, 3, CFGS, 0, "refs", 0, enc, POOLS[0], 0, 0, pkgs))
    for pk in pkgs:
        pk["corder"], pk["cfgorder"] = corder, list(perm)
    return {"pkgs": pkgs}


M_CASES = ["maxoffset", "bigindex", "manykeys", "typeid255", "longstrings8", "longstrings16", "bigprefix"]


def fam_m(ctx):
    for case in M_CASES:
        for enc in (ENCS if case != "bigprefix" else ENCS[:1]):
            yield ("M", case, enc)


def build_m(p):
    _f, case, enc = p
    cells = _Cells()
    cfgs = ["", "en"]
    spec = {"pkgs": [{"id": 0x7F, "name": "com.a", "types": []}]}
    types = spec["pkgs"][0]["types"]
    if case == "maxoffset":
        # the large end of the entry-offset fields, reached by zero padding inside the entry area:
        #   sparse: offset/4 = 0xFFFF is a real offset (there is no 'no entry' marker in ResTable_sparseTypeEntry)
        #   off16:  offset/4 = 0xFFFE is the largest real offset, 0xFFFF (entry 2, a hole) means 'no entry'
        #   dense:  32-bit offsets 0x3FFFC and beyond what 16 bits * 4 can express
        top = {"sparse": 0xFFFF * 4, "off16": 0xFFFE * 4, "dense": 0xFFFF * 4}[enc]
        e = [_entry(cells, "k0", "p-str", cfgs), _entry(cells, "k1", "c-int", cfgs), None,
             _entry(cells, "k3", "p-str", cfgs), _entry(cells, "k4", "p-int", cfgs, 0)]
        at = {"3": top - 16, "4": top}
        if enc == "dense":
            e.append(_entry(cells, "k5", "c-str", cfgs))
            at["5"] = 0x50000
        types.append({"n": "string", "enc": enc, "e": e, "at": at})
    elif case == "bigindex":
        n = 0x0234
        e = [None] * n
        for i, kind in ((0, "p-str"), (1, "c-str"), (0x00FF, "c-int"), (0x0100, "p-int"), (n - 2, "c-str"), (n - 1, "p-ref")):
            e[i] = _entry(cells, "k%d" % i, kind, cfgs if i % 2 else [""], 0, (0, 0, 0))
        types.append({"n": "string", "enc": enc, "e": e})
    elif case == "manykeys":
        # 300 keys: key indices above 255 (a compact entry keeps its key index in 16 bits)
        e = [_entry(cells, "key_%03d" % i, ("p-str", "c-str", "p-int", "c-int")[i % 4], [""] if i % 7 else cfgs) for i in range(300)]
        types.append({"n": "string", "enc": enc, "e": e})
    elif case == "typeid255":
        types += [{"n": "t%d" % i, "e": []} for i in range(1, 255)]
        types.append({"n": "string", "enc": enc, "e": [_entry(cells, "a", "p-str", cfgs), _entry(cells, "b", "c-str", cfgs),
                                                        _entry(cells, "c", "p-ref", cfgs, 0, (0, 254, 0))]})
    elif case in ("longstrings8", "longstrings16"):
        lens = [127, 128, 0x7FFF] if case == "longstrings8" else [0x7FFF, 0x8000, 0x8001]
        spec["utf8"] = 1 if case == "longstrings8" else 0
        e = [{"k": "s%d" % i, "f": 0, "v": {"": ["p", ["s", ("%05d" % n) + "x" * (n - 5)]]}} for i, n in enumerate(lens)]
        e.append({"k": "s_uni", "f": 0, "v": {"": ["c", ["s", "\u00fc" * 130]]}})      # UTF-16 length 130, UTF-8 length 260
        types.append({"n": "string", "enc": enc, "e": e})
    else:
        spec["prefix"] = 70000          # value pool indices above 0xFFFF
        types.append({"n": "string", "enc": enc, "e": [_entry(cells, "a", "p-str", cfgs), _entry(cells, "b", "c-str", cfgs)]})
    return spec


FAMILIES = {"A": (fam_a, build_a, 24), "B": (fam_b, build_b, 8), "C": (fam_c, build_c, 16), "D": (fam_d, build_d, 8),
            "E": (fam_e, build_e, 8), "H": (fam_h, build_h, 8), "O": (fam_o, build_o, 4), "M": (fam_m, build_m, 3)}


# ---------------------------------------------------------------------------------------------------------------------
# judging one table
# ---------------------------------------------------------------------------------------------------------------------
def _value_class(v):
    from gen import arscgen as G
    if v[0] == "str":
        return "str"
    return {G.TYPE_REFERENCE: "ref", G.TYPE_INT_DEC: "int", G.TYPE_INT_HEX: "hex", G.TYPE_INT_BOOLEAN: "bool",
            G.TYPE_INT_COLOR_ARGB8: "color", G.TYPE_DIMENSION: "dim"}.get(v[1], "t%x" % v[1])


_RANK = {"plain": 0, "complex": 2, "compact": 3}


def _entry_feature(ref, rid):
    """Input-side description of a resource: entry kind and value classes; a reference names the kind(s) of entry it points
    at.  A resource whose configurations use different encodings is described by its most unusual one."""
    if rid not in ref.res:
        return "absent"
    feats = {}
    for _c, ev in ref.res[rid][2].values.items():
        vals = [x for _n, x in ev.items] if ev.kind == "complex" else [ev.value]
        parts, has_ref = [], 0
        for v in vals:
            cl = _value_class(v)
            if cl == "ref":
                has_ref = 1
                tgt = ref.res.get(v[2])
                cl = "ref->" + ("/".join(sorted({x.kind for x in tgt[2].values.values()})) if tgt else "absent")
            parts.append(cl)
        dia = ""
        if ev.kind == "complex":
            direct = [v[2] for v in vals if _value_class(v) == "ref"]
            beyond = [t for d in direct for t in _ref_targets(ref, d)]
            if len(set(direct)) < len(direct):
                dia = "diamond:"            # one target referenced by two items
            elif len(set(beyond)) < len(beyond):
                dia = "diamond-via:"        # two items reach one target through different intermediate entries
        feats[ev.kind + "[" + dia + ",".join(parts) + "]"] = (_RANK[ev.kind], has_ref)
    top = max(feats.values())
    return "+".join(sorted(f for f, r in feats.items() if r == top))


def _ref_targets(ref, rid):
    out = set()
    if rid in ref.res:
        for _c, ev in ref.res[rid][2].values.items():
            for v in ([x for _n, x in ev.items] if ev.kind == "complex" else [ev.value]):
                if v[0] == "raw" and v[1] == 0x01 and v[2]:
                    out.add(v[2])
    return out


def _extras(spec, ref, rid=None, wanted=False):
    ex = set()
    if len(spec["pkgs"]) > 1:
        ex.add("pkgs2")
    if not spec.get("utf8", 1) or any(p.get("tu8", 0) or not p.get("ku8", 1) for p in spec["pkgs"]):
        ex.add("pools")
    if spec.get("csize", 64) != 64:
        ex.add("csize")
    if spec.get("prefix"):
        ex.add("prefix")
    for p in spec["pkgs"]:
        if p.get("corder", "grouped") != "grouped":
            ex.add("chunks=" + p["corder"])
        if p.get("cfgorder", "first") != "first":
            ex.add("cfgorder")
    scope = spec["pkgs"]
    types = [t for p in scope for t in p["types"]]
    if rid is not None:
        p, t, e = ref.res.get(rid, (None, None, None))
        if t is not None:
            types = [x for pk in spec["pkgs"] for x in pk["types"] if x["n"] == t.name and pk["id"] == p.id]
            if e.flags:
                ex.add("flags")
            if len(e.values) > 1:
                ex.add("multicfg")
    for t in types:
        enc = t.get("enc", "dense")
        if isinstance(enc, dict):
            ex.add("enc=percfg")
        elif enc != "dense":
            ex.add("enc=" + enc)
        if t.get("trim"):
            ex.add("trim")
        if t.get("at"):
            ex.add("maxoffset")
        if t.get("lay", "index") != "index" and t["e"]:
            ex.add("layout=" + t["lay"])
        if not t["e"]:
            ex.add("typegap")
        cfgs = {c for e in t["e"] if e for c in e["v"]}
        if any(e is None or set(e["v"]) != cfgs for e in t["e"]):
            ex.add("holes")
    if wanted:
        ex.add("wanted")
    return ex


def make_key(aspect, feature, extras):
    return "%s:%s%s" % (aspect, feature, "".join("|" + e for e in sorted(extras)))


def split_key(key):
    parts = key.split("|")
    # the feature itself may contain '|' between kinds; extras are the trailing tokens from a closed vocabulary
    vocab = ("pkgs2", "pools", "csize", "prefix", "flags", "multicfg", "trim", "typegap", "holes", "wanted", "cfgorder", "maxoffset")
    ex = []
    while len(parts) > 1 and (parts[-1] in vocab or parts[-1].startswith(("enc=", "layout=", "chunks="))):
        ex.append(parts.pop())
    return "|".join(parts), frozenset(ex)


def _wanted_cfg(axml, name):
    if name == "":
        return axml.ARSCResTableConfig.default_config()
    if name == "en":
        return axml.ARSCResTableConfig(None, locale="en")
    if name == "de-rDE":
        return axml.ARSCResTableConfig(None, locale="de-rDE")
    return axml.ARSCResTableConfig(None, locale="fr", density=240, sdkVersion=4)


def _words(c):
    return (c.imsi, c.locale, c.screenType, c.input, c.screenSize, c.version, c.screenConfig, c.screenSizeDp, c.screenConfig2)


def decoy_spec(spec):
    """A small table that re-uses the judged table's package names, type names, key names, lowest resource ids and
    configurations with OTHER values: per package the first two non-empty types, per type the first two entries (holes kept),
    per entry the first two configurations; strings get a suffix, other values another data word, references stay."""
    import copy

    def val(v):
        if v[0] == "s":
            v[1] = v[1] + "~decoy"
        elif v[0] == "r":
            v[2] = (v[2] ^ 0x00010100) & 0xFFFFFFFF if v[1] != 0x12 else (0 if v[2] else 0xFFFFFFFF)
    d = {k: v for k, v in spec.items() if k != "pkgs"}
    d["prefix"] = 0
    d["pkgs"] = []
    for p in spec["pkgs"]:
        q = {k: v for k, v in p.items() if k != "types"}
        q["types"] = []
        full = 0
        for t in p["types"]:
            if not t["e"] or full >= 2:
                q["types"].append({"n": t["n"], "e": []})
                continue
            full += 1
            u = {k: v for k, v in t.items() if k != "e"}
            u["e"] = []
            for e in t["e"][:2]:
                if e is None:
                    u["e"].append(None)
                    continue
                f = {"k": e["k"], "f": e.get("f", 0), "v": copy.deepcopy(dict(list(e["v"].items())[:2]))}
                for x in f["v"].values():
                    if x[0] == "x":
                        for _n, v in x[2]:
                            val(v)
                    else:
                        val(x[1])
                u["e"].append(f)
            if not any(u["e"]):
                u["e"] = []
            q["types"].append(u)
        while q["types"] and not q["types"][-1]["e"]:
            q["types"].pop()
        d["pkgs"].append(q)
    return d


_DECOY_BYTES = {}


def run_decoy(spec, axml, G):
    """DECOY HISTORY: parse and query a different table that uses the same names and ids in the same process first (results
    ignored).  A cache that survives from one ARSCParser to the next (module / class level, keyed by package name, resource
    id, key or pool index) then shows up as a violation of the table judged afterwards -- also in the fresh-process replay,
    because the decoy runs inside judge()."""
    try:
        ds = decoy_spec(spec)
        key = repr(ds)
        raw = _DECOY_BYTES.get(key)
        if raw is None:
            if len(_DECOY_BYTES) > 4096:
                _DECOY_BYTES.clear()
            raw = _DECOY_BYTES[key] = G.serialise(table_from_spec(ds))      # only the BYTES are memoised; every decoy is parsed anew
        d = axml.ARSCParser(raw)
        for p in d.get_packages_names():
            for l in d.get_locales(p)[:2]:
                d.get_types(p, l)
                d.get_string_resources(p, l)
            d.get_type_configs(p)
        for rid in list(d.resource_values)[:4]:
            d.get_resolved_res_configs(rid)
            d.get_resource_xml_name(rid)
    except Exception:       # noqa  -- the decoy is not judged
        pass


def judge(spec):
    """Returns a list of (key, message) violations for one table."""
    from androguard.core import axml
    from gen import arscgen as G
    from ref import resolver as RR
    run_decoy(spec, axml, G)
    table = table_from_spec(spec)
    data, pool = G.build(table)
    ref = RR.RefResolver(table)
    out = []

    def bad(aspect, feature, extras, msg):
        out.append((make_key(aspect, feature, extras), msg))
    try:
        a = axml.ARSCParser(data)
        names = a.get_packages_names()
    except Exception as e:      # noqa
        bad("parse", "table", _extras(spec, ref), "ARSCParser raised %s: %s" % (type(e).__name__, e))
        return out, data
    if names != ref.get_packages_names():
        bad("packages", "table", _extras(spec, ref), "get_packages_names() = %r, table has %r" % (names, ref.get_packages_names()))
        return out, data
    size = spec.get("csize", 64)
    for p in table.packages:
        sub = {"pkgs": [x for x in spec["pkgs"] if x["id"] == p.id], "utf8": spec.get("utf8", 1), "csize": size,
               "prefix": spec.get("prefix", 0)}
        pex = _extras(sub, ref) | ({"pkgs2"} if len(spec["pkgs"]) > 1 else set())
        try:
            loc = a.get_locales(p.name)
            if set(loc) != ref.get_locales(p.name):
                bad("locales", "package", pex, "get_locales(%r) = %r, table has %r" % (p.name, loc, sorted(ref.get_locales(p.name))))
            for l in ref.get_locales(p.name):
                ty = set(a.get_types(p.name, l)) - {"public"}
                if ty != ref.get_types(p.name, l):
                    bad("types", "package", pex, "get_types(%r, %r) = %r, table has %r" % (p.name, l, sorted(ty), sorted(ref.get_types(p.name, l))))
            want = ref.get_type_configs(p.name)
            got = {k: sorted(_words(c) for c in v) for k, v in a.get_type_configs(p.name).items()}
            if got != want:
                bad("type_configs", "package", pex, "get_type_configs(%r) = %r, table has %r" % (p.name, got, want))
            for tn in want:
                got1 = {k: sorted(_words(c) for c in v) for k, v in a.get_type_configs(p.name, tn).items()}
                if got1 != {tn: want[tn]}:
                    bad("type_configs", "package", pex, "get_type_configs(%r, %r) = %r, table has %r" % (p.name, tn, got1, want[tn]))
            # alternative entry points: the XML dumps have to tell the same story as the per-id / per-key lookups
            import re as _re
            for l in sorted(ref.get_locales(p.name)):
                want_pub = sorted((t.name, e.key, rid) for rid, (pp, t, e) in ref.res.items()
                                  if pp is p and any(ref.locale_of(c) == l for c in e.values))
                got_pub = sorted((m[0], m[1], int(m[2], 16)) for m in _re.findall(
                    r'<public type="([^"]*)" name="([^"]*)" id="(0x[0-9a-fA-F]{8})" />', a.get_public_resources(p.name, l).decode("utf-8")))
                if got_pub != want_pub:
                    bad("public_xml", "package", pex, "get_public_resources(%r, %r) lists %r, table has %r" % (p.name, l, got_pub, want_pub))
                want_str, judged = {}, True
                for rid, (pp, t, e) in ref.res.items():
                    if pp is p and t.name == "string":
                        for c, ev in e.values.items():
                            if ref.locale_of(c) == l:
                                if ev.kind == "complex" or ev.value[0] != "str":
                                    judged = False      # reference-valued strings: spelling in the dump is not fixed by the property
                                else:
                                    want_str[e.key] = ev.value[1]
                if judged:
                    got_str = dict(_re.findall(r'<string name="([^"]*)">(.*?)</string>\n', a.get_string_resources(p.name, l).decode("utf-8"), _re.S))
                    if got_str != want_str:
                        bad("string_xml", "package", pex, "get_string_resources(%r, %r) lists %r, table has %r" % (p.name, l, got_str, want_str))
        except Exception as e:      # noqa
            bad("listing-exception", "package", pex, "listing of package %r raised %s: %s" % (p.name, type(e).__name__, e))
            return out, data

    # per resource id (holes included: they must resolve to nothing)
    rids = []
    for pi, p in enumerate(table.packages):
        for ti, t in enumerate(p.types):
            for ei in range(len(t.entries)):
                rids.append(table.resid(pi, ti, ei))
    failing = {}            # (rid, wanted name) -> (aspect, feature, extras, message)
    for rid in rids:
        feature = _entry_feature(ref, rid)
        present = rid in ref.res
        ex0 = _extras(spec, ref, rid)
        try:
            if present:
                p, t, e = ref.res[rid]
                got = a.get_res_id_by_key(p.name, t.name, e.key)
                if got != rid:
                    bad("id_by_key", feature, ex0, "get_res_id_by_key(%r, %r, %r) = %r, expected 0x%08x" % (p.name, t.name, e.key, got, rid))
                # get_id per locale / get_resource_xml_name (looks the id up in the default locale)
                for l in sorted(ref.get_locales(p.name)):
                    stored = any(ref.locale_of(c) == l for c in e.values)
                    got = tuple(a.get_id(p.name, rid, l))
                    want = (t.name, e.key, rid) if stored else (None, None, None)
                    if got != want:
                        bad("get_id", feature, ex0, "get_id(%r, 0x%08x, %r) = %r, table has %r" % (p.name, rid, l, got, want))
                if any(ref.locale_of(c) == RR.DEFAULT_LOCALE for c in e.values):
                    got = (a.get_resource_xml_name(rid), a.get_resource_xml_name(rid, p.name))
                    want = ("@%s:%s/%s" % (p.name, t.name, e.key), "@%s/%s" % (t.name, e.key))
                    if got != want:
                        bad("xml_name", feature, ex0, "get_resource_xml_name(0x%08x[, %r]) = %r, table has %r" % (rid, p.name, got, want))
                if t.name == "string":
                    for l in ref.get_locales(p.name):
                        try:
                            want = ref.get_string(p.name, e.key, l)
                        except RR.Unjudged:
                            continue
                        got = a.get_string(p.name, e.key, l)
                        ok = (got is None) if want is None else (got is not None and list(got)[0] == e.key and list(got)[1] in want)
                        if not ok:
                            bad("get_string", feature, ex0, "get_string(%r, %r, %r) = %r, table stores %r" % (p.name, e.key, l, got, want))
            for wname in [None] + CFGS:
                wanted = None if wname is None else _cfg(wname, size)
                ex = ex0 | ({"wanted"} if wname is not None else set())
                try:
                    want_raw = ref.get_res_configs(rid, wanted)
                    want_res = ref.canon_resolved(rid, wanted)
                except RR.Unjudged:
                    continue
                if not present and wname is not None:
                    continue
                wcfg = None if wname is None else _wanted_cfg(axml, wname)
                # raw entries
                got_raw = []
                for c, ate in a.get_res_configs(rid, wcfg):
                    if ate.is_complex():
                        kind = "complex"
                        payload = (ate.item.id_parent, tuple((n, r.data_type, _rawdata(r.data_type, r.data, pool)) for n, r in ate.item.items))
                    elif ate.is_compact():
                        kind = "compact"
                        payload = (ate.datatype, _rawdata(ate.datatype, ate.data, pool))
                    else:
                        kind = "plain"
                        payload = (ate.key.data_type, _rawdata(ate.key.data_type, ate.key.data, pool))
                    got_raw.append((_words(c), ate.get_value(), (2 if ate.is_public() else 0) | (4 if ate.is_weak() else 0), kind, payload))
                if sorted(got_raw, key=repr) != sorted(want_raw, key=repr):
                    failing[(rid, wname)] = ("res_configs", feature, ex, "get_res_configs(0x%08x, %s) = %r, table stores %r" % (rid, wname, got_raw, want_raw))
                    continue        # the resolved view of a wrong entry adds nothing
                got_res = RR.canon_result(a.get_resolved_res_configs(rid, wcfg), cfgkey=_words, value=RR.canon_value)
                if got_res != want_res:
                    failing[(rid, wname)] = ("resolved", feature, ex, "get_resolved_res_configs(0x%08x, %s) = %r, table stores %r" % (rid, wname, got_res, want_res))
        except Exception as e:      # noqa
            bad("query-exception", feature, ex0, "querying 0x%08x raised %s: %s" % (rid, type(e).__name__, e))
    # a resource whose reference target already fails on its own is the same observation seen from further away:
    # report the deepest failing resource only
    for (rid, wname), v in failing.items():
        if not any((t, wname) in failing for t in _ref_targets(ref, rid)):
            bad(*v)
    return out, data


def _rawdata(dtype, data, pool):
    if dtype == 0x03:
        return ("str", pool[data]) if 0 <= data < len(pool) else ("badindex", data)
    return data


def _nontrivial(spec):
    if len(spec["pkgs"]) > 1:
        return True
    for p in spec["pkgs"]:
        for t in p["types"]:
            if t.get("enc", "dense") != "dense" or any(e is None for e in t["e"]):
                return True
            for e in t["e"]:
                if len(e["v"]) > 1:
                    return True
                for x in e["v"].values():
                    if x[0] != "p" or x[1][0] == "ref":
                        return True
    return False


def check_one(acc, params):
    spec = FAMILIES[params[0]][1](params)
    if params[0] == "H":
        viol, data = judge_history(spec, params[2], params[3])
        acc.case(nontrivial=params, outcome=("H", params[2][0], len(viol)))
        for key, msg in viol:
            acc.violation(key, {"params": list(params), "spec": spec, "history": {"queries": params[2], "with_a": params[3]}}, msg)
        return spec, data
    viol, data = judge(spec)
    acc.case(nontrivial=params if _nontrivial(spec) else None, outcome=(len(data) // 64, len(viol)))
    for key, msg in viol:
        acc.violation(key, {"params": list(params), "spec": spec}, msg)
    return spec, data


# ---------------------------------------------------------------------------------------------------------------------
def shards(ctx):
    return [(f, k, n) for f, (_g, _b, n) in sorted(FAMILIES.items()) for k in range(n)]


def run_shard(ctx, shard):
    fam, k, n = shard
    acc = Acc()
    gen = FAMILIES[fam][0]
    for i, params in enumerate(gen(ctx)):
        if i % n != k:
            continue
        spec, data = check_one(acc, params)
        acc.count("tables_" + fam)
        acc.count("bytes", len(data))
        if i == 7 * n + k and k < 1:
            acc.sample({"family": fam, "params": list(params), "bytes": len(data), "spec": spec})
    return acc


def replay(ctx, w):
    if "history" in w:
        viol, _ = judge_history(w["spec"], w["history"]["queries"], w["history"]["with_a"])
    else:
        viol, _ = judge(w["spec"])
    if viol:
        return "\n".join("%s: %s" % kv for kv in viol[:6])
    return None


def space(ctx):
    sizes = {f: sum(1 for _ in g(ctx)) for f, (g, _b, _n) in FAMILIES.items()}
    return {
        "families": {
            "A": "1 type, n=1..3 entries, all 2^(4n)-1 presence matrices over configs %r x %r%s" % (
                CFGS, ENCS, (" x {plain, compact, mixed} x trim; entry-area layouts reversed + rotated for every n>=2 matrix x every encoding"
                             if ctx.thorough else
                             " (+compact for n<=2); entry-area layout reversed for every n>=2 matrix (n=3: one encoding per matrix, "
                             "rotating), reversed + rotated x every encoding for the n=3 matrices over {default, en}")),
            "B": {"kinds_per_type": KINDS, "x": "ordered pairs x encodings x config sets %s x flags {0,2,4,6}" % ("(all 15)" if ctx.thorough else "{default; default+en; all 4}")},
            "C": {"source": C_SRC, "target1": C_T1, "target2": C_T2, "location": C_LOC,
                  "config_sets": CFGSETS if ctx.thorough else CFGSETS[:C_NCS], "enc": ENCS},
            "D": "127 type subsets x {1,2} packages x 3 encodings x 3 pool encodings x type-id gap",
            "E": {"dimensions": {n: len(a) for n, a in E_DIMS}, "bases": E_BASES,
                  "order": "all pairs around both bases" + ("; all triples around base 0" if ctx.thorough else "")},
        },
        "O": "24 configuration orders x 3 chunk orders x 3 encodings x {1,2} packages (3 types, 2 entries, 4 configurations)",
        "M": {"cases": M_CASES, "x": ENCS},
        "decoy": "before every table: the same table with all values changed is parsed and queried in the same process",
        "alternative_entry_points": ["get_id per locale", "get_resource_xml_name", "get_public_resources XML", "get_string_resources XML"],
        "H": {"histories": "on one parser object: (all listings) -> query -> all listings; and: query -> all listings",
              "tables": "family A n<=2 dense (270) + family D single/pair/full type sets x {1,2} packages (58)",
              "queries": [q for q, _f in QUERIES], "depth": 2 if ctx.thorough else 1,
              "listings": ["get_packages_names", "get_locales", "get_types", "get_type_configs", "get_strings_resources",
                           "get_resolved_strings", "get_arsc_info"]},
        "tables": sizes, "total_tables": sum(sizes.values()),
        "queries_per_table": "every resource id (holes included) x {all configs, each of the 4 configs when stored}; "
                             "packages, locales, types, type configs, id by key, get_string per locale",
        "bounded_product": "the full cross product of all dimensions is not enumerated; each family is complete for the "
                           "dimensions it names with the others at base, E covers every pair of values of every two dimensions",
    }


def _plain_concrete(feature):
    return feature.startswith("plain[") and "ref" not in feature and "+" not in feature


def minimise_keys(viol):
    """Key minimisation (input side): a violation key is  aspect:feature|extra|extra...  .  Key K is the same defect seen
    through irrelevant additional features, and is folded into K2, when both have the same aspect and
      * the same entry feature and K2's extras are a strict subset of K's, or
      * K2's entry feature is the plainest one (a plain entry with a concrete value) and K2's extras are a subset of K's:
        what already fails for a plain entry under conditions X explains every other entry kind under conditions >= X
        (plain entries of different value classes under the same conditions fold into the alphabetically first).
    A key with an unusual entry feature (compact, complex, reference) never swallows a key with another feature."""
    parsed = {}
    for k in viol:
        base, ex = split_key(k)
        aspect, feature = base.split(":", 1)
        parsed[k] = (aspect, feature, ex)
    drop = {}
    for k, (a, f, ex) in parsed.items():
        for k2, (a2, f2, ex2) in sorted(parsed.items(), key=lambda kv: (len(kv[1][2]), kv[0])):
            if k2 == k or a2 != a:
                continue
            exx = ex | ({"enc=off16", "enc=sparse"} if "enc=percfg" in ex else set())   # per-config encodings use both
            if (f2 == f and ex2 < exx) or (_plain_concrete(f2) and not _plain_concrete(f) and ex2 <= exx) or \
                    (_plain_concrete(f2) and _plain_concrete(f) and f2 != f and (ex2 < exx or (ex2 == exx and f2 < f))):
                drop[k] = k2
                break
    for k, k2 in drop.items():
        while k2 in drop:
            k2 = drop[k2]
        viol[k2]["count"] += viol[k]["count"]
    for k in drop:
        del viol[k]


def finalize(ctx, acc):
    minimise_keys(acc.viol)
    # outside this property (value listings are not among the observed APIs), recorded so that it is not lost
    try:
        from androguard.core import axml
        from gen import arscgen as G
        a = axml.ARSCParser(G.serialise(table_from_spec(build_d(("D", 4, 1, "dense", 0, 0)))))
        a.get_bool_resources("com.a")
    except Exception as e:      # noqa
        acc.note("not judged here: get_bool_resources() (and get_arsc_info() through it) raises %s for a bool resource that is "
                 "true (0xFFFFFFFF): get_resource_bool compares the unsigned data word with -1" % type(e).__name__)
    # vacuity self-test: the judge must see a deliberately wrong model
    import copy
    spec = build_b(("B", "integer", "p-int", "c-int", "sparse", 1, 0))
    if acc.n < 20000 and not ctx.thorough:
        acc.harness_error("space degenerated: only %d tables" % acc.n)
    if len(acc.outcomes) < 20:
        acc.harness_error("only %d distinct outcomes" % len(acc.outcomes))
    from gen import arscgen as G
    from ref import resolver as RR
    from androguard.core import axml
    t1 = table_from_spec(spec)
    spec2 = copy.deepcopy(spec)
    spec2["pkgs"][0]["types"][0]["e"][0]["v"][""] = ["p", ["r", G.TYPE_INT_DEC, 7]]
    a = axml.ARSCParser(G.serialise(table_from_spec(spec2)))
    rid = t1.resid(0, 0, 0)
    got = RR.canon_result(a.get_resolved_res_configs(rid), cfgkey=_words, value=RR.canon_value)
    if got == RR.RefResolver(t1).canon_resolved(rid):
        acc.harness_error("self-test: a table with a changed value is not distinguished from the model")
