"""C11  The control-flow graph has exactly the successors the bytecode allows   (engine E2: bounded structure enumeration).

Space: every method built from a skeleton of <= 3 (thorough: <= 4) slots over {const/4, div-int, return-void, throw,
goto->t, if-eqz->t, packed-switch->{t,u}, sparse-switch->{t,u}}, t <= u ranging over ALL slots 0..n (backward, forward,
the slot itself, the first instruction, the appended final return-void, duplicate switch targets, targets that coincide
with the fall-through side); switch payloads 4-aligned behind the final return.  Plus every method of the shipped DEX
files (quick: classes.dex) with targets decoded by the independent decoder gen/dalvik.
Additional plans (checks/cfgcommon.extra_plans): two packed or two sparse switches sharing ONE payload; payload tables
in the MIDDLE of the code (jumped over by a goto/16); the set_instructions() HISTORY family (analyse, ONE edit of the
instruction list -- prepend 1 nop, prepend 2 nops, nop behind the final return, list replaced by itself --, NEW
MethodAnalysis judged against the reference decoded from the edited bytes; keys end in ":after:set_instructions";
histories that make a switch offset 2 mod 4 are counted, not judged).
No-op history (plans again-*): the SAME parsed code analysed again without any edit -- a stand-alone MethodAnalysis(vm, em)
and a second Analysis(vm) over the same DEX object -- judged exactly like the first analysis (keys end in
":second-analysis"); every shipped method is likewise analysed twice.
Oracle (ref/cfg.judge_c11): for every basic block, the SET of blocks in `childs` equals the blocks containing the
in-method targets of the block's last instruction -- next block for fall-through and for the not-taken side of if/switch,
the jump target for goto / taken if, every case target for switches, nothing after return/throw -- and the set of
blocks in `fathers` is the inverse of the observed `childs` relation.
Exception edges: androguard (HEAD) keeps handler successors out of `childs` (they live in get_exception_analysis());
should a tree add them, edges that are exactly handler blocks of a try covering the block are tolerated and counted.
"""
from checks import cfgcommon as CC
from ref import cfg as R

HISTORY_SKIP_UNALIGNED = True
ALT_TOPICS = ("edges",)
PROPERTY = "C11"
LEVEL = "exploration"
RULE = ("all skeletons of <=3 (thorough <=4) slots over an 8-kind slot alphabet, branch and switch targets t<=u over all "
        "slots incl. self, first instruction and the final return; all methods of the shipped DEX files.  Non-trivial = "
        "more than one basic block; distinct by construction (enumeration index) / by (file, class, method)")
ASSUMPTIONS = ["trusted: gen/dalvik, gen/dexgen, gen/dexread, ref/cfg.py (successor rule = Dalvik bytecode semantics of "
               "goto/if/switch/return/throw)",
               "successors and predecessors are compared as sets of blocks (duplicate edges ignored, the offsets stored "
               "in the edge tuples are not judged)",
               "successors of a block whose last instruction is a payload pseudo-instruction FOLLOWED by code are not "
               "judged (never executed); at the end of the method 'no successor' is required",
               "exception edges into handler blocks of a covering try would be tolerated (HEAD has none in childs)"]
MANIFEST = {
    "engine": "E2-structures",
    "technique": "exhaustive enumeration of small Dalvik methods against reference successor semantics",
    "text": "Every method of the slot grammar up to the bound -- which contains every combination of backward, forward, self, "
            "first-instruction, duplicate and coinciding targets for goto, if and both switch forms -- is assembled by an "
            "independent writer and analysed by the real code; childs/fathers of every block are compared with the "
            "successor relation derived from the generating model.  Shipped DEX files are swept completely.  Complete for "
            "the stated bound.",
    "note": "Trusted: gen/dalvik, gen/dexgen, gen/dexread, ref/cfg.py.  Longer methods only through the shipped files.",
}
_ME = "checks.c11"


def plans(ctx):
    top = 4 if ctx.thorough else 3
    return [{"id": "plain-n%d" % n, "n": n, "kinds": "PTRXGIKS"} for n in range(0, top + 1)] + CC.extra_plans(ctx)


def space(ctx):
    return CC.space_common(ctx, plans(ctx))


def shards(ctx):
    return CC.shards_common(ctx, plans(ctx))


def judge(acc, rm, obs, layout, ma=None, gen=True):
    v, tol = R.judge_c11(rm, obs)
    if tol:
        acc.count("exception_edges_tolerated", tol)
    acc.count("blocks_checked", len(obs["blocks"]))
    acc.count("edges_checked", sum(len(set(b["childs"])) for b in obs["blocks"]))
    return v


def run_shard(ctx, shard):
    return CC.run_shard_common(__import__(_ME, fromlist=["x"]), ctx, shard)


def replay(ctx, w):
    return CC.replay_common(__import__(_ME, fromlist=["x"]), ctx, w)


def finalize(ctx, acc):
    for k in ["methods_with_back-edge", "methods_with_switch", "methods_with_self-edge", "methods_with_dup-switch-target",
              "methods_with_coincide", "methods_with_to-first", "methods_with_goto", "methods_with_if",
              "methods_with_throw", "shipped_methods", "edges_checked"]:
        if not acc.extra.get(k):
            acc.harness_error("vacuity: counter %s is zero" % k)
    if len(acc.outcomes) < 50:
        acc.harness_error("vacuity: only %d distinct CFG shapes observed" % len(acc.outcomes))
    if acc.extra.get("exception_edges_tolerated"):
        acc.note("%d exception edges into handler blocks of a covering try were tolerated in childs"
                 % acc.extra["exception_edges_tolerated"])
