"""C37  Decompile output stays inside the output directory  (engine E2).

Space: generated DEX files with one class each; class name = 'L' + '/'.join(segments) + ';' for EVERY sequence of 1..3
segments over {a, .., ., "", x*250} (155 names), crossed with method names {m, ../e, a/b, .., x*300, /abs};
plus parameter/return types whose descriptors contain '..' segments.  `export_apps_to_format` (the decompile command's
worker) is called directly with a duck-typed session yielding the real (vm, analysis); the output directory is nested
eight levels below a scratch root, so every escape by up to seven '..' stays observable inside the scratch root
(the space contains chains of up to six leading '..' segments).
Oracle: after the call (whether it returned or raised), every file and directory that exists under the scratch root
lies inside the output directory.  Exceptions are allowed, escapes are not.
"""
import contextlib
import io
import itertools
import os
import shutil
import tempfile

from mc.core import Acc, h8

PROPERTY = "C37"
LEVEL = "exploration"
RULE = ("all class names of 1..3 segments over {a,'..','.','',x*250} x 6 method names (+ '..' in parameter types); one export per "
        "(class name, method name); the real file system is walked afterwards; non-trivial = the name contains a '..', '.', empty, "
        "over-long or '/'-bearing component; distinct by (class name, method name)")
ASSUMPTIONS = ["the sandbox is a scratch directory created by the check; escapes by more than seven '..' levels are outside the space",
               "export_apps_to_format is the code path of `androguard decompile` (cli/main.py); the click wrapper is not exercised"]
MANIFEST = {
    "engine": "E2-structures",
    "technique": "bounded exhaustive enumeration of hostile class/method names in generated DEX files, real file-system walk as oracle",
    "text": "Every class name of up to three path segments over {a, .., ., empty, 250 x} (plus climbing chains of 3-6 leading '..') combined with six method names is "
            "written into a real DEX file and exported with the real decompile worker into a sandbox; every path created must lie "
            "inside the requested output directory.",
    "note": "Trusted: os.walk of the scratch root; gen/dexgen.",
}

SEGS = ["a", "..", ".", "", "x" * 250]
DISGUISED = ["..\x00", "\x00..", ".\x00.", ".\x00",
             # compatibility characters that Unicode normalisation (NFKC/NFKD) folds into '.', '..' and '/'
             "\u2025", "\u2024\u2024", "\uff0e\uff0e", "\u2024.", "a\uff0f..\uff0f..\uff0fb",
             # dot segments padded with characters a later normalisation step may strip (blank, tab, newline, no-break / ideographic space)
             " ..", ".. ", "\t..", "..\n", " . ", "\u00a0..", "..\u3000"]
SIBLINGS = ["out2", "out.bak", "ou"]          # names sharing a CHARACTER prefix with the output directory's name "out"
ALLSEGS = SEGS + DISGUISED + SIBLINGS
MNAMES = ["m", "../e", "a/b", "..", "x" * 300, "/abs"]


def class_names():
    out = []
    for n in (1, 2, 3):
        for segs in itertools.product(range(len(SEGS)), repeat=n):
            out.append(segs)
    # deeper climbing chains: k = 3..6 leading '..' (optionally behind an empty or '.' first segment) followed by 'a'
    DD, DOT, EMPTY, A = SEGS.index(".."), SEGS.index("."), SEGS.index(""), SEGS.index("a")
    for k in (3, 4, 5, 6):
        for lead in ((), (EMPTY,), (DOT,), (A,)):
            out.append(tuple(lead) + (DD,) * k + (A,))
            out.append(tuple(lead) + (DD,) * k)
    # segments that only BECOME '..' / '.' after a later clean-up step (an embedded U+0000 is legal MUTF-8, and code that
    # strips it after the segment check re-creates the climbing segment): all names of 1..2 segments over SEGS + DISGUISED,
    # and 3-segment names whose first two segments are disguised
    ext = list(range(len(SEGS) + len(DISGUISED)))
    dis = ext[len(SEGS):]
    for n in (1, 2):
        for segs in itertools.product(ext, repeat=n):
            if any(x in dis for x in segs):
                out.append(segs)
    for a in dis:
        for b_ in dis:
            for c in (A, DD):
                out.append((a, b_, c))
    # climbing into a SIBLING of the output directory whose name shares a character prefix with it (a containment test
    # done on strings instead of path components lets these through)
    sib = list(range(len(SEGS) + len(DISGUISED), len(ALLSEGS)))
    for x in sib:
        for lead in ((DD,), (DD, DD), (DOT, DD), (EMPTY, DD)):
            out.append(tuple(lead) + (x, A))
            out.append(tuple(lead) + (x,))
    return out


FORMS = [None, "raw", "png"]      # --format of `androguard decompile`: extra per-method graph files next to the .ag files


def cases(ctx):
    nplain = len(SEGS)
    for segs in class_names():
        # names of 2+ segments that contain a disguised / sibling segment: two method names in quick (the method-name dimension
        # is crossed completely with the plain alphabet and with all one-segment names), all six in thorough
        reduced = (not ctx.thorough) and len(segs) > 1 and any(x >= nplain for x in segs)
        for mi in ((0, 1) if reduced else range(len(MNAMES))):
            yield (list(segs), mi, 0, 0)
    # the per-method graph export (form != None) writes one more file per method through its own path expression
    for segs in class_names():
        for mi in (0, 1):
            yield (list(segs), mi, 0, 1)
        if len(segs) == 1:
            for mi in range(len(MNAMES)):
                yield (list(segs), mi, 0, 2)
    # '..' inside parameter / return types (they appear in the method's short string used as file name)
    for segs in ([0], [0, 0]):
        for mi in (0, 2):
            yield (segs, mi, 1, 0)
            yield (segs, mi, 1, 1)


def features(case):
    segs, mi, ptype = case[:3]
    f = []
    names = [ALLSEGS[i] for i in segs]
    if ".." in names:
        f.append("class:dotdot")
    if any("\x00" in n for n in names):
        f.append("class:nul-disguised-dots")
    if any(n != n.strip() and n.strip() in (".", "..") for n in names):
        f.append("class:whitespace-padded-dots")
    elif any(ord(ch) > 0x2000 for n in names for ch in n):
        f.append("class:unicode-compat-dots")
    if any(n in SIBLINGS for n in names):
        f.append("class:sibling-prefix")
    if "." in names:
        f.append("class:dot")
    if "" in names:
        f.append("class:empty-segment")
    if any(len(n) > 200 for n in names):
        f.append("class:long-segment")
    f.append("method:" + {0: "plain", 1: "dotdot-slash", 2: "slash", 3: "dotdot", 4: "long", 5: "leading-slash"}[mi])
    if ptype:
        f.append("param:dotdot-type")
    if len(case) > 3 and case[3]:
        f.append("graph-format:" + FORMS[case[3]])
    return f


def build(case):
    from gen import dalvik as D, dexgen as G
    segs, mi, ptype = case[:3]
    cname = "L" + "/".join(ALLSEGS[i] for i in segs) + ";"
    params = ("L../../p/Q;", "I") if ptype else ("I",)
    ret = "L../r/R;" if ptype else "V"
    code = G.Code(3, 2, 0, (D.enc("const/4", 0, 0) + D.enc("return-object", 0)) if ptype else D.enc("return-void"))
    m = G.Method(MNAMES[mi], ret, params, G.ACC_PUBLIC, code)
    return G.Dex([G.Class(cname, vmethods=[m])]), cname


class _Sess:
    def __init__(self, vm, vmx):
        self.vm, self.vmx = vm, vmx

    def get_objects_dex(self):
        yield "digest", self.vm, self.vmx


def judge(case):
    """-> None | (key, msg)"""
    from gen import dexgen as G
    from androguard.core import dex
    from androguard.core.analysis.analysis import Analysis
    from androguard.decompiler.decompiler import DecompilerDAD
    from androguard.cli import main as climain
    model, cname = build(case)
    raw = G.build(model)
    root = tempfile.mkdtemp(prefix="verif_c37_")
    out = os.path.join(root, "l1", "l2", "l3", "l4", "l5", "l6", "l7", "out")
    os.makedirs(os.path.dirname(out))
    cwd = os.getcwd()
    exc = None
    try:
        os.chdir(os.path.dirname(out))
        vm = dex.DEX(raw)
        dx = Analysis(vm)
        vm.set_decompiler(DecompilerDAD(vm, dx))
        dx.create_xref()
        try:
            with contextlib.redirect_stdout(io.StringIO()):
                climain.export_apps_to_format("in.dex", _Sess(vm, dx), out, None, False, None, FORMS[case[3]] if len(case) > 3 else None)
        except Exception as e:      # noqa  (exceptions are allowed)
            exc = "%s: %s" % (type(e).__name__, str(e)[:120])
        outside = []
        created = 0
        for d, dirs, files in os.walk(root):
            for n in dirs + files:
                p = os.path.join(d, n)
                created += 1
                rp = os.path.realpath(p)
                if rp == out or rp.startswith(out + os.sep) or out.startswith(rp + os.sep):
                    continue        # inside the output directory, or an ancestor of it
                outside.append(os.path.relpath(p, root))
        if outside:
            fs = features(case)
            # input-side key: the most specific hostile component (class '..' dominates, then the method-name kind)
            dom = ([f for f in fs if f == "class:whitespace-padded-dots"] or [f for f in fs if f == "class:unicode-compat-dots"] or [f for f in fs if f == "class:sibling-prefix"] or [f for f in fs if f == "class:nul-disguised-dots"] or [f for f in fs if f == "class:dotdot"] or [f for f in fs if f.startswith("method:") and f != "method:plain"]
                   or [f for f in fs if f.startswith("param:")] or [f for f in fs if f.startswith("class:")] or ["plain"])[0]
            return ("escape:" + dom,
                    "class %r method %r: created outside the output directory %s: %s (exception: %s)"
                    % (cname[:60], MNAMES[case[1]][:20], os.path.relpath(out, root), sorted(outside)[:4], exc)), created, exc
        return None, created, exc
    finally:
        os.chdir(cwd)
        shutil.rmtree(root, ignore_errors=True)


NSH = 48


def shards(ctx):
    return list(range(NSH))


def space(ctx):
    return {"segments": ["a", "..", ".", "", "x*250"], "disguised_segments": [ascii(d)[1:-1] for d in DISGUISED], "sibling_prefix_segments": SIBLINGS, "max_segments": 3, "climbing_chains": "3..6 leading '..' behind {nothing, empty, '.', 'a'}, with and without a final name", "class_names": len(class_names()),
            "method_names": [m[:12] for m in MNAMES], "exports": sum(1 for _ in cases(ctx)), "output_nesting": 8,
            "graph_formats": "none for every case; 'raw' for every class name x 2 method names; 'png' for one-segment names x 6 method names"}


def run_shard(ctx, shard):
    acc = Acc()
    for n, case in enumerate(cases(ctx)):
        if n % NSH != shard:
            continue
        r, created, exc = judge(case)
        f = features(case)
        acc.case(nontrivial=repr(case) if f != ["method:plain"] else None,
                 outcome=("exc" if exc else "ok", min(created, 6)))
        acc.count("exports_raising", 1 if exc else 0)
        acc.count("paths_created", created)
        if r:
            acc.violation(r[0], {"case": case}, r[1])
        if n in (0, 13):
            acc.sample({"class_segments": [ALLSEGS[i][:8] for i in case[0]], "method": MNAMES[case[1]][:12], "paths_created": created, "exception": exc})
    return acc


def replay(ctx, w):
    c = w["case"]
    r, _, _ = judge((list(c[0]), c[1], c[2], c[3] if len(c) > 3 else 0))
    return r[1] if r else None


def finalize(ctx, acc):
    if acc.extra.get("paths_created", 0) < acc.n:
        acc.harness_error("vacuous: exports created almost no files (%d paths for %d exports)" % (acc.extra.get("paths_created", 0), acc.n))
