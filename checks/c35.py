"""C35  Parsers terminate on every input  (engine E4: exhaustive single-fault enumeration under a deterministic step budget).

Catalogue of small valid artefacts: generated DEX files (gen/dexcatalog), generated binary XML documents (gen/axmlgen),
generated resource tables (gen/arscgen), APKs (stdlib zipfile: manifest + dex + arsc), and the shipped DEX files <= 1100 bytes.
For each artefact, EVERY one of these single faults:
  * byte substitution at every offset with values {00, 01, 7f, 80, fe, ff, b^01, b^80} (thorough: all 255 for files <= 400 bytes),
  * truncation at every length,
  * every 4-byte-aligned 32-bit word overwritten with {0, 1, 0x7fffffff, 0xffffffff}; every 2-byte-aligned 16-bit word with {0, ffff};
    every 4-byte-aligned 64-bit word with {2^64-1, 2^64-8, 2^64-16, 2^63, 2^63-1, 2^32},
  * crafted: DEX string data without terminator at end of file (string section placed last, terminator cut), AXML/ARSC chunk sizes 0 / 8.
DEX mutants get their Adler-32 REPAIRED so that parsing continues past the header (unrepaired mutants die in the header: C09).
Oracle: mc/budget.py: the parse returns or raises within B(n) = 3*10^5 + 300*n + 2*n^2 interpreter events (function
entries + jumps + branches; valid files need ~10-40 events per byte); exceeding the budget is the deterministic meaning of
'does not finish in time bounded by the input size'.
Exploration of one artefact shard stops after 3 runaway mutants (reported as capped, exhaustive=false).
"""
import io
import struct
import zipfile
import zlib

from mc.core import Acc, h8
from mc.budget import run_with_budget

PROPERTY = "C35"
LEVEL = "fault_enumeration"
RULE = ("small valid DEX/AXML/ARSC/APK artefacts x {8 byte values at every offset, every truncation, every aligned 32-bit word x 4 "
        "values, every aligned 16-bit word x 2 values, crafted unterminated/zero-size structures}; DEX checksum repaired; each "
        "mutant parsed under an event budget polynomial in the input size; distinct by construction (artefact, fault); "
        "non-trivial = the mutant got past the header check (parsing proper was exercised)")
ASSUMPTIONS = ["termination is judged by a deterministic interpreter-event budget B(n)=3e5+300 n+2 n^2, not by wall clock",
               "work inside one C call produces no events; it is bounded separately by user-CPU time of the process (5 s + budget/5e5 s, ITIMER_VIRTUAL, "
               "independent of machine load), which only a C-level runaway such as a backtracking regular expression can reach",
               "single faults on small artefacts: not all byte strings"]
MANIFEST = {
    "engine": "E4-faults",
    "technique": "exhaustive single-fault enumeration (substitutions, truncations, field overwrites) under a deterministic step budget",
    "text": "Every single-byte substitution from an 8-value alphabet, every truncation and every aligned count/size/offset word "
            "overwrite of small valid DEX, binary-XML, resource-table and APK files is parsed by the real parsers under an "
            "interpreter-event budget polynomial in the input size; a parse that neither returns nor raises within the budget is a "
            "violation.",
    "note": "Trusted: mc/budget.py (sys.monitoring PY_START/JUMP/BRANCH events), the generators for the seed artefacts.",
}

RUNAWAY_CAP = 2


# ------------------------------------------------------------------------------------------------ artefacts
def _axml_docs():
    from gen import axmlgen as A
    ns = A.ANDROID_NS
    manifest = {"utf8": True, "resmap": True, "root": {
        "ns": None, "name": "manifest", "decl": [["android", ns]],
        "attrs": [{"ns": None, "name": "package", "t": 3, "d": 0, "s": "com.a"},
                  {"ns": ns, "name": "versionCode", "t": 0x10, "d": 7, "rid": 0x0101021b}],
        "kids": [{"ns": None, "name": "uses-sdk", "decl": [], "attrs": [{"ns": ns, "name": "minSdkVersion", "t": 0x10, "d": 21, "rid": 0x0101020c}], "kids": []},
                 {"ns": None, "name": "application", "decl": [], "attrs": [], "kids": [
                     {"ns": None, "name": "activity", "decl": [], "attrs": [{"ns": ns, "name": "name", "t": 3, "d": 0, "s": ".Main", "rid": 0x01010003}],
                      "kids": [{"text": "hello"}]}]}]}}
    utf16 = {"utf8": False, "resmap": False, "root": {"ns": None, "name": "a", "decl": [["p", "urn:x"]],
                                                      "attrs": [{"ns": "urn:x", "name": "k", "t": 3, "d": 0, "s": "vé"}],
                                                      "kids": [{"ns": None, "name": "b1", "decl": [], "attrs": [], "kids": []}, {"text": "t"}]}}
    tiny = {"utf8": True, "resmap": False, "root": {"ns": None, "name": "a", "decl": [], "attrs": [], "kids": []}}
    # element / attribute names much longer than any in a real manifest (80 and 72 valid name characters): a one-byte fault
    # turns one of them into 'long valid run + one invalid character', the input on which a name-validation pattern with
    # nested quantifiers backtracks exponentially (work inside a single C call: caught by the CPU-time bound)
    longn = {"utf8": True, "resmap": False, "root": {"ns": None, "name": "abcdefgh-j" * 8, "decl": [["p", "urn:x"]],
                                                     "attrs": [{"ns": "urn:x", "name": "k_lmnop.r" * 8, "t": 3, "d": 0, "s": "v"}], "kids": []}}
    return {"axml:long-names": A.serialize(A.build(longn)),"axml:manifest": A.serialize(A.build(manifest)), "axml:utf16": A.serialize(A.build(utf16)), "axml:tiny": A.serialize(A.build(tiny))}


def _arsc_tables():
    from gen import arscgen as R
    d, en = R.Cfg(), R.Cfg(lang="en")
    t1 = R.Table([R.Package(0x7f, "com.a", [
        R.Type("string", [R.Entry("app_name", {d: R.Plain(R.S("App")), en: R.Plain(R.S("AppEn"))}), None,
                          R.Entry("ref", {d: R.Plain(R.R(0x7f010000))})]),
        R.Type("array", [R.Entry("arr", {d: R.Complex([(0x02000000, R.I(1)), (0x02000001, R.S("x"))])})]),
    ])])
    t2 = R.Table([R.Package(0x7f, "p", [R.Type("integer", [R.Entry("i", {d: R.Compact(R.I(5))}), R.Entry("j", {d: R.Plain(R.I(6))})], enc="sparse")])], utf8=False)
    t3 = R.Table([R.Package(0x7f, "q", [R.Type("bool", [R.Entry("b", {d: R.Plain(R.B(True))})], enc="off16")])])
    return {"arsc:two-types": R.serialise(t1), "arsc:sparse-utf16": R.serialise(t2), "arsc:off16": R.serialise(t3)}


def _dex_files(repo):
    import glob
    import os
    from gen import dexcatalog, dexgen
    out = {"dex:" + n: dexgen.build(f()) for n, f in dexcatalog.TINY.items()}
    out["dex:full"] = dexgen.build(dexcatalog.m_full())
    out["dex:strings-last"] = dexgen.build(dexcatalog.m_fields(), string_data_last=True)
    for p in sorted(glob.glob(os.path.join(repo, "tests/data/APK/*.dex"))):
        b = open(p, "rb").read()
        if len(b) <= 1100:
            out["dex:shipped:" + os.path.basename(p)] = b
    return out


def _apks(ax, ar, dx):
    out = {}
    for name, comp in (("apk:stored", zipfile.ZIP_STORED), ("apk:deflated", zipfile.ZIP_DEFLATED)):
        bio = io.BytesIO()
        with zipfile.ZipFile(bio, "w", comp) as z:
            for n, data in (("AndroidManifest.xml", ax["axml:manifest"]), ("classes.dex", dx["dex:method"]), ("resources.arsc", ar["arsc:off16"])):
                zi = zipfile.ZipInfo(n, date_time=(2020, 1, 1, 0, 0, 0))
                zi.compress_type = comp
                z.writestr(zi, data)
        out[name] = bio.getvalue()
    # an APK with an APK Signing Block (v2 + v3 + v3.1 + unknown id), spliced in by the independent writer gen/apkgen
    from gen import apkgen as K
    cert = K.cert_der("rsa")
    s2 = {"digests": [(0x0103, b"\x11" * 32), (0x0104, b"\x22" * 64)], "certs": [cert], "attrs": b"", "sigs": [(0x0103, b"\x33" * 32)], "pubkey": K.pubkey_der("rsa")}
    s3 = dict(s2, min=24, max=0x7fffffff, smin=24, smax=0x7fffffff)
    small = K.make_zip([("AndroidManifest.xml", ax["axml:tiny"], "stored"), ("classes.dex", dx["dex:empty"], "stored")])
    out["apk:signing-block"] = K.insert_signing_block(small, [(K.ID_V2, K.v2_value([s2])), (K.ID_V3, K.v3_value([s3])),
                                                              (K.ID_V31, K.v3_value([s3])), (K.ID_UNKNOWN, b"\x00" * 8)])
    return out


_ART = {}


def artefacts(ctx):
    if not _ART:
        ax, ar, dx = _axml_docs(), _arsc_tables(), _dex_files(ctx.repo)
        _ART.update(dx); _ART.update(ax); _ART.update(ar); _ART.update(_apks(ax, ar, dx))
    return _ART


# ------------------------------------------------------------------------------------------------ parse drivers
def parse_dex(buf):
    from androguard.core import dex
    vm = dex.DEX(buf)
    for m in vm.get_encoded_methods():
        if m.get_code() is not None:
            for _ in m.get_instructions():
                pass
            try:
                m.get_debug()
            except Exception:      # noqa  (errors are fine, only non-termination is judged)
                pass
    vm.get_strings()
    return True


def parse_axml(buf):
    from androguard.core.axml import AXMLPrinter
    p = AXMLPrinter(buf)
    p.get_xml()
    return True


def parse_arsc(buf):
    from androguard.core.axml import ARSCParser
    p = ARSCParser(buf)
    for pk in p.get_packages_names():
        p.get_locales(pk)
        p.get_types(pk)
    for rid in (0x7f010000, 0x7f010002, 0x7f020000):
        try:
            p.get_resolved_res_configs(rid)
        except Exception:     # noqa
            pass
    return True


def parse_apk(buf):
    from androguard.core.apk import APK
    a = APK(buf, raw=True)
    a.get_files()
    a.get_package()
    # signing-block readers (errors are fine, only non-termination is judged)
    for q in (a.is_signed_v2, a.is_signed_v3, a.get_certificates_der_v2, a.get_certificates_der_v3, a.get_signature_names):
        try:
            q()
        except Exception:     # noqa
            pass
    return True


DRIVERS = {"dex": parse_dex, "axml": parse_axml, "arsc": parse_arsc, "apk": parse_apk}


def budget(n):
    return 300000 + 300 * n + 2 * n * n


def cpu_bound(B):
    """user-CPU seconds: 5 s plus the time B events can take at a pessimistic 5e5 events/s (measured: > 2e6/s), i.e. never reached by work the
    event budget sees; only a runaway inside one C call (regular expression) gets here"""
    return 5 + B / 5e5


def repair_dex(b):
    if len(b) < 12:
        return b
    b = bytearray(b)
    b[8:12] = struct.pack("<I", zlib.adler32(bytes(b[12:])) & 0xffffffff)
    return bytes(b)


# ------------------------------------------------------------------------------------------------ faults
SUBS = [0x00, 0x01, 0x7f, 0x80, 0xfe, 0xff]
W64 = [0xffffffffffffffff, 0xfffffffffffffff8, 0xfffffffffffffff0, 0x8000000000000000, 0x7fffffffffffffff, 0x0000000100000000]


def faults(ctx, base):
    n = len(base)
    all255 = ctx.thorough and n <= 400
    for off in range(n):
        b = base[off]
        vals = range(256) if all255 else dict.fromkeys(SUBS + [b ^ 1, b ^ 0x80])
        for v in vals:
            if v != b:
                yield ("sub", off, v)
    for t in range(n):
        yield ("trunc", t)
    for off in range(0, n - 3, 4):
        for v in (0, 1, 0x7fffffff, 0xffffffff):
            yield ("w32", off, v)
    for off in range(0, n - 1, 2):
        for v in (0, 0xffff):
            yield ("w16", off, v)
    # 64-bit length fields (APK Signing Block pairs, zip64-style sizes): every 4-aligned 8-byte word overwritten with the
    # values at which a signed/unsigned or wrap-around slip shows
    if n <= 6000:
        for off in range(0, n - 7, 4):
            for v in W64:
                yield ("w64", off, v)
    yield ("cut-last-byte-keep-size",)


def apply(base, f, kind):
    k = f[0]
    if k == "sub":
        b = bytearray(base); b[f[1]] = f[2]; b = bytes(b)
    elif k == "trunc":
        b = base[:f[1]]
    elif k == "w32":
        b = bytearray(base); b[f[1]:f[1] + 4] = struct.pack("<I", f[2]); b = bytes(b)
    elif k == "w16":
        b = bytearray(base); b[f[1]:f[1] + 2] = struct.pack("<H", f[2]); b = bytes(b)
    elif k == "w64":
        b = bytearray(base); b[f[1]:f[1] + 8] = struct.pack("<Q", f[2]); b = bytes(b)
    elif k == "cut-last-byte-keep-size":
        b = base[:-1]
    else:
        raise ValueError(k)
    if kind == "dex":
        b = repair_dex(b)
    return b


def region_of(name, base, f):
    """input-side classification of where the fault hits"""
    kind = name.split(":")[0]
    if f[0] in ("trunc", "cut-last-byte-keep-size"):
        return "truncation"
    off = f[1]
    if kind == "dex":
        if off < 0x70:
            return "header"
        data_off, = struct.unpack_from("<I", base, 0x6c)
        map_off, = struct.unpack_from("<I", base, 0x34)
        if off < data_off:
            return "id-tables"
        if off >= map_off:
            return "map"
        # which data section (from the map)
        n, = struct.unpack_from("<I", base, map_off)
        secs = sorted((struct.unpack_from("<HHII", base, map_off + 4 + 12 * i) for i in range(n)), key=lambda e: e[3])
        cur = "data"
        for t, _, _, o in secs:
            if o <= off:
                cur = "section-%04x" % t
        return cur
    if kind in ("axml", "arsc"):
        # walk top-level chunks
        pos, cur = 8 if kind == "axml" else 12, "file-header"
        if off < pos:
            return cur
        while pos + 8 <= len(base):
            t, hs, sz = struct.unpack_from("<HHI", base, pos)
            if sz < 8:
                break
            if pos <= off < pos + sz:
                where = "header" if off < pos + hs else "body"
                return "chunk-%04x:%s" % (t, where)
            pos += sz
        return "tail"
    return "zip"


def _warm():
    """imports must not happen under the budget (an interrupted import leaves a half-initialised module behind)"""
    from androguard.core import dex, axml, apk      # noqa
    import apkInspector.headers                     # noqa
    import androguard.core.resources.public         # noqa  (lazily imported by the AXML parser on the first attribute-id lookup)
    import logging
    logging.disable(logging.CRITICAL)               # apkInspector logs through the stdlib root logger


_RETRIES = [0]


def judge(name, base, f):
    """-> (status, events, key or None, msg)"""
    _warm()
    kind = name.split(":")[0]
    buf = apply(base, f, kind)
    B = budget(len(buf))
    import contextlib
    with contextlib.redirect_stdout(io.StringIO()):     # the ARSC parser print()s diagnostics
        status, val, ev = run_with_budget(lambda: DRIVERS[kind](buf), B, cpu_bound(B))
        if status == "budget" and _RETRIES[0] < 3:
            _RETRIES[0] += 1        # lazy initialisation happens at most a few times per process: so do the second attempts
            # one-time lazy initialisation inside the library (e.g. the system resource-id table that is loaded the first
            # time an attribute id has to be looked up, a regex cache, a lazily imported module) is charged to whichever
            # parse happens to trigger it first in this process; it is not work 'bounded by the input'.  A parse that
            # really does not terminate exceeds the budget again on the immediate second attempt; only that is reported.
            status, val, ev = run_with_budget(lambda: DRIVERS[kind](buf), B, cpu_bound(B))
    if status == "budget":
        how = "%.0f s of CPU inside C calls (only %d events)" % (cpu_bound(B), ev) if val == "cpu" else "%d events" % B
        return status, ev, "%s:%s:%s%s" % (kind, f[0] if f[0] in ("trunc", "cut-last-byte-keep-size") else "overwrite", region_of(name, base, f),
                                           ":c-level" if val == "cpu" else ""), \
            "%s fault %r: parser did not finish within %s (input %d bytes)" % (name, list(f), how, len(buf))
    return status, ev, None, None


PARTS = 8


def shards(ctx):
    names = sorted(artefacts(ctx))
    return [(n, p) for n in names for p in range(PARTS)]


def space(ctx):
    arts = artefacts(ctx)
    return {"artefacts": {k: len(v) for k, v in sorted(arts.items())}, "substitution_alphabet": "00 01 7f 80 fe ff b^01 b^80" + (" (all 255 for <=400 B)" if ctx.thorough else ""),
            "word_overwrites": {"32bit": ["0", "1", "7fffffff", "ffffffff"], "16bit": ["0", "ffff"], "64bit": ["%x" % v for v in W64]}, "budget": "3e5 + 300*n + 2*n^2 events", "cpu_bound_for_c_level_work": "5 s + budget/5e5 s of user CPU time (ITIMER_VIRTUAL)",
            "runaway_cap_per_shard": RUNAWAY_CAP}


def run_shard(ctx, shard):
    import time
    name, part = shard
    base = artefacts(ctx)[name]
    kind = name.split(":")[0]
    acc = Acc()
    # the unmodified artefact must parse (otherwise the exploration around it is vacuous)
    _warm()
    st, val, ev0 = run_with_budget(lambda: DRIVERS[kind](base), budget(len(base)))
    if st != "ok":
        acc.harness_error("seed artefact %s does not parse: %s %r" % (name, st, val))
        return acc
    runaway = 0
    t0 = time.time()
    for i, f in enumerate(faults(ctx, base)):
        if i % PARTS != part:
            continue
        status, ev, key, msg = judge(name, base, f)
        acc.n += 1
        acc.nt_disjoint += 1 if (status == "ok" or ev > 60) else 0       # got past the first header checks
        acc.count("status_" + status)
        acc.outcomes.add(h8((status, min(ev // 200, 50))))
        if key:
            acc.violation(key, {"artefact": name, "fault": list(f)}, msg)
            runaway += 1
            if runaway >= RUNAWAY_CAP:
                acc.capped = "stopped exploring %s part %d after %d runaway mutants" % (name, part, runaway)
                break
    if part == 0:
        acc.sample({"artefact": name, "bytes": len(base), "events_valid_parse": ev0, "budget": budget(len(base)), "fault_example": ["sub", 0x70, 255]})
    acc.count("seed_events_" + kind, ev0)
    return acc


def replay(ctx, w):
    base = artefacts(ctx)[w["artefact"]]
    status, ev, key, msg = judge(w["artefact"], base, tuple(w["fault"]))
    return msg


def finalize(ctx, acc):
    if acc.extra.get("status_ok", 0) == 0 or acc.extra.get("status_exc", 0) == 0:
        acc.harness_error("vacuous: outcomes ok=%d exc=%d" % (acc.extra.get("status_ok", 0), acc.extra.get("status_exc", 0)))
