"""C07  DEX parsing does not depend on the order of the map list  (engine E3: exhaustive permutation exploration).

Space: generated files (gen/dexcatalog) whose map list has n entries:
  empty  (n=6)  : all 720 permutations
  fields8 (n=8) : all 40,320 permutations
  method10 (n=10), method (n=12): every permutation within <= 2 transpositions of the identity, all rotations, the reversal;
                  thorough: additionally all 8! orders of method10's inner entries (header first, map last)
  full   (n=18) : every permutation within <= 2 transpositions of the identity, all rotations, the reversal
Checksum and signature are recomputed for every permuted file.
Oracle: the canonical dump (classes, members, flags, strings, code bytes, static values, try/catch tables, annotations)
of the permuted file is identical to the dump of the identity order.
"""
import itertools

from mc.core import Acc, h8

PROPERTY = "C07"
LEVEL = "model_checking"
RULE = ("every permutation of the map entries (n<=8), every permutation within 2 transpositions + rotations + reversal (n=11,18; "
        "thorough: all 9! orders of the inner entries for n=11); state = one permuted file (distinct by construction), "
        "transition = one full parse by androguard; non-trivial = permutation differs from the identity")
ASSUMPTIONS = ["gen/dexgen's map permutation only reorders the 12-byte map entries; everything else in the file is byte-identical",
               "the dump covers classes, members, flags, strings, code, static values, tries and class / field / method annotations with all element values"]
MANIFEST = {
    "engine": "E3-history-bfs",
    "technique": "exhaustive enumeration of map-list permutations on generated DEX files, differential dump comparison",
    "text": "All n! map orders for files with n<=8 entries and all orders within two transpositions (plus rotations, reversal) for "
            "the 11- and 18-entry files are parsed by the real DEX parser; the canonical dump of everything parsed must equal the "
            "identity-order dump. States = permuted files, transitions = parses; every trace is an implementation run.",
    "note": "Trusted: gen/dexgen map permutation and checksum repair; dump function in this file.",
}


def models():
    from gen import dexcatalog as C, dexgen as G
    fields8 = G.Dex([G.Class("La/F;", sfields=[G.Field("s", "I", G.ACC_STATIC)], ifields=[G.Field("i", "[J", G.ACC_PRIVATE)])])
    method10 = G.Dex([G.Class("La/N;", vmethods=[G.Method("m", "V", (), G.ACC_PUBLIC, G.Code(2, 1, 0, b"\x0e\x00"))])])
    return {"empty": C.m_empty_class(), "fields8": fields8, "method10": method10, "method": C.m_method(), "full": C.m_full()}


def _val(cm, ev):
    """canonical form of an encoded value (references resolved to names, so a table read in the wrong order shows)"""
    t, v = ev.get_value_type(), ev.get_value()
    if t == 0x1c:
        return ["array"] + [_val(cm, x) for x in v.get_values()]
    if t == 0x1d:
        return ["annotation", cm.get_type(v.get_type_idx()), [[cm.get_raw_string(e.get_name_idx()), _val(cm, e.get_value())] for e in v.get_elements()]]
    return [t, repr(v)]


def _annset(cm, off):
    if not off:
        return None
    st = cm.get_annotation_set_item(off)
    out = []
    for o in st.get_annotation_off_item():
        ai = cm.get_annotation_item(o.get_annotation_off())
        a = ai.get_annotation()
        out.append([ai.get_visibility(), cm.get_type(a.get_type_idx()),
                    [[cm.get_raw_string(e.get_name_idx()), _val(cm, e.get_value())] for e in a.get_elements()]])
    return out


def ann_dump(vm, c):
    """class / field / method annotations with every element value (the parts of the file that point into the id tables)"""
    cm = vm.CM
    off = c.get_annotations_off()
    if not off:
        return None
    ad = cm.get_obj_by_offset(off)
    return [_annset(cm, ad.get_class_annotations_off()),
            [[cm.get_field(fa.get_field_idx()), _annset(cm, fa.get_annotations_off())] for fa in ad.get_field_annotations()],
            [[cm.get_method(ma.get_method_idx()), _annset(cm, ma.get_annotations_off())] for ma in ad.get_method_annotations()]]


def dump(vm):
    from androguard.core import dex
    out = []
    for c in vm.get_classes():
        si = c.get_source_file_idx()
        fields = []
        for f in c.get_fields():
            iv = f.get_init_value()
            fields.append((f.get_name(), f.get_descriptor(), f.get_access_flags(), repr(iv.get_value()) if iv is not None else None))
        methods = []
        for m in c.get_methods():
            code = m.get_code()
            cd = None
            if code is not None:
                cd = (code.get_registers_size(), code.get_ins_size(), code.get_outs_size(), bytes(code.get_bc().get_raw()),
                      repr(dex.determineException(vm, m)), [i.get_output() for i in m.get_instructions()])
            methods.append((m.get_name(), m.get_descriptor(), m.get_access_flags(), cd))
        out.append((c.get_name(), c.get_superclassname(), tuple(c.get_interfaces() or ()), c.get_access_flags(),
                    None if si == 0xffffffff else vm.get_cm_string(si), fields, methods, sorted(c.get_annotations()),
                    repr(ann_dump(vm, c))))
    return (out, list(vm.get_strings()))


def perms_near_identity(n, k2=True):
    """identity, all single transpositions, all products of two transpositions, rotations, reversal (deduplicated)"""
    seen = set()
    ident = tuple(range(n))

    def emit(p):
        if p not in seen:
            seen.add(p)
            return True
        return False
    out = []
    if emit(ident):
        out.append(ident)
    tr = list(itertools.combinations(range(n), 2))
    singles = []
    for (i, j) in tr:
        p = list(ident); p[i], p[j] = p[j], p[i]
        singles.append(tuple(p))
        if emit(tuple(p)):
            out.append(tuple(p))
    if k2:
        for s in singles:
            for (i, j) in tr:
                p = list(s); p[i], p[j] = p[j], p[i]
                if emit(tuple(p)):
                    out.append(tuple(p))
    for r in range(1, n):
        p = ident[r:] + ident[:r]
        if emit(p):
            out.append(p)
    if emit(ident[::-1]):
        out.append(ident[::-1])
    return out


NSH = 32


def plan(ctx):
    """list of (file, mode)"""
    p = [("empty", "all"), ("fields8", "all"), ("method10", "near"), ("method", "near"), ("full", "near")]
    if ctx.thorough:
        p.append(("method10", "inner"))
    return p


def shards(ctx):
    return [(f, mode, i) for f, mode in plan(ctx) for i in range(NSH)]


def perm_iter(n, mode):
    if mode == "all":
        return itertools.permutations(range(n))
    if mode == "near":
        return iter(perms_near_identity(n))
    if mode == "inner":      # header first, map last, all orders of the inner entries
        return ((0,) + tuple(x + 1 for x in q) + (n - 1,) for q in itertools.permutations(range(n - 2)))
    raise ValueError(mode)


def space(ctx):
    from gen import dexgen as G
    ms = models()
    return {f: {"map_entries": G.n_map_entries(ms[f]), "mode": mode} for f, mode in plan(ctx)}


def judge(fname, perm, base_dump=None, model=None):
    from gen import dexgen as G
    from androguard.core import dex
    model = model or models()[fname]
    if base_dump is None:
        base_dump = dump(dex.DEX(G.build(model)))
    raw = permute_map(model, perm)
    try:
        d = dump(dex.DEX(raw))
    except Exception as e:     # noqa
        return "map order %r: parsing raised %s: %s" % (list(perm), type(e).__name__, e), None
    if d != base_dump:
        return "map order %r: parsed content differs from identity order:\n got  %r\n want %r" % (list(perm), d, base_dump), d
    return None, d


_raw_cache = {}


def permute_map(model, perm):
    """reorder the 12-byte map entries of the identity-order file in place and repair the checksums
    (equivalent to gen.dexgen.build(model, map_order=perm), without re-serialising the whole file)"""
    from gen import dexgen as G
    key = id(model)
    if key not in _raw_cache:
        _raw_cache.clear()
        raw0, lay = G.build(model, return_layout=True)
        _raw_cache[key] = (model, raw0, lay["map_off"], lay["n_map"])
    _, raw0, mo, n = _raw_cache[key]
    ents = [raw0[mo + 4 + 12 * i: mo + 16 + 12 * i] for i in range(n)]
    b = bytearray(raw0)
    b[mo + 4: mo + 4 + 12 * n] = b"".join(ents[i] for i in perm)
    return bytes(G.fix_checksums(b))


def classify(fname, perm, layout_types):
    """input-side key: which entry types are out of their identity position (first displaced pair)"""
    moved = [layout_types[p] for i, p in enumerate(perm) if p != i]
    return "%s:moved:%s" % (fname, "+".join("%04x" % t for t in sorted(set(moved))[:3]))


def run_shard(ctx, shard):
    from gen import dexgen as G
    from androguard.core import dex
    fname, mode, part = shard
    acc = Acc()
    model = models()[fname]
    raw0, lay = G.build(model, return_layout=True)
    n = lay["n_map"]
    types = [e[0] for e in lay["map_entries"]]
    base = dump(dex.DEX(raw0))
    if not base[0]:
        acc.harness_error("identity dump of %s is empty" % fname)
    for k, perm in enumerate(perm_iter(n, mode)):
        if k % NSH != part:
            continue
        msg, d = judge(fname, perm, base, model)
        acc.n += 1
        acc.transitions += 1
        acc.traces += 1
        acc.states.add(h8((fname, perm)))
        if perm != tuple(range(n)):
            acc.nt_disjoint += 1 if mode != "inner" else 0
            if mode == "inner":
                acc.nt.add(h8((fname, perm)))
        acc.outcomes.add(h8(repr(d))[0:1] if False else h8(repr(d)))
        if msg:
            acc.violation(classify(fname, perm, types), {"file": fname, "perm": list(perm)}, msg)
        if k == part and part < 2:
            acc.sample({"file": fname, "map_order": list(perm), "types": ["%04x" % types[p] for p in perm]})
    return acc


def replay(ctx, w):
    msg, _ = judge(w["file"], tuple(w["perm"]))
    return msg


def finalize(ctx, acc):
    # one dump per file is the expected outcome count (4 files => 4 distinct dumps); fewer means the files collapsed
    if len(acc.outcomes) < 5 and not acc.viol:
        acc.harness_error("vacuous: %d distinct dumps for 4 files" % len(acc.outcomes))
