"""C05  The parsed DEX object model matches the file's declared structure  (engine E2: bounded structure enumeration).

Space: one-class models = product of
  super {Object, La/Sup;} x interfaces subsets of {I1,I2} x flags {public, final, public|abstract, interface|abstract}
  x source {none,"A.java"} x static fields subsets of {a:I, c:J} x instance fields subsets of {b:[Lx/Y;, d:Ljava/lang/String;}
  x direct subsets of {<init>()V, s(IJ)I static, p()V private} x virtual subsets of {m()V, m(I)V, abs()V abstract,
  nat(D,String)[I native} x code shape {(1,0,0),(5,3,2)}
  quick: full member product (2048) x 2 class-level corners + full class-level product (128) x 16 member shapes;
  thorough: the full product (262,144 files).
Two-class files: all ordered pairs of a 30-shape sub-catalogue (member names chosen so that ids of the two classes
interleave and index diffs > 1 occur); plus the DEX with no class, and a class without class_data.
History: before every file a fixed DECOY file (classes La/A; and La/B; with every member of the alphabets, other class-level
settings) is parsed and put through the same battery of lookups in the same process, so every file is judged in the state
left behind by a different file that uses the same class and member names (multi-dex sessions do exactly this).
Oracle: the generating model (order compared only where the file defines one).
"""
import itertools
import re

from mc.core import Acc

PROPERTY = "C05"
LEVEL = "exploration"
RULE = ("bounded product of one-class DEX models (see space) and all ordered pairs of a 30-shape catalogue, each serialised by "
        "gen/dexgen and parsed by androguard; every reported class/member/flag/code field and every lookup compared with the "
        "model; distinct by construction (enumeration index); non-trivial = the class has at least one member")
ASSUMPTIONS = ["gen/dexgen output is well-formed (round-trips through gen/dexread; shipped-file conformance in tools/conformance.py)",
               "regexp lookups (get_encoded_method/field) are judged with re.match semantics as documented"]
MANIFEST = {
    "engine": "E2-structures",
    "technique": "bounded exhaustive enumeration of DEX class models serialised by an independent writer, model-vs-parser comparison",
    "text": "All one-class models over the stated member/flag/interface alphabets and all ordered pairs of a 30-shape catalogue "
            "are written by an independent DEX writer and parsed by androguard; classes, superclasses, interfaces, flags, source "
            "files, fields, methods, code presence, register counts, code bytes and every name/descriptor lookup (present keys "
            "and near-misses) must equal the model. Complete for the stated product.",
    "note": "Trusted: gen/dexgen (validated by gen/dexread round trip on shipped files) and this check's model comparison code.",
}

OBJ = "Ljava/lang/Object;"


def _G():
    from gen import dexgen
    return dexgen


def members():
    G = _G()
    from gen import dalvik as D
    SF = [("a", "I", G.ACC_STATIC | G.ACC_PUBLIC), ("c", "J", G.ACC_STATIC | G.ACC_FINAL)]
    IF = [("b", "[Lx/Y;", G.ACC_PRIVATE), ("d", "Ljava/lang/String;", G.ACC_PUBLIC)]
    DM = [("<init>", "V", (), G.ACC_PUBLIC | G.ACC_CONSTRUCTOR, True), ("s", "I", ("I", "J"), G.ACC_STATIC | G.ACC_PUBLIC, True),
          ("p", "V", (), G.ACC_PRIVATE, True)]
    VM = [("m", "V", (), G.ACC_PUBLIC, True), ("m", "V", ("I",), G.ACC_PUBLIC, True), ("abs", "V", (), G.ACC_PUBLIC | G.ACC_ABSTRACT, False),
          ("nat", "[I", ("D", "Ljava/lang/String;"), G.ACC_PUBLIC | G.ACC_NATIVE, False)]
    return SF, IF, DM, VM


CLS_FLAGS = [0x1, 0x10, 0x401, 0x600]
CODE_SHAPES = [(1, 0, 0), (5, 3, 2)]


def subsets(xs):
    for k in range(1 << len(xs)):
        yield [x for i, x in enumerate(xs) if k >> i & 1]


def code_bytes(shape, mname, nparams):
    """distinct code per method so that code bytes identify the method"""
    from gen import dalvik as D
    regs = shape[0]
    lit = (len(mname) + nparams) % 8
    return D.enc("const/4", 0, lit) + D.enc("nop") * (nparams % 2) + D.enc("return-void")


def mk_class(name, sup, ifs, flags, source, sf, if_, dm, vm, shape, no_class_data=False):
    G = _G()

    def mk(ms):
        out = []
        for (n, r, ps, acc, has_code) in ms:
            code = None
            if has_code:
                # ins must cover parameters (+this for non-static); registers >= ins
                nin = sum(2 if p in ("J", "D") else 1 for p in ps) + (0 if acc & G.ACC_STATIC else 1)
                regs = max(shape[0], nin + 1)
                code = G.Code(regs, nin, shape[2], code_bytes(shape, n, len(ps)))
            out.append(G.Method(n, r, ps, acc, code))
        return out
    return G.Class(name, flags, sup, ifs, source, [G.Field(*f) for f in sf], [G.Field(*f) for f in if_], mk(dm), mk(vm),
                   no_class_data=no_class_data)


def one_class_models(ctx):
    """yield (descriptor tuple) for the whole one-class space of this tier"""
    SF, IF, DM, VM = members()
    member_space = list(itertools.product(range(4), range(4), range(8), range(16)))           # 2048
    class_space = list(itertools.product(range(2), range(4), range(4), range(2), range(2)))    # 128
    if ctx.thorough:
        for ms in member_space:
            for cs in class_space:
                yield ms + cs
    else:
        corners = [(0, 0, 0, 0, 0), (1, 3, 2, 1, 1)]
        for ms in member_space:
            for cs in corners:
                yield ms + cs
        sel = [m for i, m in enumerate(member_space) if i % 128 == 77 or m == (3, 3, 7, 15)]
        for cs in class_space:
            for ms in sel:
                yield ms + cs


def build_one(desc, name="La/A;"):
    SF, IF, DM, VM = members()
    sfk, ifk, dmk, vmk, supk, intk, flk, srck, shk = desc
    pick = lambda xs, k: [x for i, x in enumerate(xs) if k >> i & 1]
    return mk_class(name, [OBJ, "La/Sup;"][supk], pick(["La/I1;", "La/I2;"], intk), CLS_FLAGS[flk], [None, "A.java"][srck],
                    pick(SF, sfk), pick(IF, ifk), pick(DM, dmk), pick(VM, vmk), CODE_SHAPES[shk])


def pair_catalogue():
    """30 member shapes used for the two-class files"""
    member_space = list(itertools.product(range(4), range(4), range(8), range(16)))
    idx = [i for i in range(len(member_space)) if i % 71 == 3][:28]
    shapes = [member_space[i] for i in idx] + [(3, 3, 7, 15), (0, 0, 0, 0)]
    return shapes


def descr(params, ret):
    return "(" + " ".join(params) + ")" + ret


# ------------------------------------------------------------------------------------------------ judging
_DECOY = []


def judge(model, decoy=True, light=False):
    """model: gen.dexgen.Dex -> list of (key, msg).  decoy: first run the decoy file through the lookups (results ignored)."""
    G = _G()
    if decoy:
        if not _DECOY:
            _DECOY.append(pair_model((3, 3, 7, 15), (3, 3, 7, 15)))
        judge(_DECOY[0], decoy=False, light=True)
    from androguard.core import dex
    out = []
    raw, layout = G.build(model, return_layout=True)
    P = layout["pools"]
    sorted_fields = lambda model, c, fs: sorted(fs, key=lambda f: P.fidx[(c.name, f.name, f.type)])
    sorted_methods = lambda model, c, ms: sorted(ms, key=lambda m: P.midx[(c.name, m.name, m.ret, m.params)])
    try:
        vm = dex.DEX(raw)
    except Exception as e:     # noqa
        return [("parse:exception", "DEX() raised %s: %s" % (type(e).__name__, e))]

    def bad(key, msg):
        out.append((key, msg))

    def bad(key, msg):
        out.append((key, msg))
    # regexp lookups on a FRESH object first (no getter has run yet): the result must not depend on earlier queries
    M0 = [(c.name, m.name, descr(m.params, m.ret)) for c in model.classes for m in c.dmethods + c.vmethods]
    F0 = [(c.name, f.name, f.type) for c in model.classes for f in c.sfields + c.ifields]
    for what, names, ref in (("method", sorted({m[1] for m in M0} | {"zz"}), M0), ("field", sorted({f[1] for f in F0} | {"zz"}), F0)):
        for nm in ([] if light else names):
            try:
                fresh = dex.DEX(raw)
                got = (fresh.get_encoded_method if what == "method" else fresh.get_encoded_field)(re.escape(nm))
                g = sorted((x.get_class_name(), x.get_name(), x.get_descriptor()) for x in got)
                want = sorted(x for x in ref if re.match(re.escape(nm), x[1]))
                if g != want:
                    bad("lookup:get_encoded_%s:fresh-object" % what, "fresh DEX: get_encoded_%s(%r) -> %r, model %r" % (what, nm, g, want))
            except Exception as e:     # noqa
                bad("lookup:get_encoded_%s:fresh-object:exception" % what,
                    "fresh DEX: get_encoded_%s(%r) raised %s: %s" % (what, nm, type(e).__name__, e))
            break       # one name per kind is enough for the fresh-object dimension (cost)
    try:
        classes = vm.get_classes()
        if [c.get_name() for c in classes] != [c.name for c in model.classes]:
            bad("classes:list", "classes %r != model %r" % ([c.get_name() for c in classes], [c.name for c in model.classes]))
            return out
        if vm.get_classes_names() != [c.name for c in model.classes]:
            bad("classes:names", "get_classes_names %r" % vm.get_classes_names())
        for pc, mc in zip(classes, model.classes):
            n = mc.name
            if pc.get_superclassname() != mc.superclass:
                bad("class:superclass", "%s superclass %r != %r" % (n, pc.get_superclassname(), mc.superclass))
            if list(pc.get_interfaces() or []) != list(mc.interfaces):
                bad("class:interfaces", "%s interfaces %r != %r" % (n, pc.get_interfaces(), mc.interfaces))
            if pc.get_access_flags() != mc.access:
                bad("class:flags", "%s flags %#x != %#x" % (n, pc.get_access_flags(), mc.access))
            si = pc.get_source_file_idx()
            src = None if si == 0xffffffff else vm.get_cm_string(si)
            if src != mc.source:
                bad("class:source", "%s source %r != %r" % (n, src, mc.source))
            if vm.get_class(n) is not pc:
                bad("lookup:get_class", "get_class(%r) does not return the class" % n)
            # fields: order inside the file = sorted by field index (class_data order); the model lists are in that order
            for kind, got, want in (("static", pc.get_class_data().get_static_fields() if mc_has_data(mc) else [], sorted_fields(model, mc, mc.sfields)),
                                    ("instance", pc.get_class_data().get_instance_fields() if mc_has_data(mc) else [], sorted_fields(model, mc, mc.ifields))):
                g = [(f.get_class_name(), f.get_name(), f.get_descriptor(), f.get_access_flags()) for f in got]
                w = [(n, f.name, f.type, f.access) for f in want]
                if g != w:
                    bad("fields:" + kind, "%s %s fields %r != %r" % (n, kind, g, w))
            for kind, got, want in (("direct", pc.get_class_data().get_direct_methods() if mc_has_data(mc) else [], sorted_methods(model, mc, mc.dmethods)),
                                    ("virtual", pc.get_class_data().get_virtual_methods() if mc_has_data(mc) else [], sorted_methods(model, mc, mc.vmethods))):
                g = []
                for m in got:
                    c = m.get_code()
                    g.append((m.get_class_name(), m.get_name(), m.get_descriptor(), m.get_access_flags(),
                              None if c is None else (c.get_registers_size(), c.get_ins_size(), c.get_outs_size(), bytes(c.get_bc().get_raw()))))
                w = [(n, m.name, descr(m.params, m.ret), m.access,
                      None if m.code is None else (m.code.registers, m.code.ins, m.code.outs, bytes(m.code.insns))) for m in want]
                if g != w:
                    # classify: which aspect differs
                    aspect = "list"
                    if [x[:3] for x in g] == [x[:3] for x in w]:
                        aspect = "flags" if [x[3] for x in g] != [x[3] for x in w] else "code"
                    bad("methods:%s:%s" % (kind, aspect), "%s %s methods %r != %r" % (n, kind, g, w))
            # register layout derived from the declared counts and the descriptor (get_information): parameters occupy the LAST
            # registers, long/double take two, everything else - arrays of long/double included - takes one
            for m in pc.get_methods():
                mm = [x for x in mc.dmethods + mc.vmethods if (x.name, descr(x.params, x.ret)) == (m.get_name(), m.get_descriptor())]
                if not mm or mm[0].code is None:
                    continue
                regs = mm[0].code.registers
                sizes = [2 if p_ in ("J", "D") else 1 for p_ in mm[0].params]
                want = {"return": _jtype(mm[0].ret), "registers": (0, regs - sum(sizes) - 1)}
                if sizes:
                    want["params"] = []
                    r = regs - sum(sizes)
                    for p_, z in zip(mm[0].params, sizes):
                        want["params"].append((r, _jtype(p_)))
                        r += z
                info = m.get_information()
                if info != want:
                    bad("methods:get_information" + (":array-of-wide-param" if any(p_.startswith("[") and p_.lstrip("[") in ("J", "D") for p_ in mm[0].params) else ""),
                        "%s->%s%s get_information %r != %r" % (n, m.get_name(), m.get_descriptor(), info, want))
            allf = [(n, f.name, f.type) for f in mc.sfields + mc.ifields]
            allm = [(n, m.name, descr(m.params, m.ret)) for m in mc.dmethods + mc.vmethods]
            g = sorted((f.get_class_name(), f.get_name(), f.get_descriptor()) for f in pc.get_fields())
            if g != sorted(allf):
                bad("fields:class-get_fields", "%s get_fields %r" % (n, g))
            g = sorted((m.get_class_name(), m.get_name(), m.get_descriptor()) for m in pc.get_methods())
            if g != sorted(allm):
                bad("methods:class-get_methods", "%s get_methods %r" % (n, g))
        # ---- lookups over the whole file
        F = [(c.name, f.name, f.type) for c in model.classes for f in c.sfields + c.ifields]
        M = [(c.name, m.name, descr(m.params, m.ret)) for c in model.classes for m in c.dmethods + c.vmethods]
        trip_f = lambda f: (f.get_class_name(), f.get_name(), f.get_descriptor())
        trip_m = lambda m: (m.get_class_name(), m.get_name(), m.get_descriptor())
        cnames = [c.name for c in model.classes] + ["La/Absent;"]
        mnames = sorted({m[1] for m in M} | {"zz", "m2"})
        fnames = sorted({f[1] for f in F} | {"zz"})
        descs = sorted({m[2] for m in M} | {"()I"})
        ftypes = sorted({f[2] for f in F} | {"Z"})
        for cn in cnames:
            g = sorted(trip_m(m) for m in vm.get_encoded_methods_class(cn))
            if g != sorted(m for m in M if m[0] == cn):
                bad("lookup:get_encoded_methods_class", "get_encoded_methods_class(%r) -> %r" % (cn, g))
            g = sorted(trip_f(f) for f in vm.get_encoded_fields_class(cn))
            if g != sorted(f for f in F if f[0] == cn):
                bad("lookup:get_encoded_fields_class", "get_encoded_fields_class(%r) -> %r" % (cn, g))
            for mn in mnames:
                r = vm.get_encoded_methods_class_method(cn, mn)
                want = [m for m in M if m[0] == cn and m[1] == mn]
                if (r is None) != (not want) or (r is not None and trip_m(r) not in want):
                    bad("lookup:get_encoded_methods_class_method", "(%r,%r) -> %r, model %r" % (cn, mn, r and trip_m(r), want))
                for d in descs:
                    r = vm.get_encoded_method_descriptor(cn, mn, d)
                    want = (cn, mn, d) in M
                    if (r is not None) != want or (r is not None and trip_m(r) != (cn, mn, d)):
                        bad("lookup:get_encoded_method_descriptor", "(%r,%r,%r) -> %r, model has it: %s" % (cn, mn, d, r and trip_m(r), want))
            for fn in fnames:
                for t in ftypes:
                    r = vm.get_encoded_field_descriptor(cn, fn, t)
                    want = (cn, fn, t) in F
                    if (r is not None) != want or (r is not None and trip_f(r) != (cn, fn, t)):
                        bad("lookup:get_encoded_field_descriptor", "(%r,%r,%r) -> %r, model has it: %s" % (cn, fn, t, r and trip_f(r), want))
        for mn in mnames:
            try:
                g = sorted(trip_m(m) for m in vm.get_encoded_method(re.escape(mn)))
                want = sorted(m for m in M if re.match(re.escape(mn), m[1]))
                if g != want:
                    bad("lookup:get_encoded_method", "get_encoded_method(%r) -> %r, model %r" % (mn, g, want))
            except Exception as e:     # noqa
                bad("lookup:get_encoded_method:exception", "get_encoded_method(%r) raised %s: %s" % (mn, type(e).__name__, e))
        for fn in fnames:
            try:
                g = sorted(trip_f(f) for f in vm.get_encoded_field(re.escape(fn)))
                want = sorted(f for f in F if re.match(re.escape(fn), f[1]))
                if g != want:
                    bad("lookup:get_encoded_field", "get_encoded_field(%r) -> %r, model %r" % (fn, g, want))
            except Exception as e:     # noqa
                bad("lookup:get_encoded_field:exception", "get_encoded_field(%r) raised %s: %s" % (fn, type(e).__name__, e))
        g = sorted(trip_m(m) for m in vm.get_encoded_methods())
        if g != sorted(M):
            bad("lookup:get_encoded_methods", "get_encoded_methods -> %r" % g)
        g = sorted(trip_f(f) for f in vm.get_encoded_fields())
        if g != sorted(F):
            bad("lookup:get_encoded_fields", "get_encoded_fields -> %r" % g)
        for m in vm.get_encoded_methods():
            r = vm.get_encoded_method_by_idx(m.get_method_idx())
            if r is not m:
                bad("lookup:get_encoded_method_by_idx", "idx %d -> %r" % (m.get_method_idx(), r))
        if vm.get_encoded_method_by_idx(0xfff0) is not None:
            bad("lookup:get_encoded_method_by_idx", "absent idx returns something")
        if vm.get_len_encoded_methods() != len(M) or vm.get_len_classes() != len(model.classes):
            bad("lookup:lens", "len methods/classes")
    except Exception as e:     # noqa
        import traceback
        bad("api:exception:%s" % type(e).__name__, "exception while querying: %s" % traceback.format_exc()[-900:])
    if light:
        return out
    # ---- non-initial state: the reported model must still be the file's after the object has been analysed and decompiled
    try:
        from androguard.core.analysis.analysis import Analysis
        from androguard.decompiler.decompile import DvClass
        vm2 = dex.DEX(raw)
        dx = Analysis(vm2)
        dx.create_xref()
        for c in vm2.get_classes():
            try:
                dc = DvClass(c, dx)
                dc.process()
                dc.get_source()
            except Exception:      # noqa  (decompiler failures are not C05's subject)
                pass
        for pc, mc in zip(vm2.get_classes(), model.classes):
            n = mc.name
            want_m = sorted((n, m.name, descr(m.params, m.ret), m.access, None if m.code is None else bytes(m.code.insns))
                            for m in mc.dmethods + mc.vmethods)
            want_f = sorted((n, f.name, f.type, f.access) for f in mc.sfields + mc.ifields)
            for api, ms in (("class.get_methods", pc.get_methods()),
                            ("class_data.direct+virtual", (pc.get_class_data().get_direct_methods() + pc.get_class_data().get_virtual_methods()) if mc_has_data(mc) else []),
                            ("vm.get_encoded_methods_class", vm2.get_encoded_methods_class(n))):
                bad_type = [type(m).__name__ for m in ms if not isinstance(m, dex.EncodedMethod)]
                if bad_type:
                    bad("after-decompile:%s:object-type" % api, "%s: %s yields %s objects after the class was decompiled" % (n, api, sorted(set(bad_type))))
                    continue
                g = sorted((m.get_class_name(), m.get_name(), m.get_descriptor(), m.get_access_flags(),
                            None if m.get_code() is None else bytes(m.get_code().get_bc().get_raw())) for m in ms)
                if g != want_m:
                    bad("after-decompile:%s" % api, "%s: %s after decompilation %r != model %r" % (n, api, g, want_m))
            fs = pc.get_fields()
            bad_type = [type(f).__name__ for f in fs if not isinstance(f, dex.EncodedField)]
            if bad_type:
                bad("after-decompile:class.get_fields:object-type", "%s: get_fields yields %s objects" % (n, sorted(set(bad_type))))
            else:
                g = sorted((f.get_class_name(), f.get_name(), f.get_descriptor(), f.get_access_flags()) for f in fs)
                if g != want_f:
                    bad("after-decompile:class.get_fields", "%s: get_fields after decompilation %r != model %r" % (n, g, want_f))
    except Exception as e:     # noqa
        import traceback
        bad("after-decompile:exception:%s" % type(e).__name__, traceback.format_exc()[-900:])
    return out


_PRIM = {"V": "void", "Z": "boolean", "B": "byte", "S": "short", "C": "char", "I": "int", "J": "long", "F": "float", "D": "double"}


def _jtype(t):
    dims = len(t) - len(t.lstrip("["))
    e = t.lstrip("[")
    return (_PRIM[e] if e in _PRIM else e[1:-1].replace("/", ".")) + "[]" * dims


def mc_has_data(mc):
    return not mc.no_class_data and bool(mc.sfields or mc.ifields or mc.dmethods or mc.vmethods)


# ------------------------------------------------------------------------------------------------ runner glue
NSH = 48


def shards(ctx):
    return [("one", i) for i in range(NSH)] + [("pair", i) for i in range(15)] + [("special", 0)]


def space(ctx):
    n1 = sum(1 for _ in one_class_models(ctx))
    return {"one_class_models": n1, "two_class_files": 900, "special": ["no class", "class without class_data", "colliding lookup keys", "parameters that are arrays of long/double"],
            "member_alphabets": "static {a:I,c:J} instance {b:[Lx/Y;,d:String} direct {<init>,s(IJ)I,p} virtual {m(),m(I),abs,nat}",
            "class_level": "super x interfaces x flags x source x code shape = 128"}


def model_from_witness(w):
    G = _G()
    if w["kind"] == "one":
        return G.Dex([build_one(tuple(w["desc"]))])
    if w["kind"] == "pair":
        return pair_model(tuple(w["a"]), tuple(w["b"]))
    return special_models()[w["name"]]


def pair_model(a, b):
    """two classes whose member ids interleave: class names La/A; and La/B;, same member names => ids sorted by class first;
    to get interleaving index diffs > 1 we add extra unused ids of a third class between (extra_fields/extra_methods)."""
    G = _G()
    A = build_one(a + (0, 1, 0, 1, 0), "La/A;")
    B = build_one(b + (1, 2, 1, 0, 1), "La/B;")
    d = G.Dex([B, A])        # class_defs order deliberately not sorted by name
    # unused ids that sort between/inside the classes' own ids (idx diffs > 1)
    d.extra_fields = [("La/A;", "aa", "I"), ("La/A;", "bz", "J"), ("La/B;", "a0", "I"), ("La/B;", "cc", "J")]
    d.extra_methods = [("La/A;", "mm", "V", ()), ("La/A;", "a", "V", ("I",)), ("La/B;", "n", "V", ()), ("La/B;", "<clinit>", "V", ())]
    return d


def special_models():
    G = _G()
    return {
        "noclass": G.Dex([], extra_strings=["x"]),
        "no_class_data": G.Dex([G.Class("La/E;", no_class_data=True)]),
        # parameters that are arrays of wide primitives (one register each) mixed with wide primitives (two registers each)
        "wide_arrays": G.Dex([G.Class("La/W;", dmethods=[
            G.Method("w1", "V", ("[J",), G.ACC_STATIC, G.Code(3, 1, 0, b"\x0e\x00")),
            G.Method("w2", "J", ("[J", "D", "[[D", "I"), G.ACC_STATIC, G.Code(9, 5, 0, b"\x12\x00\x10\x00")),
            G.Method("w3", "V", ("J", "[D", "J"), G.ACC_STATIC, G.Code(6, 5, 0, b"\x0e\x00")),
            G.Method("w4", "[[J", ("[Ljava/lang/String;", "[[J", "D"), G.ACC_STATIC, G.Code(5, 4, 0, b"\x12\x00\x11\x00"))],
            vmethods=[G.Method("v1", "V", ("[D", "[J"), G.ACC_PUBLIC, G.Code(4, 3, 0, b"\x0e\x00"))])]),
        "collide": G.Dex([G.Class("La/C;", ifields=[G.Field("x", "LLa;"), G.Field("xL", "La;"), G.Field("x", "I")],
                                  vmethods=[G.Method("m", "V", ("I",), 1, G.Code(3, 2, 0, b"\x0e\x00")),
                                            G.Method("m", "V", ("J",), 1, G.Code(4, 3, 0, b"\x0e\x00"))])]),
    }


def run_shard(ctx, shard):
    G = _G()
    acc = Acc()
    kind, i = shard
    if kind == "one":
        for k, desc in enumerate(one_class_models(ctx)):
            if k % NSH != i:
                continue
            model = G.Dex([build_one(desc)])
            res = judge(model)
            acc.n += 1
            if any(desc[:4]):
                acc.nt_disjoint += 1
            acc.outcomes.add(hash(desc[:4]) % 64)
            for key, msg in res:
                acc.violation(key, {"kind": "one", "desc": list(desc)}, msg)
            if k == i:
                acc.sample({"kind": "one", "desc": list(desc)})
    elif kind == "pair":
        cat = pair_catalogue()
        for k, (a, b) in enumerate(itertools.product(cat, cat)):
            if k % 15 != i:
                continue
            res = judge(pair_model(a, b))
            acc.n += 1
            acc.nt_disjoint += 1
            for key, msg in res:
                acc.violation("two-class:" + key, {"kind": "pair", "a": list(a), "b": list(b)}, msg)
        acc.sample({"kind": "pair", "a": list(cat[0]), "b": list(cat[1])})
    else:
        for name, m in special_models().items():
            res = judge(m)
            acc.n += 1
            acc.nt.add(hash(name))
            for key, msg in res:
                acc.violation("special:%s:%s" % (name, key), {"kind": "special", "name": name}, msg)
    return acc


def replay(ctx, w):
    res = judge(model_from_witness(w))
    return "\n".join("%s: %s" % r for r in res) if res else None


def finalize(ctx, acc):
    if len(acc.outcomes) < 32:
        acc.harness_error("vacuous: member-shape outcomes %d" % len(acc.outcomes))
