"""C27  Resource values are formatted with Android's meaning  (engine E1: finite-domain product).

Space: every value type code 0x00..0x1f  x  data = every combination of
  mantissa in MANT (signed 24-bit: 0, +-1, +-2, every 2^k, 2^k-1, -(2^k), -(2^k)+1, 0x7fffff, -0x800000, patterns;
                    thorough adds, for the two complex types, every mantissa in [-2^12, 2^12) and every h<<12 for
                    the signed 12-bit h)
  x radix 0..3 x unit 0..15,  plus the 32-bit boundary set BOUND (sign bit, package bytes, IEEE specials, ...).
Each (type, data) is pushed through four real paths:
  fv     androguard.core.axml.format_value(type, data, lookup)
  ref    ARSCResStringPoolRef(<8 bytes Res_value>).format_value()
  table  ARSCParser.get_resource_dimen / get_resource_color on an entry stub (dimension / colour types)
  axml   the attribute value of AXMLPrinter(<document written by gen/axmlgen.py>) (16 attributes per document)
Histories: the formatting functions are module-level code that may keep state, so every judged case is a HISTORY
(earlier calls, judged call) executed in one process that was pristine before: each shard runs in a fork of a pristine
process (mc/fresh.py) and, in addition to the product above (history = the shard's own call order), every ordered pair
(type A, then type B) over 12 type codes is run for the SAME data word (64 words) as fv,fv / ref,ref / two attributes of
one document / two documents.  A violation is re-run in pristine forks (judged call alone, then its recorded history,
then the shard prefix) and stored with the shortest history that reproduces it; replay() executes that history.
Oracle: ref/resval.py (AOSP TypedValue semantics), compared numerically (see there).
Not judged (recorded only): unit codes outside Android's tables, TYPE_NULL, dynamic and unassigned type codes.
"""
import io
import os
import struct

from mc.core import Acc

PROPERTY = "C27"
LEVEL = "exploration"
RULE = ("full product type code 0x00..0x1f x (mantissa set x radix 0..3 x unit 0..15 + 32-bit boundary set), each through "
        "format_value, ARSCResStringPoolRef.format_value, get_resource_dimen/color and an AXML attribute; non-trivial = "
        "(type, data) whose meaning Android defines and data != 0; distinct by (type, data, path, history kind); plus every "
        "ordered pair of 12 type codes on the same data word (64 words) as an explicit two-call history; every shard starts "
        "in a pristine process")
ASSUMPTIONS = [
    "complex unit codes >= 6 (dimension) / >= 2 (fraction), TYPE_NULL, dynamic reference/attribute and unassigned type "
    "codes have no meaning fixed by the property: only the observed behaviour is counted",
    "number of decimals, %f vs repr, case/padding of hex digits are conventions: numbers are compared numerically "
    "(rel 1e-6 + abs 6e-7 = resolution of a six-decimal print); androguard's truncated decimal radix multipliers "
    "(rel. error < 1e-7) are therefore inside the tolerance and not judged",
    "reference/attribute ids are read as hexadecimal",
]
MANIFEST = {
    "engine": "E1-product",
    "technique": "exhaustive type x mantissa x radix x unit product against an AOSP TypedValue reference, four API paths",
    "text": "Every type code 0x00-0x1f is combined with every mantissa/radix/unit combination of a boundary mantissa set "
            "and a 32-bit boundary set; each pair is formatted by format_value, by ARSCResStringPoolRef.format_value, by the "
            "table helpers and as an attribute of a generated binary XML document, and compared numerically with an "
            "independent implementation of Android's complexToFloat/coerceToString. Every ordered pair of type codes is also "
            "applied to the same data word in one process (explicit call histories), each shard starting from a pristine "
            "process image. Complete for the stated product.",
    "note": "Trusted: ref/resval.py (80 lines) and gen/axmlgen.py (validated byte-exact on 1005 shipped aapt files). "
            "Values outside Android's unit/type tables are counted, not judged.",
}

TYPES = list(range(0x20))
BOUND = sorted(set(
    [0, 1, 2, 3, 0x7F, 0x80, 0xFF, 0x100, 0x7FFF, 0x8000, 0xFFFF, 0x10000, 0xFFFFFF, 0x1000000, 0x7FFFFFFF, 0x80000000,
     0x80000001, 0xFFFFFFFE, 0xFFFFFFFF, 0x12345678, 0x87654321, 0xDEADBEEF,
     0x01000000, 0x01010000, 0x01010003, 0x01FFFFFF, 0x00FFFFFF, 0x02000000, 0x7F010000, 0x7F0A0001, 0x81010001, 0xFF000000,
     0x3F800000, 0xBF800000, 0x40490FDB, 0x7F800000, 0xFF800000, 0x7FC00000, 0x7F7FFFFF, 0xFF7FFFFF, 0x00800000, 0x00000001,
     0x80000000, 0x3DCCCCCD, 0x4B000000, 0xCB000001, 0x42C80000,
     0xFFFFFF01, 0x80000031, 0x00000100, 0x00000130, 0xFFFFFF00]))


def mant_set(thorough):
    m = {0, 1, -1, 2, -2, 0x7FFFFF, -0x800000, 0x400000, 0x123456, -0x123456, 0x555555, -0x555556, 100, -100, 1000}
    for k in range(1, 24):
        for v in ((1 << k), (1 << k) - 1, -(1 << k), -(1 << k) + 1, (1 << k) + 1):
            if -0x800000 <= v <= 0x7FFFFF:
                m.add(v)
    if thorough:
        m.update(range(-(1 << 12), 1 << 12))
        m.update(h << 12 for h in range(-(1 << 11), 1 << 11))
    return sorted(m, key=lambda v: (abs(v), v < 0))


def space(ctx):
    m = mant_set(False)
    return {"type_codes": "0x00..0x1f (32)", "mantissas": len(m), "mantissas_complex_types": len(mant_set(ctx.thorough)), "radix": 4, "unit": 16, "boundary_data": len(BOUND),
            "data_per_type": len(m) * 64 + len(BOUND), "paths": ["fv", "ref", "table", "axml"],
            "histories": {"ordered_type_pairs": "%d x %d over %s" % (len(HIST_TYPES), len(HIST_TYPES), ["0x%02x" % t for t in HIST_TYPES]),
                          "data_words": len(HIST_DATA), "forms": ["fv,fv", "ref,ref", "two attributes of one document",
                                                                  "two documents"],
                          "isolation": "every shard runs in a fork of a pristine process; its call order is its history"},
            "tolerance": {"rel": 1e-6, "abs": 6e-7}}


def shards(ctx):
    import androguard.core.axml      # noqa: loaded once in the runner (never called there), inherited by the forked workers
    s = []
    for t in TYPES:
        if t in (0x05, 0x06):
            s += [(t, "complex", r) for r in range(4)] + [(t, "bound", 0)]
        else:
            s.append((t, "all", 0))
    s += [("hist", a) for a in HIST_TYPES]
    return s


def _data(ctx, shard):
    t, kind, r = shard[:3]
    if kind == "bound":
        return list(BOUND)
    if kind == "all":
        return [((m & 0xFFFFFF) << 8) | (r << 4) | u for r in range(4) for m in mant_set(False) for u in range(16)] + list(BOUND)
    wide = ctx.thorough and t in (0x05, 0x06)       # the wide mantissa set only where the mantissa has a meaning
    return [((m & 0xFFFFFF) << 8) | (r << 4) | u for m in mant_set(wide) for u in range(16)]


# ------------------------------------------------------------------------------------------------ paths
class _Pool:
    def getString(self, i):
        return "S%d" % i


class _Parent:
    stringpool_main = _Pool()


class _Key:
    def __init__(self, d):
        self.d = d

    def get_data(self):
        return self.d


class _Ate:
    def __init__(self, d):
        self.key = _Key(d)

    def get_value(self):
        return "name"


def _call(fn):
    try:
        return fn()
    except Exception as e:      # noqa
        return e


def path_fv(ax, t, d):
    return _call(lambda: ax.format_value(t, d, lambda i: "S%d" % i))


def path_ref(ax, t, d):
    def f():
        r = ax.ARSCResStringPoolRef(io.BufferedReader(io.BytesIO(struct.pack("<HBBI", 8, 0, t, d))), _Parent())
        return r.format_value()
    return _call(f)


def path_table(ax, t, d):
    from ref import resval
    if t == resval.TYPE_DIMENSION:
        def f():
            v = ax.ARSCParser.get_resource_dimen(None, _Ate(d))
            return v[1]
        return _call(f)
    if 0x1C <= t <= 0x1F:
        return _call(lambda: ax.ARSCParser.get_resource_color(None, _Ate(d))[1])
    return None


def _doc(t, datas):
    from gen import axmlgen
    attrs = []
    for i, d in enumerate(datas):
        a = {"ns": None, "name": "a%d" % i, "t": t, "d": d}
        if t == axmlgen.TYPE_STRING:
            a["s"] = "S%d" % d
        attrs.append(a)
    return {"utf8": False, "resmap": False, "root": {"ns": None, "name": "v", "decl": [], "attrs": attrs, "kids": []}}


def path_axml(ax, t, datas):
    """-> list of texts (or one exception for all)."""
    from gen import axmlgen
    try:
        root = ax.AXMLPrinter(axmlgen.write(_doc(t, datas))).get_xml_obj()
        return [root.get("a%d" % i) for i in range(len(datas))]
    except Exception as e:      # noqa
        return [e] * len(datas)


def do_call(ax, call):
    """Execute one call descriptor against the real code: ["fv"|"ref"|"table", t, d] or ["axml", [[t, d], ...], i]."""
    kind = call[0]
    if kind == "axml":
        return path_axml_items(ax, call[1])[call[2]]
    return {"fv": path_fv, "ref": path_ref, "table": path_table}[kind](ax, call[1], call[2])


def target(call):
    if call[0] == "axml":
        t, d = call[1][call[2]]
        return t, d, "axml"
    return call[1], call[2], call[0]


def path_axml_items(ax, items):
    """One document whose single element carries attribute k of type/data items[k] (in this order) -> texts."""
    from gen import axmlgen
    attrs = []
    for k, (t, d) in enumerate(items):
        a = {"ns": None, "name": "a%d" % k, "t": t, "d": d}
        if t == axmlgen.TYPE_STRING:
            a["s"] = "S%d" % d
        attrs.append(a)
    doc = {"utf8": False, "resmap": False, "root": {"ns": None, "name": "v", "decl": [], "attrs": attrs, "kids": []}}
    try:
        root = ax.AXMLPrinter(axmlgen.write(doc)).get_xml_obj()
        return [root.get("a%d" % k) for k in range(len(items))]
    except Exception as e:      # noqa
        return [e] * len(items)


def judge_call(acc, call, x, history=None, prefix=None, hkey=None, fv_bad=False, alone=None):
    """Judge the result x of `call` (the last element of `history`).  Shared by the shards and replay.
    Returns True if it violated."""
    from ref import resval
    t, d, p = target(call)
    feat = resval.feature(t, d)
    if x is None:
        return False
    if not resval.judged(t, d):
        acc.count("unjudged:%s:%s" % (feat.split(":")[-1] if ":" in feat else "type",
                                      type(x).__name__ if isinstance(x, Exception) else "returned"))
        acc.case(outcome=("unjudged", feat))
        return False
    string = ("S%d" % d) if t == resval.TYPE_STRING else None
    if isinstance(x, Exception):
        why = "raised %s: %s" % (type(x).__name__, x)
    else:
        why = resval.matches(t, d, x, string)
    acc.case(nontrivial=(t, d, p, hkey) if d else None, outcome=(feat, p, hkey, why is None))
    if why is None:
        return False
    # one root cause, one key: another path is only named when format_value itself was right for this (type, data)
    fvbad = acc.__dict__.setdefault("_fvbad", set())
    if p == "fv":
        fvbad.add((t, d))
    key = feat if (p == "fv" or fv_bad or (t, d) in fvbad) else "%s:%s" % (p, feat)
    w = {"history": list(history) if history else [call]}
    if hkey:
        w["_hkey"] = hkey
    if prefix:
        w["_prefix"] = prefix
        w["_pkey"] = "%s:history-dependent" % resval.typename(t)
    if alone:
        w["_alone"] = alone
    acc.violation(key, w, "%s: type 0x%02x data 0x%08x -> %r; Android's meaning is %s (%s)"
                  % (p, t, d, x if not isinstance(x, Exception) else why, resval.canonical(t, d, string), why))
    return True


# history dimension: the same data word under type A, then under type B, in one process
HIST_TYPES = [0x01, 0x02, 0x04, 0x05, 0x06, 0x10, 0x11, 0x12, 0x1C, 0x1D, 0x1E, 0x1F]
HIST_DATA = sorted(set(
    [((m & 0xFFFFFF) << 8) | (r << 4) | u for m in (0, 1, -1, 0x400000, 0x7FFFFF, -0x800000, 0x123456)
     for r in range(4) for u in (0, 1)] + [0x01010000, 0x7F010001, 0x3F800000, 0xFF000000]))


def _product(ctx, ax, shard, acc, stop=None):
    """The call sequence of a product shard (this order IS the shard's history).  stop=(n, path): execute the same
    sequence but judge only that one case (prefix replay)."""
    from ref import resval
    t = shard[0]
    datas = _data(ctx, shard)
    good = [d for d in datas if resval.judged(t, d)]
    tier = ctx.tier
    for n, d in enumerate(datas):
        fv_bad = False
        for p in ("fv", "ref", "table"):
            call = [p, t, d]
            x = do_call(ax, call)
            if stop is None or stop == (n, p):
                bad = judge_call(acc, call, x, prefix={"shard": list(shard), "tier": tier, "upto": n, "p": p}, fv_bad=fv_bad)
                fv_bad = fv_bad or (bad and p == "fv")
        if stop is not None and stop[1] != "axml" and stop[0] == n:
            return
    for i in range(0, len(good), 16):
        chunk = good[i:i + 16]
        items = [[t, d] for d in chunk]
        texts = path_axml_items(ax, items)
        for k, x in enumerate(texts):
            n = i + k
            if stop is None or stop == (n, "axml"):
                judge_call(acc, ["axml", items, k], x, prefix={"shard": list(shard), "tier": tier, "upto": n, "p": "axml"},
                           alone=[["axml", [[t, chunk[k]]], 0]], hkey="axml-batch:" + resval.feature(t, chunk[k]))
        if stop is not None and stop[1] == "axml" and stop[0] < i + 16:
            return


def _history(ctx, ax, shard, acc, stop=None):
    """Shard ("hist", A): every data word of HIST_DATA formatted as type A and then as type B, for every B, per form.
    Every judged case also carries its position in this sequence, so that a case that depends on more than its own
    two calls can be replayed through the shard prefix (stop = position: judge only that case)."""
    from ref import resval
    ta = shard[1]
    after = resval.typename(ta)
    n = [0]

    def case(call, hist, hkey, alone=None):
        x = do_call(ax, call)
        if stop is None or stop == n[0]:
            judge_call(acc, call, x, history=hist, hkey=hkey, alone=alone,
                       prefix={"shard": list(shard), "tier": ctx.tier, "upto": n[0], "p": "hist"})
        n[0] += 1
        return stop is not None and n[0] > stop

    for tb in HIST_TYPES:
        hkey = "%s:after:%s" % (resval.typename(tb), after)
        for d in HIST_DATA:
            if not (resval.judged(ta, d) and resval.judged(tb, d)):
                continue
            for p in ("fv", "ref"):
                hist = [[p, ta, d], [p, tb, d]]
                do_call(ax, hist[0])
                if case(hist[1], hist, hkey):
                    return
            call = ["axml", [[ta, d], [tb, d]], 1]
            if case(call, [call], hkey, alone=[["axml", [[tb, d]], 0]]):
                return
            # and across documents: a document with the A attribute, then a document with the B attribute
            hist = [["axml", [[ta, d]], 0], ["axml", [[tb, d]], 0]]
            do_call(ax, hist[0])
            if case(hist[1], hist, hkey):
                return


def _shard_main(ctx, shard):
    """Runs in a fork of a pristine worker: module state of the code under test is pristine at entry."""
    from androguard.core import axml as ax
    from mc import fresh
    from ref import resval
    import sys
    srv = _SRV[0]         # fork server of the pristine worker, inherited; the worker is blocked while this child runs
    try:
        acc = fresh.HistoryAcc(srv, replay, ctx)
        if shard[0] == "hist":
            _history(ctx, ax, shard, acc)
        else:
            _product(ctx, ax, shard, acc)
            t = shard[0]
            if shard[1] in ("bound", "all") and t in (0x05, 0x10, 0x01):
                d = {0x05: 0xFFFFFF01, 0x10: 0x80000000, 0x01: 0x01010003}[t]
                acc.sample({"type": t, "data": "0x%08x" % d, "format_value": str(path_fv(ax, t, d)),
                            "android": resval.canonical(t, d)})
        return acc
    finally:
        pass


_SRV = [None]


def run_shard(ctx, shard):
    import androguard.core.axml      # noqa: imported, never called here - this process stays pristine
    from mc import fresh
    if _SRV[0] is None or _SRV[0].owner != os.getpid():
        _SRV[0] = fresh.Pristine()
    return fresh.isolated(_shard_main, ctx, tuple(shard))


def replay(ctx, w):
    """Executes the witness history in this (fresh) process and judges its last call."""
    from androguard.core import axml as ax
    from mc import core
    acc = Acc()
    if "history" not in w:                      # witness format of the first version: one (type, data), all paths
        t, d = w["t"], w["d"]
        for call in (["fv", t, d], ["ref", t, d], ["table", t, d], ["axml", [[t, d]], 0]):
            judge_call(acc, call, do_call(ax, call))
    elif "prefix" in w:
        pf = w["prefix"]
        if pf["p"] == "hist":
            _history(core.Ctx(tier=pf["tier"]), ax, tuple(pf["shard"]), acc, stop=pf["upto"])
        else:
            _product(core.Ctx(tier=pf["tier"]), ax, tuple(pf["shard"]), acc, stop=(pf["upto"], pf["p"]))
    else:
        hist = w["history"]
        for call in hist[:-1]:
            do_call(ax, call)
        judge_call(acc, hist[-1], do_call(ax, hist[-1]), history=hist)
    if acc.viol:
        return "; ".join(v["msg"] for v in acc.viol.values())
    return None


def finalize(ctx, acc):
    from ref import resval
    # the oracle must be able to tell the probe defect from its repair, and accept Android's own spellings
    selfcheck = [
        (0x05, 0xFFFFFF01, "16777215.000000dip", False), (0x05, 0xFFFFFF01, "-1.000000dip", True), (0x05, 0xFFFFFF01, "-1.0dip", True),
        (0x05, 0x00000100, "1.0px", True), (0x05, 0x00000100, "1.0dip", False), (0x06, 0x00000130, "0.000012%", True), (0x06, 0x00000130, "0.001000%", False),
        (0x06, 0x00004001, "5000.0%p", False), (0x06, 0x00004011, "50.0%p", True), (0x06, 0x00004011, "0.5%p", False),
        (0x10, 0xFFFFFFFF, "-1", True), (0x10, 0xFFFFFFFF, "4294967295", False), (0x11, 0xAB, "0x000000AB", True), (0x11, 0xAB, "0xab", True),
        (0x12, 2, "true", True), (0x12, 0, "true", False), (0x1C, 0xFF00FF00, "#ff00ff00", True), (0x1C, 0xFF00FF00, "#FF00FF01", False),
        (0x04, 0x3F800000, "1.000000", True), (0x04, 0xBF800000, "1.000000", False), (0x01, 0x01010003, "@android:01010003", True),
        (0x01, 0x01010003, "@01010003", False), (0x02, 0x7F010003, "?android:7F010003", False), (0x02, 0x7F010003, "?7f010003", True),
    ]
    for t, d, text, want in selfcheck:
        if (resval.matches(t, d, text) is None) != want:
            acc.harness_error("oracle self-check failed: matches(0x%02x, 0x%08x, %r) should be %s" % (t, d, text, want))
    expected = 160
    if len(shards(ctx)) < 32:
        acc.harness_error("fewer than 32 shards")
    if len(acc.outcomes) < 60:
        acc.harness_error("space collapsed: only %d distinct (feature, path, verdict) outcomes" % len(acc.outcomes))
    if acc.n < expected * 40:
        acc.harness_error("too few evaluations: %d" % acc.n)
