"""C27  Resource values are formatted with Android's meaning  (engine E1: finite-domain product).

Space: every value type code 0x00..0x1f  x  data = every combination of
  mantissa in MANT (signed 24-bit: 0, +-1, +-2, every 2^k, 2^k-1, -(2^k), -(2^k)+1, 0x7fffff, -0x800000, patterns;
                    thorough adds, for the two complex types, every mantissa in [-2^12, 2^12) and every h<<12 for
                    the signed 12-bit h)
  x radix 0..3 x unit 0..15,  plus the 32-bit boundary set BOUND (sign bit, package bytes, IEEE specials, ...).
Each (type, data) is pushed through four real paths:
  fv     androguard.core.axml.format_value(type, data, lookup)
  ref    ARSCResStringPoolRef(<8 bytes Res_value>).format_value()
  table  ARSCParser.get_resource_dimen / get_resource_color on an entry stub (dimension / colour types)
  axml   the attribute value of AXMLPrinter(<document written by gen/axmlgen.py>) (16 attributes per document)
Oracle: ref/resval.py (AOSP TypedValue semantics), compared numerically (see there).
Not judged (recorded only): unit codes outside Android's tables, TYPE_NULL, dynamic and unassigned type codes.
"""
import io
import struct

from mc.core import Acc

PROPERTY = "C27"
LEVEL = "exploration"
RULE = ("full product type code 0x00..0x1f x (mantissa set x radix 0..3 x unit 0..15 + 32-bit boundary set), each through "
        "format_value, ARSCResStringPoolRef.format_value, get_resource_dimen/color and an AXML attribute; non-trivial = "
        "(type, data) whose meaning Android defines and data != 0; distinct by (type, data)")
ASSUMPTIONS = [
    "complex unit codes >= 6 (dimension) / >= 2 (fraction), TYPE_NULL, dynamic reference/attribute and unassigned type "
    "codes have no meaning fixed by the property: only the observed behaviour is counted",
    "number of decimals, %f vs repr, case/padding of hex digits are conventions: numbers are compared numerically "
    "(rel 1e-6 + abs 6e-7 = resolution of a six-decimal print); androguard's truncated decimal radix multipliers "
    "(rel. error < 1e-7) are therefore inside the tolerance and not judged",
    "reference/attribute ids are read as hexadecimal",
]
MANIFEST = {
    "engine": "E1-product",
    "technique": "exhaustive type x mantissa x radix x unit product against an AOSP TypedValue reference, four API paths",
    "text": "Every type code 0x00-0x1f is combined with every mantissa/radix/unit combination of a boundary mantissa set "
            "and a 32-bit boundary set; each pair is formatted by format_value, by ARSCResStringPoolRef.format_value, by the "
            "table helpers and as an attribute of a generated binary XML document, and compared numerically with an "
            "independent implementation of Android's complexToFloat/coerceToString. Complete for the stated product.",
    "note": "Trusted: ref/resval.py (80 lines) and gen/axmlgen.py (validated byte-exact on 1005 shipped aapt files). "
            "Values outside Android's unit/type tables are counted, not judged.",
}

TYPES = list(range(0x20))
BOUND = sorted(set(
    [0, 1, 2, 3, 0x7F, 0x80, 0xFF, 0x100, 0x7FFF, 0x8000, 0xFFFF, 0x10000, 0xFFFFFF, 0x1000000, 0x7FFFFFFF, 0x80000000,
     0x80000001, 0xFFFFFFFE, 0xFFFFFFFF, 0x12345678, 0x87654321, 0xDEADBEEF,
     0x01000000, 0x01010000, 0x01010003, 0x01FFFFFF, 0x00FFFFFF, 0x02000000, 0x7F010000, 0x7F0A0001, 0x81010001, 0xFF000000,
     0x3F800000, 0xBF800000, 0x40490FDB, 0x7F800000, 0xFF800000, 0x7FC00000, 0x7F7FFFFF, 0xFF7FFFFF, 0x00800000, 0x00000001,
     0x80000000, 0x3DCCCCCD, 0x4B000000, 0xCB000001, 0x42C80000,
     0xFFFFFF01, 0x80000031, 0x00000100, 0x00000130, 0xFFFFFF00]))


def mant_set(thorough):
    m = {0, 1, -1, 2, -2, 0x7FFFFF, -0x800000, 0x400000, 0x123456, -0x123456, 0x555555, -0x555556, 100, -100, 1000}
    for k in range(1, 24):
        for v in ((1 << k), (1 << k) - 1, -(1 << k), -(1 << k) + 1, (1 << k) + 1):
            if -0x800000 <= v <= 0x7FFFFF:
                m.add(v)
    if thorough:
        m.update(range(-(1 << 12), 1 << 12))
        m.update(h << 12 for h in range(-(1 << 11), 1 << 11))
    return sorted(m, key=lambda v: (abs(v), v < 0))


def space(ctx):
    m = mant_set(False)
    return {"type_codes": "0x00..0x1f (32)", "mantissas": len(m), "mantissas_complex_types": len(mant_set(ctx.thorough)), "radix": 4, "unit": 16, "boundary_data": len(BOUND),
            "data_per_type": len(m) * 64 + len(BOUND), "paths": ["fv", "ref", "table", "axml"],
            "tolerance": {"rel": 1e-6, "abs": 6e-7}}


def shards(ctx):
    s = []
    for t in TYPES:
        for r in range(4):
            s.append((t, "complex", r))
        s.append((t, "bound", 0))
    return s


def _data(ctx, shard):
    t, kind, r = shard
    if kind == "bound":
        return list(BOUND)
    wide = ctx.thorough and t in (0x05, 0x06)       # the wide mantissa set only where the mantissa has a meaning
    return [((m & 0xFFFFFF) << 8) | (r << 4) | u for m in mant_set(wide) for u in range(16)]


# ------------------------------------------------------------------------------------------------ paths
class _Pool:
    def getString(self, i):
        return "S%d" % i


class _Parent:
    stringpool_main = _Pool()


class _Key:
    def __init__(self, d):
        self.d = d

    def get_data(self):
        return self.d


class _Ate:
    def __init__(self, d):
        self.key = _Key(d)

    def get_value(self):
        return "name"


def _call(fn):
    try:
        return fn()
    except Exception as e:      # noqa
        return e


def path_fv(ax, t, d):
    return _call(lambda: ax.format_value(t, d, lambda i: "S%d" % i))


def path_ref(ax, t, d):
    def f():
        r = ax.ARSCResStringPoolRef(io.BufferedReader(io.BytesIO(struct.pack("<HBBI", 8, 0, t, d))), _Parent())
        return r.format_value()
    return _call(f)


def path_table(ax, t, d):
    from ref import resval
    if t == resval.TYPE_DIMENSION:
        def f():
            v = ax.ARSCParser.get_resource_dimen(None, _Ate(d))
            return v[1]
        return _call(f)
    if 0x1C <= t <= 0x1F:
        return _call(lambda: ax.ARSCParser.get_resource_color(None, _Ate(d))[1])
    return None


def _doc(t, datas):
    from gen import axmlgen
    attrs = []
    for i, d in enumerate(datas):
        a = {"ns": None, "name": "a%d" % i, "t": t, "d": d}
        if t == axmlgen.TYPE_STRING:
            a["s"] = "S%d" % d
        attrs.append(a)
    return {"utf8": False, "resmap": False, "root": {"ns": None, "name": "v", "decl": [], "attrs": attrs, "kids": []}}


def path_axml(ax, t, datas):
    """-> list of texts (or one exception for all)."""
    from gen import axmlgen
    try:
        root = ax.AXMLPrinter(axmlgen.write(_doc(t, datas))).get_xml_obj()
        return [root.get("a%d" % i) for i in range(len(datas))]
    except Exception as e:      # noqa
        return [e] * len(datas)


def judge(acc, t, d, texts):
    """texts: {path: str | Exception | None(not applicable)}.  Shared by run_shard and replay."""
    from ref import resval
    feat = resval.feature(t, d)
    if not resval.judged(t, d):
        for p, x in texts.items():
            if x is not None:
                acc.count("unjudged:%s:%s" % (feat.split(":")[-1] if ":" in feat else "type",
                                              type(x).__name__ if isinstance(x, Exception) else "returned"))
        acc.case(outcome=("unjudged", feat))
        return
    fv_bad = None
    for p in ("fv", "ref", "table", "axml"):
        x = texts.get(p)
        if x is None:
            continue
        string = ("S%d" % d) if t == resval.TYPE_STRING else None
        if isinstance(x, Exception):
            why = "raised %s: %s" % (type(x).__name__, x)
        else:
            why = resval.matches(t, d, x, string)
        acc.case(nontrivial=(t, d, p) if d else None, outcome=(feat, p, why is None))
        if why is not None:
            if p == "fv":
                fv_bad = why
            key = feat if (p == "fv" or fv_bad) else "%s:%s" % (p, feat)
            acc.violation(key, {"t": t, "d": d},
                          "%s: type 0x%02x data 0x%08x -> %r; Android's meaning is %s (%s)"
                          % (p, t, d, x if not isinstance(x, Exception) else why, resval.canonical(t, d, string), why))


def run_shard(ctx, shard):
    from androguard.core import axml as ax
    from ref import resval
    acc = Acc()
    t = shard[0]
    datas = _data(ctx, shard)
    good = [d for d in datas if resval.judged(t, d)]
    axml_text = {}
    for i in range(0, len(good), 16):
        chunk = good[i:i + 16]
        for d, x in zip(chunk, path_axml(ax, t, chunk)):
            axml_text[d] = x
    for d in datas:
        texts = {"fv": path_fv(ax, t, d), "ref": path_ref(ax, t, d), "table": path_table(ax, t, d)}
        if d in axml_text:
            texts["axml"] = axml_text[d]
        judge(acc, t, d, texts)
    if shard[1] == "bound" and t in (0x05, 0x10, 0x01):
        d = {0x05: 0xFFFFFF01, 0x10: 0x80000000, 0x01: 0x01010003}[t]
        acc.sample({"type": t, "data": "0x%08x" % d, "format_value": str(path_fv(ax, t, d)), "android": resval.canonical(t, d)})
    return acc


def replay(ctx, w):
    from androguard.core import axml as ax
    from ref import resval
    acc = Acc()
    t, d = w["t"], w["d"]
    texts = {"fv": path_fv(ax, t, d), "ref": path_ref(ax, t, d), "table": path_table(ax, t, d)}
    if resval.judged(t, d):
        texts["axml"] = path_axml(ax, t, [d])[0]
    judge(acc, t, d, texts)
    if acc.viol:
        return "; ".join(v["msg"] for v in acc.viol.values())
    return None


def finalize(ctx, acc):
    from ref import resval
    # the oracle must be able to tell the probe defect from its repair, and accept Android's own spellings
    selfcheck = [
        (0x05, 0xFFFFFF01, "16777215.000000dip", False), (0x05, 0xFFFFFF01, "-1.000000dip", True), (0x05, 0xFFFFFF01, "-1.0dip", True),
        (0x05, 0x00000100, "1.0px", True), (0x05, 0x00000100, "1.0dip", False), (0x06, 0x00000130, "0.000012%", True), (0x06, 0x00000130, "0.001000%", False),
        (0x06, 0x00004001, "5000.0%p", False), (0x06, 0x00004011, "50.0%p", True), (0x06, 0x00004011, "0.5%p", False),
        (0x10, 0xFFFFFFFF, "-1", True), (0x10, 0xFFFFFFFF, "4294967295", False), (0x11, 0xAB, "0x000000AB", True), (0x11, 0xAB, "0xab", True),
        (0x12, 2, "true", True), (0x12, 0, "true", False), (0x1C, 0xFF00FF00, "#ff00ff00", True), (0x1C, 0xFF00FF00, "#FF00FF01", False),
        (0x04, 0x3F800000, "1.000000", True), (0x04, 0xBF800000, "1.000000", False), (0x01, 0x01010003, "@android:01010003", True),
        (0x01, 0x01010003, "@01010003", False), (0x02, 0x7F010003, "?android:7F010003", False), (0x02, 0x7F010003, "?7f010003", True),
    ]
    for t, d, text, want in selfcheck:
        if (resval.matches(t, d, text) is None) != want:
            acc.harness_error("oracle self-check failed: matches(0x%02x, 0x%08x, %r) should be %s" % (t, d, text, want))
    expected = len(shards(ctx))
    if len(acc.outcomes) < 60:
        acc.harness_error("space collapsed: only %d distinct (feature, path, verdict) outcomes" % len(acc.outcomes))
    if acc.n < expected * 40:
        acc.harness_error("too few evaluations: %d" % acc.n)
