"""C31  Manifest queries report what the manifest declares  (engine E2: bounded structure enumeration).

A manifest MODEL is a value for each of 14 dimensions (alphabets below).  It is turned into a gen/axmlgen document,
serialised by that independent binary-XML writer, zipped (stdlib zipfile, single entry AndroidManifest.xml, no
resources.arsc: every value is a literal) and loaded with APK(bytes, raw=True).  Every query named by the property is
compared with the model.

Dimensions (alphabet sizes quick | thorough):
  pkg    2        package "com.a" | "a" (no dot)
  ver    9        versionCode {absent, typed int 1, string "7"} x versionName {absent, "1.0", "2"}
  perms  41 | 85  <uses-permission> lists over {android.permission.X, android.permission.Y, X with maxSdkVersion=18 (typed int),
                  dot-less CUSTOM}: every ordered list of length <= 2 plus every multiset of size 3 (thorough: every ordered
                  list of length <= 3); "X twice" and "X next to X/maxSdk18" are among them
  act, svc, rcv, prv   21 | 51 each   every subset of {".Rel", "NoDot", "com.a.Full", "other.p.C"} as <activity>/<service>/<receiver>/
                  <provider>, plus each boundary shape of the dot rule alone: "Trail." (only dot is the last character), "." (lone dot),
                  "..Two" (two leading dots), "A.B" (inner dot, no package-like prefix), "a" (one dot-less character); thorough: plus
                  every 2-subset of the 9 names
  main   40       additional activities / activity-aliases carrying intent filters: none; MAIN+LAUNCHER on one activity (each of the
                  4 ordinary and 5 boundary names), on two (6 pairs), on activity + alias, on an alias only (dotted / dot-less alias name), on an enabled=false
                  activity (alone / next to an enabled one), enabled=true, MAIN without LAUNCHER, LAUNCHER without MAIN, MAIN and
                  LAUNCHER in two different filters, extra actions/categories, LEANBACK_LAUNCHER only, disabled alias; real launcher activity {absolute, relative, bare name}
                  x launcher alias of it sorting {before, after} x {one, two} launcher activities
  sdk    28       no <uses-sdk> element, or (min, target, max) in {absent, typed int, codename string "Q"}^3 (min 21, target 33, max 34)
  feat   16       subsets of {android.hardware.camera, android.hardware.touchscreen required=false, dot-less "nodotfeature",
                  <uses-feature glEsVersion> without a name}
  libs   8        subsets of {org.apache.http.legacy required=false, com.google.android.maps, dot-less "dotlesslib"}
  enc    4        string pool UTF-8 / UTF-16 x resource map (attribute names bound to their android ids) present / absent
  extra  5        bystanders: none, <permission> declaration, <application android:name=".App" label>, <meta-data android:name="NoDotMeta">
                  in application and activity-less, all three
  order  13       element order (varied around the RICH base only): all 6 orders of the three <manifest> child groups (uses-sdk |
                  uses-permission, uses-feature, permission | application), all 6 orders of the three <application> child groups
                  (activities and aliases | services, receivers, providers | uses-library, meta-data), items of every group
                  reversed, everything reversed

Space = for each of two base models (MIN: everything empty/absent; RICH: one of everything) every model that differs from the
base in at most two dimensions (each dimension at its full alphabet x all pairs of dimensions at their full alphabets);
thorough adds the full product  pkg x act x svc x rcv x prv (the 16 subsets of the 4 ordinary names each) x main{none, one
MAIN/LAUNCHER activity}  over the MIN base.

History dimension (the queries must not depend on what was asked before): for the RICH base and each of its single-dimension
variations (thorough: also MIN's, and the RICH pairs over main, feat, extra) a FRESH APK object is built for every history
  depth 1: each of the 30 public manifest queries in PRE (get_app_name, get_app_icon, get_main_activity, is_androidtv, ...,
           get_intent_filters('activity', <first declared activity>), get_android_manifest_xml)
  depth 2: every ordered pair (repeats included) over PRE2 = get_app_name, is_androidtv, get_main_activity, get_activities,
           get_features, get_intent_filters
the history is executed and then the complete judging routine runs; a violation that does not occur without the history is
reported under  <api>:after:<pre-query>[+<pre-query>].

Decoy history (state carried from one APK object to the next in the same process): every shard and every replay starts by opening
and querying a decoy manifest per package (same package / component / permission names, other declarations); inside a shard each
model is judged right after the previous model of the enumeration, which is recorded in the witness and re-opened by replay().

Alternative entry points must agree with the model too (keys <api>:alt:<entry>): get_all_attribute_value (formatted and raw),
find_tags counts, get_attribute_value for package and the uses-sdk attributes, get_android_manifest_xml / get_android_manifest_axml
(package, component and uses-permission elements), requested permissions = aosp + third-party partition, get_details_permissions
and get_uses_implied_permission_list against the requested set, get_declared_permissions.

Oracle = the model + Android's class-name completion rule (leading '.' -> package + name; no '.' at all -> package + '.' + name;
otherwise unchanged) applied to component names ONLY.  Permission, feature and library names are compared literally.
Comparisons are unordered (multisets) because find_tags collects elements into a set.
"""
import io
import itertools
import zipfile

from mc.core import Acc

PROPERTY = "C31"
LEVEL = "exploration"
RULE = ("manifest models over 14 dimensions (package, version, uses-permission list, 4 component name sets, MAIN/LAUNCHER "
        "patterns, uses-sdk, features, libraries, pool encoding/resource map, bystander elements, element order): around an empty and a rich "
        "base model every dimension at its full alphabet and every pair of dimensions at their full alphabets (thorough: plus "
        "the full product of package x 4 component name sets x main); each model written by gen/axmlgen, zipped, loaded by "
        "APK(raw=True); cases are distinct model tuples; non-trivial = differs from the empty base; history dimension: for the "
        "rich base and its single-dimension variations every single pre-query out of 30 and every ordered pair of 6 is run on a "
        "fresh APK object before the same judging; every model is judged after a different manifest with the same names was open "
        "in the process; alternative entry points are compared with the model as well")
ASSUMPTIONS = [
    "gen/axmlgen.py is the independent binary-XML writer (byte layer reproduces 1005 shipped aapt/aapt2 files); the zip "
    "container is written by the stdlib zipfile module (deflated, one entry) - zip layouts are C33/C34's subject",
    "Android's rule for completing component class names (PackageParser.buildClassName) is as stated in the module docstring; "
    "uses-permission / uses-feature / uses-library names are taken literally by Android (getNonResourceString, no completion)",
    "no resources.arsc: all names and labels are literal strings or typed integers/booleans, never references",
    "attributes are in the android namespace (package is un-namespaced, as aapt writes it); androguard's tolerance for "
    "un-namespaced attributes is not exercised",
    "main activity: only bounds are judged (see 'not judged' notes): enabled activities with MAIN and LAUNCHER in one filter "
    "must be reported; nothing may be reported that does not carry both MAIN and LAUNCHER",
    "reading of 'main activity ... exactly those the manifest declares': whenever an enabled <activity> carries MAIN+LAUNCHER in one "
    "filter, get_main_activity() must name a declared <activity>, not a launcher <activity-alias>",
    "effective target SDK is judged only when the values involved are numeric (target, else min, else 1); with a codename "
    "only 'int > 0' (the documented contract) is demanded",
    "the full cartesian product of all dimensions is replaced by the all-pairs-around-two-bases union stated in space()",
    "element order is varied by groups (6 + 6 group orders, reversal inside groups) around the RICH base only; any order of "
    "<manifest> / <application> children is legal for Android",
    "cross-APK state: the predecessor of a model is the previous model of its shard (or the fixed decoy), not every possible one",
    "histories are bounded to depth 2 (depth 1 over all 30 manifest queries, depth 2 over a 6-query menu) on the history models "
    "listed in space(); exceptions raised by a pre-query itself (get_app_icon without resources) are not judged",
]
MANIFEST = {
    "engine": "E2-structures",
    "technique": "bounded enumeration of manifest models serialised by an independent AXML writer and zipped; every manifest "
                 "query compared with the generating model",
    "text": "Every manifest model that differs from an empty and from a rich base manifest in at most two of 14 dimensions "
            "(package with/without dot, typed/string version attributes, permission lists with duplicates, maxSdkVersion and "
            "dot-less names, all subsets of relative/dot-less/qualified component names plus the boundary shapes of the dot rule "
            "('Trail.', '.', '..Two', 'A.B', 'a') for the four component kinds, 40 "
            "MAIN/LAUNCHER patterns incl. aliases and disabled activities, all 27+1 uses-sdk shapes incl. codenames, features, "
            "libraries, pool encodings, element orders) is built into a real APK and every query of the property is compared with the model "
            "under Android's name completion rule; on ~215 of the models the same judging is repeated after every single other manifest "
            "query and every ordered pair of six of them on a fresh object (answers must not depend on the query history).  This level fits because the queries are pure functions of a small tree.",
    "note": "Trusted: gen/axmlgen (validated against shipped files), stdlib zipfile, the stated Android completion rule. "
            "Alias / enabled=false / split-filter treatment of 'main activity' and codename effective targets are bounded, not "
            "pinned. All-pairs coverage, not the full product (thorough: full product of the component dimensions).",
}

A_NS = "http://schemas.android.com/apk/res/android"
RID = {"label": 0x01010001, "name": 0x01010003, "protectionLevel": 0x01010009, "enabled": 0x0101000E,
       "targetActivity": 0x01010202, "minSdkVersion": 0x0101020C, "versionCode": 0x0101021B, "versionName": 0x0101021C,
       "targetSdkVersion": 0x01010270, "maxSdkVersion": 0x01010271, "glEsVersion": 0x01010281, "required": 0x0101028E}
MAIN_A, LAUNCH_C = "android.intent.action.MAIN", "android.intent.category.LAUNCHER"
VIEW_A, DEFAULT_C, LEANBACK_C = "android.intent.action.VIEW", "android.intent.category.DEFAULT", "android.intent.category.LEANBACK_LAUNCHER"

NAMES = [".Rel", "NoDot", "com.a.Full", "other.p.C"]
# boundary shapes of the dot rule: only dot is the last character, a lone dot, two leading dots, inner dot without a package-like
# prefix, single dot-less character
EDGE_NAMES = ["Trail.", ".", "..Two", "A.B", "a"]
ALL_NAMES = NAMES + EDGE_NAMES
PX, PY, PX18, PC = ["android.permission.X", None], ["android.permission.Y", None], ["android.permission.X", 18], ["CUSTOM", None]
PERM_ITEMS = [PX, PY, PX18, PC]
FEAT_ITEMS = [["android.hardware.camera", None], ["android.hardware.touchscreen", False], ["nodotfeature", None], [None, None]]
LIB_ITEMS = [["org.apache.http.legacy", False], ["com.google.android.maps", None], ["dotlesslib", None]]
ML = [[MAIN_A], [LAUNCH_C]]


def _subsets(items):
    out = []
    for r in range(len(items) + 1):
        out += [list(c) for c in itertools.combinations(items, r)]
    return out


def _act(name, filters=(), en=None):
    return {"k": "activity", "n": name, "en": en, "f": [list(map(list, f)) for f in filters]}


def _alias(name, target, filters=(), en=None):
    return {"k": "alias", "n": name, "t": target, "en": en, "f": [list(map(list, f)) for f in filters]}


def main_alphabet():
    """[(tag, entries)]  -- tag is the input-side feature used in violation keys."""
    out = [("none", [])]
    for n in NAMES:
        out.append(("one-" + name_kind(n), [_act(n, [ML])]))
    for a, b in itertools.combinations(NAMES, 2):
        out.append(("two", [_act(a, [ML]), _act(b, [ML])]))
    out += [
        ("activity+alias", [_act(".M", [ML]), _alias(".Alias", ".M", [ML])]),
        ("alias-only", [_act(".M"), _alias(".Alias", ".M", [ML])]),
        ("alias-only-dotless", [_act("com.a.T"), _alias("AliasNoDot", "com.a.T", [ML])]),
        ("disabled-only", [_act(".Off", [ML], en=False)]),
        ("disabled+enabled", [_act(".Off", [ML], en=False), _act(".M", [ML])]),
        ("enabled-true", [_act(".M", [ML], en=True)]),
        ("main-without-launcher", [_act(".M", [[[MAIN_A], []]])]),
        ("launcher-without-main", [_act(".M", [[[VIEW_A], [LAUNCH_C]]])]),
        ("split-filters", [_act(".M", [[[MAIN_A], []], [[VIEW_A], [LAUNCH_C]]])]),
        ("extra-actions", [_act(".M", [[[VIEW_A, MAIN_A], [DEFAULT_C, LAUNCH_C]]]), _act("NoDot2", [[[VIEW_A], [DEFAULT_C]]])]),
        ("leanback-only", [_act(".M", [[[MAIN_A], [LEANBACK_C]]])]),
        ("disabled-alias", [_act(".M", [ML]), _alias(".Alias", ".M", [ML], en=False)]),
    ]
    for n in EDGE_NAMES:
        out.append(("one-" + name_kind(n), [_act(n, [ML])]))
    # real launcher activity next to a launcher activity-alias of it: {name form} x {alias sorts before / after} x {one / two
    # launcher activities}  (the alias-less corners are the one-* / two patterns above)
    for form, pre in (("absolute", "com.a."), ("relative", "."), ("bare", "")):
        for pos, al in (("before", "AEntry"), ("after", "ZEntry")):
            for n in (1, 2):
                ents = [_act(pre + "MMain", [ML])] + ([_act(pre + "NSecond", [ML])] if n == 2 else []) + \
                       [_alias(pre + al, pre + "MMain", [ML])]
                out.append(("real-%s+alias-%s+%d-activit%s" % (form, pos, n, "y" if n == 1 else "ies"), ents))
    return out


# Reading of the statement (decided centrally): 'main activity' is among the things that must be exactly those the manifest declares,
# so the main ACTIVITY must be a declared <activity> whenever an enabled launcher <activity> exists; a launcher <activity-alias> may
# only be reported when no such activity exists (HEAD does this deliberately: good_main_activities = main & get_activities()).
# The observation counters are kept either way.
JUDGE_ALIAS_PREFERENCE = True


MAIN_ALPHA = None


def dims(ctx):
    """ordered list of (name, alphabet, rich-base index); index 0 of every alphabet is the MIN base value."""
    global MAIN_ALPHA
    if MAIN_ALPHA is None:
        MAIN_ALPHA = main_alphabet()
    vers = [[c, n] for c in (None, ["int", 1], ["str", "7"]) for n in (None, "1.0", "2")]
    if ctx.thorough:
        perms = [list(p) for r in range(4) for p in itertools.product(PERM_ITEMS, repeat=r)]
    else:
        perms = [list(p) for r in range(3) for p in itertools.product(PERM_ITEMS, repeat=r)]
        perms += [list(p) for p in itertools.combinations_with_replacement(PERM_ITEMS, 3)]
    comp = _subsets(NAMES) + [[n] for n in EDGE_NAMES]          # the first 16 stay the subsets of NAMES
    if ctx.thorough:
        comp += [list(c) for c in itertools.combinations(ALL_NAMES, 2) if list(c) not in comp]
    sdk = [None] + [[a, b, c] for a in (None, ["int", 21], ["str", "Q"]) for b in (None, ["int", 33], ["str", "Q"])
                    for c in (None, ["int", 34], ["str", "Q"])]
    feats = _subsets(FEAT_ITEMS)
    libs = _subsets(LIB_ITEMS)
    enc = [[False, True], [True, True], [False, False], [True, False]]
    extra = [[], ["permission-decl"], ["app-name"], ["meta-data"], ["permission-decl", "app-name", "meta-data"]]
    mains = [e for _, e in MAIN_ALPHA]
    p3 = [list(p) for p in itertools.permutations(range(3))]
    order = [[p3[0], p3[0], False]] + [[p, p3[0], False] for p in p3[1:]] + [[p3[0], p, False] for p in p3[1:]] + \
            [[p3[0], p3[0], True], [p3[-1], p3[-1], True]]
    return [
        ("pkg", ["com.a", "a"], 0),
        ("ver", vers, vers.index([["int", 1], "1.0"])),
        ("perms", perms, perms.index([PX])),
        ("act", comp, comp.index([".Rel"])),
        ("svc", comp, comp.index(["NoDot"])),
        ("rcv", comp, comp.index(["com.a.Full"])),
        ("prv", comp, comp.index(["other.p.C"])),
        ("main", mains, 3),                              # one MAIN/LAUNCHER activity "com.a.Full"
        ("sdk", sdk, sdk.index([["int", 21], ["int", 33], None])),
        ("feat", feats, feats.index([FEAT_ITEMS[0]])),
        ("libs", libs, libs.index([LIB_ITEMS[0]])),
        ("enc", enc, 1),
        ("extra", extra, 0),
        ("order", order, 0),
    ]


RICH_ONLY = {"order"}       # dimensions that are only varied around the RICH base (degenerate on the almost empty MIN manifest)


_CASES = {}


def cases(ctx):
    """sorted list of distinct index tuples (simplest first: by number of non-MIN dimensions); memoised per process."""
    if ctx.tier not in _CASES:
        _CASES[ctx.tier] = _cases(ctx)
    return _CASES[ctx.tier]


def _cases(ctx):
    D = dims(ctx)
    sizes = [len(a) for _, a, _ in D]
    nd = len(D)
    out = set()
    for bi, base in enumerate((tuple([0] * nd), tuple(r for _, _, r in D))):
        out.add(base)
        live = [i for i in range(nd) if bi == 1 or D[i][0] not in RICH_ONLY]
        for i in live:
            for vi in range(sizes[i]):
                t = list(base)
                t[i] = vi
                out.add(tuple(t))
                for j in live:
                    if j <= i:
                        continue
                    for vj in range(sizes[j]):
                        t[j] = vj
                        out.add(tuple(t))
                    t[j] = base[j]
    if ctx.thorough:
        ix = {n: k for k, (n, _, _) in enumerate(D)}
        for p in range(2):
            for comb in itertools.product(range(16), repeat=4):
                for m in (0, 1):
                    t = [0] * nd
                    t[ix["pkg"]] = p
                    t[ix["act"]], t[ix["svc"]], t[ix["rcv"]], t[ix["prv"]] = comb
                    t[ix["main"]] = m
                    out.add(tuple(t))
    return sorted(out, key=lambda t: (sum(1 for x in t if x), t))


def model_of(ctx, t):
    return {n: a[i] for (n, a, _), i in zip(dims(ctx), t)}


# ------------------------------------------------------------------------------------------------ model -> APK bytes
def _attr(name, v, ns=A_NS):
    a = {"ns": ns, "name": name}
    if ns == A_NS:
        a["rid"] = RID[name]
    if isinstance(v, bool):
        a.update(t=0x12, d=0xFFFFFFFF if v else 0)
    elif isinstance(v, int):
        a.update(t=0x10, d=v)
    else:
        a.update(t=0x03, d=0, s=v)
    return a


def _tv(name, tv):
    """tv = ["int", n] | ["str", s]"""
    return _attr(name, tv[1])


def _el(name, attrs=(), kids=()):
    return {"ns": None, "name": name, "decl": [], "attrs": list(attrs), "kids": list(kids)}


def _filter(f):
    actions, cats = f
    return _el("intent-filter", [], [_el("action", [_attr("name", x)]) for x in actions] +
               [_el("category", [_attr("name", x)]) for x in cats])


def build_doc(m):
    mattrs = []
    code, vname = m["ver"]
    if code is not None:
        mattrs.append(_tv("versionCode", code))
    if vname is not None:
        mattrs.append(_attr("versionName", vname))
    mattrs.append(_attr("package", m["pkg"], ns=None))
    mperm, aperm, rev = m.get("order") or [[0, 1, 2], [0, 1, 2], False]
    g_sdk, kids, g_app = [], [], []
    if m["sdk"] is not None:
        sa = []
        for an, v in zip(("minSdkVersion", "targetSdkVersion", "maxSdkVersion"), m["sdk"]):
            if v is not None:
                sa.append(_tv(an, v))
        g_sdk.append(_el("uses-sdk", sa))
    for n, mx in m["perms"]:
        kids.append(_el("uses-permission", [_attr("name", n)] + ([_attr("maxSdkVersion", mx)] if mx is not None else [])))
    for n, req in m["feat"]:
        fa = [_attr("name", n)] if n is not None else [{"ns": A_NS, "name": "glEsVersion", "rid": RID["glEsVersion"], "t": 0x11, "d": 0x20000}]
        if req is not None:
            fa.append(_attr("required", req))
        kids.append(_el("uses-feature", fa))
    extra = m["extra"]
    if "permission-decl" in extra:
        kids.append(_el("permission", [_attr("name", "com.a.permission.DECL"), _attr("protectionLevel", 2)]))
    app_attrs = []
    if "app-name" in extra:
        app_attrs = [_attr("label", "App"), _attr("name", ".App")]
    app, a_comp, a_lib = [], [], []
    for n in m["act"]:
        app.append(_el("activity", [_attr("name", n)]))
    for e in m["main"]:
        at = [_attr("name", e["n"])]
        if e["en"] is not None:
            at.append(_attr("enabled", bool(e["en"])))
        if e["k"] == "alias":
            at.append(_attr("targetActivity", e["t"]))
        app.append(_el("activity" if e["k"] == "activity" else "activity-alias", at, [_filter(f) for f in e["f"]]))
    for tag, key in (("service", "svc"), ("receiver", "rcv"), ("provider", "prv")):
        for n in m[key]:
            a_comp.append(_el(tag, [_attr("name", n)]))
    for n, req in m["libs"]:
        a_lib.append(_el("uses-library", [_attr("name", n)] + ([_attr("required", req)] if req is not None else [])))
    if "meta-data" in extra:
        a_lib.append(_el("meta-data", [_attr("name", "NoDotMeta"), {"ns": A_NS, "name": "value", "t": 0x03, "d": 0, "s": "v"}]))
    agroups = [app, a_comp, a_lib]
    if rev:
        agroups = [g[::-1] for g in agroups]
    g_app.append(_el("application", app_attrs, [e for i in aperm for e in agroups[i]]))
    mgroups = [g_sdk, kids[::-1] if rev else kids, g_app]
    root = _el("manifest", mattrs, [e for i in mperm for e in mgroups[i]])
    root["decl"] = [["android", A_NS]]
    utf8, resmap = m["enc"]
    return {"utf8": bool(utf8), "resmap": bool(resmap), "root": root}


def build_apk(m):
    from gen import axmlgen
    data = axmlgen.write(build_doc(m))
    z = io.BytesIO()
    with zipfile.ZipFile(z, "w", zipfile.ZIP_DEFLATED) as zf:
        zf.writestr(zipfile.ZipInfo("AndroidManifest.xml"), data, compress_type=zipfile.ZIP_DEFLATED)
    return z.getvalue()


# ------------------------------------------------------------------------------------------------ reference model
def complete(pkg, n):
    """Android's class-name completion (PackageParser.buildClassName)."""
    if n.startswith("."):
        return pkg + n
    if "." not in n:
        return pkg + "." + n
    return n


def name_kind(n):
    if n == ".":
        return "name-lone-dot"
    if n.startswith(".."):
        return "name-two-leading-dots"
    if n.startswith("."):
        return "name-leading-dot"
    if "." not in n:
        return "name-no-dot"
    if n.index(".") == len(n) - 1:
        return "name-only-dot-last"
    return "name-dotted"


def literal_kind(n):
    return "dot-less-name" if "." not in n else "dotted-name"


def _tvs(tv):
    return None if tv is None else str(tv[1])


def _is_ml_one_filter(e):
    return any(MAIN_A in f[0] and LAUNCH_C in f[1] for f in e["f"])


def _is_ml_any(e):
    return any(MAIN_A in f[0] for f in e["f"]) and any(LAUNCH_C in f[1] for f in e["f"])


def main_tag(m):
    for tag, e in MAIN_ALPHA or main_alphabet():
        if e == m["main"]:
            return tag
    return "custom"


def sdk_feature(m):
    s = m["sdk"]
    if s is None:
        return "no-uses-sdk"
    nn = [n for n, v in zip(("minSdkVersion", "targetSdkVersion"), s[:2]) if v is not None and v[0] == "str"]
    if nn:
        return "+".join(nn) + "-non-numeric"
    if s[2] is not None and s[2][0] == "str":
        return "maxSdkVersion-non-numeric"
    return "numeric"


def _multiset_missing(expected_pairs, got):
    """expected_pairs: [(raw, reported-form)], got: list -> (raw names whose reported form is missing, extra got items)"""
    pool = list(got)
    missing = []
    for raw, want in expected_pairs:
        if want in pool:
            pool.remove(want)
        else:
            missing.append(raw)
    return missing, pool


def _first_activity(m):
    names = list(m["act"]) + [e["n"] for e in m["main"] if e["k"] == "activity"]
    return complete(m["pkg"], names[0] if names else ".None")


# pre-queries (history dimension): every public query of APK that reads the manifest and needs no argument
# (get_intent_filters gets a declared activity).  name -> callable(apk, model)
PRE = {
    "get_app_name": lambda a, m: a.get_app_name(),
    "get_app_icon": lambda a, m: a.get_app_icon(),
    "get_main_activity": lambda a, m: a.get_main_activity(),
    "get_main_activities": lambda a, m: a.get_main_activities(),
    "is_androidtv": lambda a, m: a.is_androidtv(),
    "is_leanback": lambda a, m: a.is_leanback(),
    "is_wearable": lambda a, m: a.is_wearable(),
    "get_activities": lambda a, m: a.get_activities(),
    "get_activity_aliases": lambda a, m: a.get_activity_aliases(),
    "get_services": lambda a, m: a.get_services(),
    "get_receivers": lambda a, m: a.get_receivers(),
    "get_providers": lambda a, m: a.get_providers(),
    "get_permissions": lambda a, m: a.get_permissions(),
    "get_uses_implied_permission_list": lambda a, m: a.get_uses_implied_permission_list(),
    "get_details_permissions": lambda a, m: a.get_details_permissions(),
    "get_requested_aosp_permissions": lambda a, m: a.get_requested_aosp_permissions(),
    "get_requested_third_party_permissions": lambda a, m: a.get_requested_third_party_permissions(),
    "get_declared_permissions": lambda a, m: a.get_declared_permissions(),
    "get_features": lambda a, m: a.get_features(),
    "get_libraries": lambda a, m: a.get_libraries(),
    "get_min_sdk_version": lambda a, m: a.get_min_sdk_version(),
    "get_target_sdk_version": lambda a, m: a.get_target_sdk_version(),
    "get_max_sdk_version": lambda a, m: a.get_max_sdk_version(),
    "get_effective_target_sdk_version": lambda a, m: a.get_effective_target_sdk_version(),
    "get_package": lambda a, m: a.get_package(),
    "get_androidversion_code": lambda a, m: a.get_androidversion_code(),
    "get_androidversion_name": lambda a, m: a.get_androidversion_name(),
    "get_intent_filters": lambda a, m: a.get_intent_filters("activity", _first_activity(m)),
    "get_android_manifest_xml": lambda a, m: a.get_android_manifest_xml(),
    "get_android_manifest_axml": lambda a, m: a.get_android_manifest_axml().get_xml(),
}
PRE2 = ["get_app_name", "is_androidtv", "get_main_activity", "get_activities", "get_features", "get_intent_filters"]


def histories():
    """every single pre-query (depth 1) and every ordered pair over the reduced menu PRE2 (depth 2)"""
    return [(h,) for h in PRE] + [tuple(p) for p in itertools.product(PRE2, repeat=2)]


_DECOY = {}


def decoy_model(pkg):
    """a different manifest that uses the SAME package, component, permission names with other declarations"""
    return {"pkg": pkg, "ver": [["int", 99], "9.9"], "perms": [["android.permission.DECOY", None], ["android.permission.X", 7]],
            "act": ["NoDot", "other.p.C"], "svc": [".Rel"], "rcv": ["NoDot"], "prv": ["com.a.Full"], "main": [_act(".Rel", [ML])],
            "sdk": [["int", 4], ["int", 5], ["int", 6]], "feat": [["decoy.feature", None], ["android.hardware.touchscreen", None]],
            "libs": [["decoy.lib", None]], "enc": [False, True], "extra": ["app-name"]}


def _decoy(pkg, stats=None):
    """DECOY HISTORY: open and query the decoy manifest in this process (results ignored).  Run at the start of every shard and
    of every replay; inside a shard the PREVIOUS model of the enumeration (same package and names, other declarations) is the
    decoy of the next one and is recorded in the witness, so replay() re-creates decoy -> previous model -> judged model and
    state carried from one APK object to the next reproduces in the fresh-process confirmation."""
    from androguard.core.apk import APK
    if pkg not in _DECOY:
        _DECOY[pkg] = build_apk(decoy_model(pkg))
    try:
        d = APK(_DECOY[pkg], raw=True)
        for f in (d.get_package, d.get_androidversion_code, d.get_androidversion_name, d.get_permissions, d.get_activities,
                  d.get_services, d.get_receivers, d.get_providers, d.get_main_activities, d.get_main_activity,
                  d.get_min_sdk_version, d.get_target_sdk_version, d.get_max_sdk_version, d.get_effective_target_sdk_version,
                  d.get_features, d.get_libraries, d.get_app_name, d.is_androidtv, d.get_declared_permissions,
                  d.get_details_permissions, d.get_uses_implied_permission_list, d.get_android_manifest_xml):
            f()
    except Exception:     # noqa
        if stats is not None:
            stats("decoy_exception")


def _alt(a, m, q, out):
    """ALTERNATIVE ENTRY POINTS must tell the same story as the main queries."""
    pkg = m["pkg"]
    comp = {"activity": list(m["act"]) + [e["n"] for e in m["main"] if e["k"] == "activity"],
            "service": m["svc"], "receiver": m["rcv"], "provider": m["prv"]}

    def bad(api, entry, msg):
        out.append(("%s:alt:%s" % (api, entry), msg))
    for tag, raws in comp.items():
        api = {"activity": "activities", "service": "services", "receiver": "receivers", "provider": "providers"}[tag]
        g = q("gaav:" + tag, lambda: list(a.get_all_attribute_value(tag, "name")))
        if g != ("<exc>",) and sorted(g) != sorted(complete(pkg, n) for n in raws):
            bad(api, "get_all_attribute_value", "get_all_attribute_value(%r, 'name') = %r, manifest declares %r" % (tag, sorted(g), raws))
        g = q("gaav-raw:" + tag, lambda: list(a.get_all_attribute_value(tag, "name", format_value=False)))
        if g != ("<exc>",) and sorted(g) != sorted(raws):
            bad(api, "get_all_attribute_value-unformatted", "get_all_attribute_value(%r, 'name', format_value=False) = %r, manifest "
                "declares %r" % (tag, sorted(g), raws))
        g = q("find_tags:" + tag, lambda: len(a.find_tags(tag)))
        if g != ("<exc>",) and g != len(raws):
            bad(api, "find_tags", "find_tags(%r) finds %r elements, manifest declares %d" % (tag, g, len(raws)))
    g = q("gav:package", lambda: a.get_attribute_value("manifest", "package"))
    if g != pkg:
        bad("package", "get_attribute_value", "get_attribute_value('manifest', 'package') = %r, manifest declares %r" % (g, pkg))
    s = m["sdk"] or [None, None, None]
    for an, v in zip(("minSdkVersion", "targetSdkVersion", "maxSdkVersion"), s):
        g = q("gav:" + an, lambda: a.get_attribute_value("uses-sdk", an))
        if g != _tvs(v) and not (v is None and g in (None, "")):
            bad({"minSdkVersion": "min_sdk_version", "targetSdkVersion": "target_sdk_version", "maxSdkVersion": "max_sdk_version"}[an],
                "get_attribute_value", "get_attribute_value('uses-sdk', %r) = %r, manifest declares %r" % (an, g, _tvs(v)))
    # the two manifest tree accessors show the same manifest
    def tree(root):
        return (root.tag, root.get("package"), sorted((e.tag, e.get("{%s}name" % A_NS)) for e in root.iter()
                                                      if e.tag in ("activity", "service", "receiver", "provider", "uses-permission")))
    want = ("manifest", pkg, sorted([(t, n) for t, raws in comp.items() for n in raws] + [("uses-permission", n) for n, _ in m["perms"]]))
    for entry, f in (("get_android_manifest_xml", lambda: tree(a.get_android_manifest_xml())),
                     ("get_android_manifest_axml", lambda: tree(a.get_android_manifest_axml().get_xml_obj()))):
        g = q(entry, f)
        if g != ("<exc>",) and g != want:
            bad("manifest_tree", entry, "%s() shows %r, manifest declares %r" % (entry, g, want))
    # requested permissions through the other permission queries
    declared = set(n for n, _ in m["perms"])
    g1 = q("get_requested_aosp_permissions", a.get_requested_aosp_permissions)
    g2 = q("get_requested_third_party_permissions", a.get_requested_third_party_permissions)
    if g1 != ("<exc>",) and g2 != ("<exc>",) and (set(g1) | set(g2) != declared or set(g1) & set(g2)):
        bad("permission", "aosp+third_party", "get_requested_aosp_permissions() %r + get_requested_third_party_permissions() %r do not "
            "partition the requested permissions %r" % (sorted(g1), sorted(g2), sorted(declared)))
    g = q("get_details_permissions", lambda: sorted(a.get_details_permissions()))
    if g != ("<exc>",) and not set(g) <= declared:
        bad("permission", "get_details_permissions", "get_details_permissions() describes %r, manifest requests only %r" % (g, sorted(declared)))
    g = q("get_uses_implied_permission_list", lambda: sorted(x[0] for x in a.get_uses_implied_permission_list()))
    if g != ("<exc>",) and set(g) & declared:
        bad("permission", "get_uses_implied_permission_list", "get_uses_implied_permission_list() %r lists explicitly requested "
            "permissions %r" % (g, sorted(set(g) & declared)))
    g = q("get_declared_permissions", lambda: sorted(a.get_declared_permissions()))
    wantd = ["com.a.permission.DECL"] if "permission-decl" in m["extra"] else []
    if g != ("<exc>",) and g != wantd:
        bad("declared_permission", "get_declared_permissions", "get_declared_permissions() = %r, manifest declares %r" % (g, wantd))


def judge(m, stats=None, history=()):
    """-> (violations [(key, msg)], outcome tuple).  The one judging routine shared by run_shard and replay.
    history: names of PRE queries issued on the fresh APK object before the judged queries (their exceptions, e.g.
    get_app_icon without resources, are not the subject and are swallowed)."""
    from androguard.core.apk import APK
    out = []
    pkg = m["pkg"]
    try:
        a = APK(build_apk(m), raw=True)
    except Exception as e:     # noqa
        return [("apk-init:" + sdk_feature(m), "APK(raw) raised %s: %s" % (type(e).__name__, e))], ("init-exc", type(e).__name__)
    obs = []
    for h in history:
        try:
            r = PRE[h](a, m)
            if stats is not None and r not in (None, "", [], {}, set(), False):
                stats("prequery_nonempty:" + h)
        except Exception:     # noqa
            if stats is not None:
                stats("prequery_exception:" + h)
    if history:
        stats = None       # branch counters of the plain space are not fed by history runs

    def q(api, f):
        try:
            v = f()
        except Exception as e:     # noqa
            out.append((api + ":exception", "%s raised %s: %s" % (api, type(e).__name__, e)))
            obs.append((api, "exc"))
            return ("<exc>",)
        obs.append((api, repr(sorted(v, key=repr)) if isinstance(v, (list, set)) else repr(v)))
        return v

    if not q("is_valid_APK", a.is_valid_APK):
        out.append(("apk-init:not-valid", "is_valid_APK() is False for a well-formed manifest"))

    # package, version
    g = q("get_package", a.get_package)
    if g != pkg:
        out.append(("package:" + ("no-dot" if "." not in pkg else "dotted"), "get_package() = %r, manifest declares %r" % (g, pkg)))
    code, vname = m["ver"]
    g = q("get_androidversion_code", a.get_androidversion_code)
    if (g != _tvs(code)) and not (code is None and g in (None, "")):
        out.append(("version_code:" + ("absent" if code is None else "typed-" + code[0]),
                    "get_androidversion_code() = %r, manifest declares %r" % (g, _tvs(code))))
    g = q("get_androidversion_name", a.get_androidversion_name)
    if (g != vname) and not (vname is None and g in (None, "")):
        out.append(("version_name:" + ("absent" if vname is None else "string"),
                    "get_androidversion_name() = %r, manifest declares %r" % (g, vname)))

    # requested permissions: names literal, no duplicates; (name, maxSdkVersion) pairs
    declared = [n for n, _ in m["perms"]]
    g = q("get_permissions", a.get_permissions)
    if g != ("<exc>",):
        g = list(g)
        if len(g) != len(set(g)):
            out.append(("permission:duplicate", "get_permissions() = %r contains duplicates (declared %r)" % (g, declared)))
        uniq = list(dict.fromkeys(declared))
        missing, extra = _multiset_missing([(n, n) for n in uniq], list(dict.fromkeys(g)))
        if missing or extra:
            feats = sorted(set(literal_kind(n) for n in missing)) or ["unexpected-entry"]
            for f in feats:
                out.append(("permission:" + f, "get_permissions() = %r, manifest requests %r (permission names are not class names: "
                            "Android takes them literally)" % (sorted(g), sorted(uniq))))
    g = q("uses_permissions", lambda: [list(x) for x in a.uses_permissions])
    if g != ("<exc>",):
        want = list(dict.fromkeys((n, mx) for n, mx in m["perms"]))
        got = list(dict.fromkeys((x[0], x[1]) for x in g))
        missing, extra = _multiset_missing([(p, p) for p in want], got)
        if missing or extra:
            feats = sorted(set("maxSdkVersion" if p[1] is not None else literal_kind(p[0]) for p in missing)) or ["unexpected-entry"]
            for f in feats:
                out.append(("uses_permissions:" + f, "APK.uses_permissions = %r, manifest declares (name, maxSdkVersion) %r" % (g, want)))

    # components
    comp = {"activities": list(m["act"]) + [e["n"] for e in m["main"] if e["k"] == "activity"],
            "services": m["svc"], "receivers": m["rcv"], "providers": m["prv"]}
    for api, raws in comp.items():
        g = q("get_" + api, getattr(a, "get_" + api))
        if g == ("<exc>",):
            continue
        missing, extra = _multiset_missing([(n, complete(pkg, n)) for n in raws], list(g))
        if missing or extra:
            feats = sorted(set(name_kind(n) for n in missing)) or ["unexpected-entry"]
            for f in feats:
                out.append(("%s:%s" % (api, f), "get_%s() = %r, manifest declares %r -> %r (package %r)"
                            % (api, sorted(g), raws, sorted(complete(pkg, n) for n in raws), pkg)))
    for n in ALL_NAMES:
        g = q("_format_value", lambda: a._format_value(n))
        if g != complete(pkg, n):
            out.append(("format_value:" + name_kind(n), "_format_value(%r) = %r with package %r, Android's rule gives %r"
                        % (n, g, pkg, complete(pkg, n))))

    # main activity: bounds
    lower = {complete(pkg, e["n"]) for e in m["main"] if e["k"] == "activity" and e["en"] is not False and _is_ml_one_filter(e)}
    upper = {complete(pkg, e["n"]) for e in m["main"] if _is_ml_any(e)}
    tag = main_tag(m)
    gm = q("get_main_activities", a.get_main_activities)
    g1 = q("get_main_activity", a.get_main_activity)
    if gm != ("<exc>",) and g1 != ("<exc>",):
        M = {complete(pkg, x) for x in gm}
        if not (lower <= M <= upper):
            out.append(("main_activity:" + tag, "get_main_activities() = %r (completed %r): must contain %r and stay within the "
                        "MAIN+LAUNCHER carriers %r" % (sorted(gm), sorted(M), sorted(lower), sorted(upper))))
        elif (g1 is None) != (not M) or (g1 is not None and g1 not in M):
            out.append(("main_activity:" + tag, "get_main_activity() = %r but get_main_activities() = %r (completed %r)"
                        % (g1, sorted(gm), sorted(M))))
        reals = {complete(pkg, n) for n in comp["activities"]}
        if lower and g1 is not None and g1 not in reals:
            if JUDGE_ALIAS_PREFERENCE and not any(k.startswith("main_activity:") for k, _ in out):
                out.append(("main_activity:" + tag, "get_main_activity() = %r is no declared <activity> although %r carry "
                            "MAIN+LAUNCHER (declared activities %r)" % (g1, sorted(lower), sorted(reals))))
            if stats is not None:
                stats("notjudged:alias-reported-as-main-activity-although-real-launcher-activity-declared")
        elif lower and stats is not None and any(e["k"] == "alias" and e["en"] is not False and _is_ml_any(e) for e in m["main"]):
            stats("notjudged:real-launcher-activity-preferred-over-launcher-alias")
        if stats is not None:
            stats("main:none" if g1 is None else "main:some")
            als = {complete(pkg, e["n"]) for e in m["main"] if e["k"] == "alias" and e["en"] is not False and _is_ml_any(e)}
            dis = {complete(pkg, e["n"]) for e in m["main"] if e["en"] is False and _is_ml_any(e)}
            if als:
                stats("notjudged:alias-main-" + ("reported" if als & M else "omitted"))
            if dis:
                stats("notjudged:disabled-main-" + ("reported" if dis & M else "omitted"))
            if tag == "split-filters":
                stats("notjudged:split-filters-" + ("reported" if M else "omitted"))

    # sdk versions
    s = m["sdk"] or [None, None, None]
    for an, api, v in zip(("minSdkVersion", "targetSdkVersion", "maxSdkVersion"),
                          ("get_min_sdk_version", "get_target_sdk_version", "get_max_sdk_version"), s):
        g = q(api, getattr(a, api))
        if (g != _tvs(v)) and not (v is None and g in (None, "")):
            f = "absent" if v is None else ("typed-int" if v[0] == "int" else "codename")
            out.append(("%s:%s" % (api[4:], f), "%s() = %r, manifest declares %s=%r" % (api, g, an, _tvs(v))))
    g = q("get_effective_target_sdk_version", a.get_effective_target_sdk_version)
    if g != ("<exc>",):
        mn, tg = s[0], s[1]
        if tg is not None and tg[0] == "int":
            want, f = tg[1], "target-present"
        elif tg is None and mn is not None and mn[0] == "int":
            want, f = mn[1], "target-absent-min-present"
        elif tg is None and mn is None:
            want, f = 1, "both-absent"
        else:
            want, f = None, "codename"
        if stats is not None:
            stats("effective:" + f)
        if want is None:
            if not (isinstance(g, int) and g > 0):
                out.append(("effective_target:codename", "get_effective_target_sdk_version() = %r, documented as 'always int > 0'" % (g,)))
        elif g != want or not isinstance(g, int):
            out.append(("effective_target:" + f, "get_effective_target_sdk_version() = %r, declared min=%r target=%r -> %r "
                        "(target, else min, else 1)" % (g, _tvs(mn), _tvs(tg), want)))

    # features, libraries: literal names
    for api, key, items in (("features", "feat", m["feat"]), ("libraries", "libs", m["libs"])):
        g = q("get_" + api, getattr(a, "get_" + api))
        if g == ("<exc>",):
            continue
        names = [n for n, _ in items if n is not None]
        missing, extra = _multiset_missing([(n, n) for n in names], list(g))
        if missing or extra:
            feats = sorted(set(literal_kind(n) for n in missing)) or ["unexpected-entry"]
            for f in feats:
                out.append(("%s:%s" % (api, f), "get_%s() = %r, manifest declares %r (not class names: taken literally by Android)"
                            % (api, sorted(g), names)))
    _alt(a, m, q, out)
    return out, tuple(obs)


# ------------------------------------------------------------------------------------------------ runner interface
NSH = 64


def shards(ctx):
    return list(range(NSH))


def space(ctx):
    D = dims(ctx)
    return {"dimensions": {n: len(a) for n, a, _ in D},
            "bases": {"MIN": {n: a[0] for n, a, _ in D}, "RICH": {n: a[r] for n, a, r in D}},
            "rule": "all models differing from a base in <= 2 dimensions (singles + all pairs at full alphabets), union over both bases "
                    "(dimension 'order' is varied around RICH only)"
                    + ("; plus full product pkg x act x svc x rcv x prv x main{none, one} over MIN" if ctx.thorough else ""),
            "component_names": NAMES, "component_edge_names": EDGE_NAMES, "permission_items": PERM_ITEMS, "feature_items": FEAT_ITEMS, "library_items": LIB_ITEMS,
            "main_patterns": [t for t, _ in MAIN_ALPHA], "apks": len(cases(ctx)),
            "history": {"models": len(history_models(ctx)),
                        "models_rule": "RICH base and its single-dimension variations"
                                       + ("; MIN single-dimension variations; RICH pairs over main, feat, extra" if ctx.thorough else ""),
                        "decoy": {"model": decoy_model("com.a"), "rule": "opened and queried at the start of every shard and replay; "
                                  "each model is judged after the previous model of its shard (kept in the witness)"},
                        "alternative_entry_points": ["get_all_attribute_value", "get_all_attribute_value(format_value=False)", "find_tags",
                                                     "get_attribute_value", "get_android_manifest_xml", "get_android_manifest_axml",
                                                     "get_requested_aosp_permissions+get_requested_third_party_permissions",
                                                     "get_details_permissions", "get_uses_implied_permission_list",
                                                     "get_declared_permissions"],
                        "depth1_menu": list(PRE), "depth2_menu": PRE2,
                        "histories_per_model": len(histories()),
                        "rule": "on a fresh APK object per history: every single pre-query, every ordered pair (repeats included) of "
                                "the depth-2 menu, then the full judge; only violations absent without history are reported"}}


def history_models(ctx):
    """model tuples that get the history treatment: the RICH base and its single-dimension variations; thorough adds the
    single-dimension variations of MIN and all RICH pairs over the dimensions main, feat, extra."""
    D = dims(ctx)
    rich = tuple(r for _, _, r in D)
    out = {rich}
    bases = [rich] + ([tuple([0] * len(D))] if ctx.thorough else [])
    for base in bases:
        for i, (_, a, _) in enumerate(D):
            for v in range(len(a)):
                out.add(base[:i] + (v,) + base[i + 1:])
    if ctx.thorough:
        sel = [i for i, (n, _, _) in enumerate(D) if n in ("main", "feat", "extra")]
        for i, j in itertools.combinations(sel, 2):
            for vi in range(len(D[i][1])):
                for vj in range(len(D[j][1])):
                    t = list(rich)
                    t[i], t[j] = vi, vj
                    out.add(tuple(t))
    return sorted(out)


def judge_history(m, history, cache=None, stats=None):
    """violations that appear only because `history` was run first on the same APK object.
    -> ([(key '<api>:after:<pre>[+<pre>]', msg)], outcome).  A violation of a depth-2 history that a single one of its
    pre-queries already provokes is keyed by that single pre-query (minimal history)."""
    cache = {} if cache is None else cache
    history = tuple(history)
    if () not in cache:
        cache[()] = {k for k, _ in judge(m)[0]}     # wrong without any history too: the plain space's finding, not ours

    def run(h):
        if h not in cache:
            res, outcome = judge(m, stats, h)
            cache[h] = ([(k, msg) for k, msg in res if k not in cache[()]], outcome)
        return cache[h]
    res, outcome = run(history)
    out, seen = [], set()
    for key, msg in res:
        minimal = history
        if len(history) > 1:
            for sub in dict.fromkeys((h,) for h in history):
                if any(k == key for k, _ in run(sub)[0]):
                    minimal = sub
                    break
        hk = "%s:after:%s" % (key.split(":")[0], "+".join(minimal))
        if hk not in seen:
            seen.add(hk)
            out.append((hk, "after %s on the same APK object: %s" % (", ".join(h + "()" for h in history), msg)))
    return out, outcome


def run_shard(ctx, shard):
    acc = Acc()
    allc = cases(ctx)
    for pkg in ("com.a", "a"):
        _decoy(pkg, acc.count)
        acc.count("decoys_opened")
    prev = None
    for t in allc[shard::NSH]:
        m = model_of(ctx, t)
        res, outcome = judge(m, acc.count)
        acc.case(nontrivial=t if any(t) else None, outcome=outcome)
        for key, msg in res:
            acc.violation(key, {"model": m, "prev": prev} if prev is not None else {"model": m},
                          msg + ("" if prev is None else "\n(opened before in the same process, after the decoys: %r)" % (prev,)))
        prev = m
        acc.count("cases_after_a_different_manifest")
        if shard == 0 and len(acc.samples) < 3 and sum(1 for x in t if x) == 2:
            acc.sample({"model": m})
    hs = histories()
    for t in history_models(ctx)[shard::NSH]:
        m = model_of(ctx, t)
        cache = {}
        for h in hs:
            res, outcome = judge_history(m, h, cache, acc.count)
            acc.case(nontrivial=(t, h), outcome=(h, outcome))
            acc.count("histories_depth%d" % len(h))
            for key, msg in res:
                acc.violation(key, {"model": m, "history": list(h)}, msg)
        acc.count("history_models")
        if shard == 1 and len(acc.samples) < 4:
            acc.sample({"model": m, "history": list(hs[-2])})
    return acc


def replay(ctx, w):
    dims(ctx)
    for pkg in ("com.a", "a"):
        _decoy(pkg)
    if w.get("prev"):
        judge(w["prev"])            # the manifest that was open before in the same process; its answers are not judged here
    if w.get("history"):
        res = judge_history(w["model"], tuple(w["history"]))[0]
    else:
        res, _ = judge(w["model"])
    return "\n".join("%s: %s" % (k, msg) for k, msg in res) if res else None


def finalize(ctx, acc):
    n = len(cases(ctx))
    hm, hs = len(history_models(ctx)), histories()
    d1 = sum(1 for h in hs if len(h) == 1)
    if acc.n != n + hm * len(hs):
        acc.harness_error("evaluated %d of %d cases" % (acc.n, n + hm * len(hs)))
    if acc.extra.get("histories_depth1") != hm * d1 or acc.extra.get("histories_depth2") != hm * (len(hs) - d1) or hm < 150:
        acc.harness_error("history dimension degenerated: %r models, depth1 %r, depth2 %r" % (
            hm, acc.extra.get("histories_depth1"), acc.extra.get("histories_depth2")))
    if acc.extra.get("decoys_opened") != 2 * NSH or acc.extra.get("decoy_exception"):
        acc.harness_error("decoy history degenerated: opened %r, exceptions %r" % (acc.extra.get("decoys_opened"), acc.extra.get("decoy_exception")))
    for h in ("get_app_name", "is_androidtv", "get_main_activity", "get_activities", "get_features", "get_intent_filters"):
        if h != "get_app_name" and not acc.extra.get("prequery_nonempty:" + h):
            acc.harness_error("vacuous: pre-query %s never returned anything" % h)
        if acc.extra.get("prequery_exception:" + h):
            acc.harness_error("pre-query %s raised %d times" % (h, acc.extra["prequery_exception:" + h]))
    # the oracle must be able to tell a wrong answer from a right one: completion rule self-test on fixed points
    if [complete("com.a", x) for x in ALL_NAMES] != ["com.a.Rel", "com.a.NoDot", "com.a.Full", "other.p.C", "Trail.", "com.a.", "com.a..Two",
                                                     "A.B", "com.a.a"] or complete("a", "NoDot") != "a.NoDot":
        acc.harness_error("reference completion rule broken")
    init_fail = sum(v["count"] for k, v in acc.viol.items() if k.startswith("apk-init:"))
    judged = n - init_fail
    if judged < n // 2:
        acc.harness_error("vacuous: only %d of %d APKs could be loaded and judged" % (judged, n))
    for c in ("main:none", "main:some", "effective:target-present", "effective:target-absent-min-present", "effective:both-absent"):
        if not acc.extra.get(c):
            acc.harness_error("vacuous: branch %r never exercised" % c)
    if len(acc.outcomes) < acc.n // 4:
        acc.harness_error("vacuous: only %d distinct observations for %d models" % (len(acc.outcomes), acc.n))
    if not (acc.extra.get("notjudged:real-launcher-activity-preferred-over-launcher-alias", 0)
            + acc.extra.get("notjudged:alias-reported-as-main-activity-although-real-launcher-activity-declared", 0)):
        acc.harness_error("vacuous: no model with a real launcher activity next to a launcher alias was observed")
    acc.note("not judged: whether an activity-alias / an enabled=false activity / MAIN and LAUNCHER in different filters counts as "
             "main activity when no enabled launcher <activity> exists (observed behaviour is counted in notjudged:*; the preference "
             "of a real launcher activity over a launcher alias IS judged, its two counters are kept); effective target SDK with codename values beyond "
             "'int > 0'; get_declared_permissions, get_details_permissions, implied permissions; multiplicity of APK.uses_permissions")
