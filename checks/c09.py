"""C09  Corrupted or non-DEX input is rejected at the header  (engine E4: exhaustive single-fault enumeration).

Space: three small generated DEX files (gen/dexcatalog.TINY) x
  * every offset >= 12 x every one of the 255 other byte values (checksum NOT repaired),
  * every byte of the checksum field (offsets 8..11) x 255 other values,
  * every truncation length 0..len-1 and every extension by 1..4 bytes (alphabet {00,ff}),
  * with the checksum REPAIRED: magic bytes 0,1,2,3,7 x all 255 alternatives (byte 2 -> 'y' (dey) excluded: the
    optimized-dex magic is accepted by design; version digits 4..6 are not judged), endian tag in
    {swapped, 0, ffffffff, 12345679, 78563413}, header size in {0, 0x6f, 0x71, 0xffffffff, 0x70 << 8}.
  * the same enumerations on four files whose REAL Adler-32 is a special value (0, 1, 0x00010000, 0xfff0fff0; the 'fields'
    file plus a 2000-character filler string solved for both running sums, signature blank), 5 byte values per offset in
    quick and all 255 in thorough; and the checksum field of every file overwritten with those special values.
Oracle: DEX(buf) raises ValueError / NotImplementedError (an `Exception`), and wrappers around MapList.__init__ and
MapItem.parse prove that nothing was parsed before the rejection.
"""
import struct
import zlib

from mc.core import Acc

PROPERTY = "C09"
LEVEL = "fault_enumeration"
RULE = ("3 generated DEX files + 4 files tuned to a special real Adler-32 (0, 1, 0x10000, 0xfff0fff0) x {every offset>=12 x 255 other byte values; checksum bytes x 255; every truncation; "
        "extensions by 1-4 bytes; checksum-repaired wrong magic / endian tag / header size}; every mutant is distinct by "
        "construction; non-trivial = the mutant differs from the valid file (all of them)")
ASSUMPTIONS = ["'dey\\n' (optimized dex) magic and arbitrary version digits are accepted by design and not judged",
               "rejection = any Exception raised by DEX(buf) before MapList/MapItem parsing starts"]
MANIFEST = {
    "engine": "E4-faults",
    "technique": "exhaustive single-byte fault enumeration + repaired-checksum header field enumeration on generated DEX files",
    "text": "Every single-byte substitution at every offset >= 8 (255 values each), every truncation/extension, and every "
            "wrong magic/endian/header-size value with a repaired checksum is fed to the real DEX constructor; each must be "
            "rejected and instrumentation proves no map item was parsed first. Complete for the three files.",
    "note": "Trusted: gen/dexgen output being valid (conformance-checked against shipped files), zlib.adler32.",
}

FILES = ["empty", "fields", "method"]
# files whose REAL Adler-32 is a special value (both running sums are free modulo 65521): 0 (a blank-looking field),
# 1 (the checksum of no data), 0x00010000, and the largest value 0xfff0fff0
SPECIAL = {"adler0": (0, 0), "adler1": (1, 0), "adler10000": (0, 1), "adlermax": (65520, 65520)}
FILES_ALL = FILES + list(SPECIAL)
FILLER_N = 2000
MOD = 65521


def tuned(target):
    """the 'fields' file plus one 2000-character ASCII filler string, signature left blank (androguard never reads it), the
    filler chosen so that adler32(file[12:]) == target exactly.  Deterministic; asserts the result."""
    from gen import dexcatalog, dexgen
    m = dexcatalog.TINY["fields"]()
    m.extra_strings = tuple(getattr(m, "extra_strings", ())) + ("~~~~" + "P" * FILLER_N,)
    b = bytearray(dexgen.build(m))
    b[12:32] = bytes(20)
    f0 = bytes(b).index(b"~~~~" + b"P" * FILLER_N) + 4
    n = len(b) - 12
    tA, tB = target

    def sums():
        v = zlib.adler32(bytes(b[12:])) & 0xffffffff
        return v & 0xffff, v >> 16
    A, _ = sums()
    dA = (tA - A) % MOD
    if dA > MOD // 2:
        dA -= MOD
    q, r = divmod(abs(dA), FILLER_N)
    sg = 1 if dA >= 0 else -1
    for i in range(FILLER_N):
        b[f0 + i] += sg * (q + (1 if i < r else 0))
    _, B = sums()
    R = (tB - B) % MOD
    # moving one unit from filler index j to index i < j raises B by j - i and leaves A alone
    k = 0
    while R:
        i, j = k, FILLER_N - 1 - k
        d = j - i
        if d <= 0:
            raise AssertionError("filler exhausted")
        if R < d:
            j = i + R
            d = R
        u = min(R // d, 0x7e - b[f0 + i], b[f0 + j] - 0x21)
        b[f0 + i] += u
        b[f0 + j] -= u
        R -= u * d
        k += 1
    b[8:12] = struct.pack("<I", zlib.adler32(bytes(b[12:])) & 0xffffffff)
    assert sums() == (tA, tB), (sums(), target)
    assert all(0x21 <= c <= 0x7e for c in b[f0:f0 + FILLER_N])
    return bytes(b)


_cache = {}


def _files():
    if not _cache:
        from gen import dexcatalog, dexgen
        _cache.update({n: dexgen.build(dexcatalog.TINY[n]()) for n in FILES})
        _cache.update({n: tuned(t) for n, t in SPECIAL.items()})
    return _cache


_probe = {"n": 0}
_installed = [False]


def _install():
    if _installed[0]:
        return
    from androguard.core import dex
    o1, o2 = dex.MapList.__init__, dex.MapItem.parse

    def w1(self, *a, **k):
        _probe["n"] += 1
        return o1(self, *a, **k)

    def w2(self, *a, **k):
        _probe["n"] += 1
        return o2(self, *a, **k)
    dex.MapList.__init__, dex.MapItem.parse = w1, w2
    _installed[0] = True


def repair(b):
    b = bytearray(b)
    b[8:12] = struct.pack("<I", zlib.adler32(bytes(b[12:])) & 0xffffffff)
    return bytes(b)


def mutate(base, mut):
    k = mut[0]
    if k == "sub":
        b = bytearray(base); b[mut[1]] = mut[2]; return bytes(b)
    if k == "trunc":
        return base[:mut[1]]
    if k == "ext":
        return base + bytes.fromhex(mut[1])
    if k == "hdr":      # checksum-repaired header overwrite: (offset, hex bytes)
        b = bytearray(base); raw = bytes.fromhex(mut[2]); b[mut[1]:mut[1] + len(raw)] = raw
        return repair(b)
    if k == "raw":      # overwrite WITHOUT repairing the checksum: (offset, hex bytes)
        b = bytearray(base); raw = bytes.fromhex(mut[2]); b[mut[1]:mut[1] + len(raw)] = raw
        return bytes(b)
    raise ValueError(k)


def region(base, off):
    if off < 12:
        return "checksum-field"
    if off < 32:
        return "signature"
    if off < 0x70:
        return "header-fields"
    data_off, = struct.unpack_from("<I", base, 0x6c)
    map_off, = struct.unpack_from("<I", base, 0x34)
    if off < data_off:
        return "id-tables"
    if off < map_off:
        return "data"
    return "map"


def classify(base, mut):
    k = mut[0]
    if k == "sub":
        return "byte-change:" + region(base, mut[1])
    if k == "trunc":
        return "truncation" + (":inside-header" if mut[1] < 0x70 else "")
    if k == "ext":
        return "extension"
    if k == "raw":
        return "checksum-field-overwritten"
    return "repaired:" + {0: "magic", 1: "magic", 2: "magic", 3: "magic", 7: "magic", 40: "endian-tag", 36: "header-size"}[mut[1]]


def judge(name, base, mut, repeat=1):
    """-> None | (key, msg).  repeat > 1 (replay): the history 'intact file loaded, dropped, corrupted copy loaded' is run
    several times in the same process; a single acceptance is a violation (a correct parser never accepts, so repeating
    cannot raise a false alarm; it makes acceptance that depends on object-address reuse reproducible)."""
    r = None
    for _ in range(repeat):
        r = _judge_once(name, base, mut)
        if r:
            return r
    return r


def _judge_once(name, base, mut):
    from androguard.core import dex
    _install()
    buf = mutate(base, mut)
    if buf == base:
        return None
    if mut[0] in ("trunc", "ext") and len(buf) >= 12 and zlib.adler32(buf[12:]) & 0xffffffff == struct.unpack_from("<I", buf, 8)[0]:
        # Adler-32 with a zero low sum cannot see appended / removed zero bytes: the checksum of this buffer is RIGHT, and the
        # property only speaks of wrong checksums and single-byte changes -> not judged
        return None
    # history: the intact file is loaded first in the same process (a parser that remembers what it has already
    # verified must still reject the corrupted copy); replay() goes through here too, so the history is part of every witness
    try:
        dex.DEX(base)
    except Exception:      # noqa  (reported by run_shard's sanity check)
        pass
    _probe["n"] = 0
    try:
        dex.DEX(buf)
    except Exception as e:      # noqa
        if _probe["n"]:
            return ("parsed-before-reject:" + classify(base, mut),
                    "%s %r: rejected with %s but %d map structures were parsed first" % (name, mut, type(e).__name__, _probe["n"]))
        return None
    return (classify(base, mut), "%s %r: corrupted buffer accepted (map structures parsed: %d)" % (name, mut, _probe["n"]))


def cases(name, base, part, nparts, thorough=False):
    n = len(base)
    offs = list(range(8, n))
    for off in offs[part::nparts]:
        if name in SPECIAL and not thorough:
            vals = sorted({base[off] ^ 1, base[off] ^ 0x80, base[off] ^ 0xff, 0, 0xff})     # quick: 5 values per offset
        else:
            vals = range(256)
        for v in vals:
            if v != base[off]:
                yield ("sub", off, v)
    if part == 0:
        for w in ("00000000", "01000000", "00000100", "ffffffff", "f0fff0ff"):
            yield ("raw", 8, w)
        for t in range(0, n):
            yield ("trunc", t)
        for e in ("00", "ff", "0000", "ffff", "000000", "00000000", "ffffffff"):
            yield ("ext", e)
        for off in (0, 1, 2, 3, 7):
            for v in range(256):
                if v == base[off] or (off == 2 and v == 0x79):
                    continue
                yield ("hdr", off, "%02x" % v)
        for tag in (0x78563412, 0, 0xffffffff, 0x12345679, 0x78563413):
            yield ("hdr", 40, struct.pack("<I", tag).hex())
        for hs in (0, 0x6f, 0x71, 0xffffffff, 0x7000):
            yield ("hdr", 36, struct.pack("<I", hs).hex())


NPARTS = 16


def shards(ctx):
    return [(f, p) for f in FILES_ALL for p in range(NPARTS)]


def space(ctx):
    fs = _files()
    return {"files": {k: len(v) for k, v in fs.items()}, "byte_alphabet": "all 255 other values", "offsets": ">= 8",
            "truncations": "every length",
            "special_real_checksums": {k: "%08x" % (t[0] | t[1] << 16) for k, t in SPECIAL.items()},
            "special_file_values_per_offset": "all 255" if ctx.thorough else "xor 01 / xor 80 / xor ff / 00 / ff",
            "checksum_field_overwrites": ["00000000", "00000001", "00010000", "ffffffff", "fff0fff0"], "repaired_header": ["magic bytes 0,1,2,3,7", "endian tag x5", "header size x5"]}


def run_shard(ctx, shard):
    name, part = shard
    base = _files()[name]
    acc = Acc()
    # sanity: the unmodified file must be accepted, otherwise the whole exploration is vacuous
    from androguard.core import dex
    _install()
    try:
        dex.DEX(base)
    except Exception as e:     # noqa
        acc.harness_error("generated file %s is rejected unmodified: %r" % (name, e))
        return acc
    sp = ":real-checksum-%s" % name[5:] if name in SPECIAL else ""
    for mut in cases(name, base, part, NPARTS, ctx.thorough):
        r = judge(name, base, mut)
        acc.n += 1
        acc.nt_disjoint += 1
        acc.outcomes.add(hash(classify(base, mut) + sp))
        if r:
            acc.violation(r[0] + sp, {"file": name, "mut": list(mut)}, r[1])
    if part == 0:
        acc.sample({"file": name, "mut": ["sub", 12, base[12] ^ 1]})
        acc.sample({"file": name, "mut": ["hdr", 40, "12345678"[::-1]]})
    return acc


def replay(ctx, w):
    base = _files()[w["file"]]
    r = judge(w["file"], base, tuple(w["mut"]), repeat=200)
    return r[1] if r else None


def finalize(ctx, acc):
    if len(acc.outcomes) < 6:
        acc.harness_error("vacuous: only %d mutation classes explored" % len(acc.outcomes))
