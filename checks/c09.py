"""C09  Corrupted or non-DEX input is rejected at the header  (engine E4: exhaustive single-fault enumeration).

Space: three small generated DEX files (gen/dexcatalog.TINY) x
  * every offset >= 12 x every one of the 255 other byte values (checksum NOT repaired),
  * every byte of the checksum field (offsets 8..11) x 255 other values,
  * every truncation length 0..len-1 and every extension by 1..4 bytes (alphabet {00,ff}),
  * with the checksum REPAIRED: magic bytes 0,1,2,3,7 x all 255 alternatives (byte 2 -> 'y' (dey) excluded: the
    optimized-dex magic is accepted by design; version digits 4..6 are not judged), endian tag in
    {swapped, 0, ffffffff, 12345679, 78563413}, header size in {0, 0x6f, 0x71, 0xffffffff, 0x70 << 8}.
Oracle: DEX(buf) raises ValueError / NotImplementedError (an `Exception`), and wrappers around MapList.__init__ and
MapItem.parse prove that nothing was parsed before the rejection.
"""
import struct
import zlib

from mc.core import Acc

PROPERTY = "C09"
LEVEL = "fault_enumeration"
RULE = ("3 generated DEX files x {every offset>=12 x 255 other byte values; checksum bytes x 255; every truncation; "
        "extensions by 1-4 bytes; checksum-repaired wrong magic / endian tag / header size}; every mutant is distinct by "
        "construction; non-trivial = the mutant differs from the valid file (all of them)")
ASSUMPTIONS = ["'dey\\n' (optimized dex) magic and arbitrary version digits are accepted by design and not judged",
               "rejection = any Exception raised by DEX(buf) before MapList/MapItem parsing starts"]
MANIFEST = {
    "engine": "E4-faults",
    "technique": "exhaustive single-byte fault enumeration + repaired-checksum header field enumeration on generated DEX files",
    "text": "Every single-byte substitution at every offset >= 8 (255 values each), every truncation/extension, and every "
            "wrong magic/endian/header-size value with a repaired checksum is fed to the real DEX constructor; each must be "
            "rejected and instrumentation proves no map item was parsed first. Complete for the three files.",
    "note": "Trusted: gen/dexgen output being valid (conformance-checked against shipped files), zlib.adler32.",
}

FILES = ["empty", "fields", "method"]


def _files():
    from gen import dexcatalog, dexgen
    return {n: dexgen.build(dexcatalog.TINY[n]()) for n in FILES}


_probe = {"n": 0}
_installed = [False]


def _install():
    if _installed[0]:
        return
    from androguard.core import dex
    o1, o2 = dex.MapList.__init__, dex.MapItem.parse

    def w1(self, *a, **k):
        _probe["n"] += 1
        return o1(self, *a, **k)

    def w2(self, *a, **k):
        _probe["n"] += 1
        return o2(self, *a, **k)
    dex.MapList.__init__, dex.MapItem.parse = w1, w2
    _installed[0] = True


def repair(b):
    b = bytearray(b)
    b[8:12] = struct.pack("<I", zlib.adler32(bytes(b[12:])) & 0xffffffff)
    return bytes(b)


def mutate(base, mut):
    k = mut[0]
    if k == "sub":
        b = bytearray(base); b[mut[1]] = mut[2]; return bytes(b)
    if k == "trunc":
        return base[:mut[1]]
    if k == "ext":
        return base + bytes.fromhex(mut[1])
    if k == "hdr":      # checksum-repaired header overwrite: (offset, hex bytes)
        b = bytearray(base); raw = bytes.fromhex(mut[2]); b[mut[1]:mut[1] + len(raw)] = raw
        return repair(b)
    raise ValueError(k)


def region(base, off):
    if off < 12:
        return "checksum-field"
    if off < 32:
        return "signature"
    if off < 0x70:
        return "header-fields"
    data_off, = struct.unpack_from("<I", base, 0x6c)
    map_off, = struct.unpack_from("<I", base, 0x34)
    if off < data_off:
        return "id-tables"
    if off < map_off:
        return "data"
    return "map"


def classify(base, mut):
    k = mut[0]
    if k == "sub":
        return "byte-change:" + region(base, mut[1])
    if k == "trunc":
        return "truncation" + (":inside-header" if mut[1] < 0x70 else "")
    if k == "ext":
        return "extension"
    return "repaired:" + {0: "magic", 1: "magic", 2: "magic", 3: "magic", 7: "magic", 40: "endian-tag", 36: "header-size"}[mut[1]]


def judge(name, base, mut, repeat=1):
    """-> None | (key, msg).  repeat > 1 (replay): the history 'intact file loaded, dropped, corrupted copy loaded' is run
    several times in the same process; a single acceptance is a violation (a correct parser never accepts, so repeating
    cannot raise a false alarm; it makes acceptance that depends on object-address reuse reproducible)."""
    r = None
    for _ in range(repeat):
        r = _judge_once(name, base, mut)
        if r:
            return r
    return r


def _judge_once(name, base, mut):
    from androguard.core import dex
    _install()
    buf = mutate(base, mut)
    if buf == base:
        return None
    # history: the intact file is loaded first in the same process (a parser that remembers what it has already
    # verified must still reject the corrupted copy); replay() goes through here too, so the history is part of every witness
    try:
        dex.DEX(base)
    except Exception:      # noqa  (reported by run_shard's sanity check)
        pass
    _probe["n"] = 0
    try:
        dex.DEX(buf)
    except Exception as e:      # noqa
        if _probe["n"]:
            return ("parsed-before-reject:" + classify(base, mut),
                    "%s %r: rejected with %s but %d map structures were parsed first" % (name, mut, type(e).__name__, _probe["n"]))
        return None
    return (classify(base, mut), "%s %r: corrupted buffer accepted (map structures parsed: %d)" % (name, mut, _probe["n"]))


def cases(name, base, part, nparts):
    n = len(base)
    offs = list(range(8, n))
    for off in offs[part::nparts]:
        for v in range(256):
            if v != base[off]:
                yield ("sub", off, v)
    if part == 0:
        for t in range(0, n):
            yield ("trunc", t)
        for e in ("00", "ff", "0000", "ffff", "000000", "00000000", "ffffffff"):
            yield ("ext", e)
        for off in (0, 1, 2, 3, 7):
            for v in range(256):
                if v == base[off] or (off == 2 and v == 0x79):
                    continue
                yield ("hdr", off, "%02x" % v)
        for tag in (0x78563412, 0, 0xffffffff, 0x12345679, 0x78563413):
            yield ("hdr", 40, struct.pack("<I", tag).hex())
        for hs in (0, 0x6f, 0x71, 0xffffffff, 0x7000):
            yield ("hdr", 36, struct.pack("<I", hs).hex())


NPARTS = 16


def shards(ctx):
    return [(f, p) for f in FILES for p in range(NPARTS)]


def space(ctx):
    fs = _files()
    return {"files": {k: len(v) for k, v in fs.items()}, "byte_alphabet": "all 255 other values", "offsets": ">= 8",
            "truncations": "every length", "repaired_header": ["magic bytes 0,1,2,3,7", "endian tag x5", "header size x5"]}


def run_shard(ctx, shard):
    name, part = shard
    base = _files()[name]
    acc = Acc()
    # sanity: the unmodified file must be accepted, otherwise the whole exploration is vacuous
    from androguard.core import dex
    _install()
    try:
        dex.DEX(base)
    except Exception as e:     # noqa
        acc.harness_error("generated file %s is rejected unmodified: %r" % (name, e))
        return acc
    for mut in cases(name, base, part, NPARTS):
        r = judge(name, base, mut)
        acc.n += 1
        acc.nt_disjoint += 1
        acc.outcomes.add(hash(classify(base, mut)))
        if r:
            acc.violation(r[0], {"file": name, "mut": list(mut)}, r[1])
    if part == 0:
        acc.sample({"file": name, "mut": ["sub", 12, base[12] ^ 1]})
        acc.sample({"file": name, "mut": ["hdr", 40, "12345678"[::-1]]})
    return acc


def replay(ctx, w):
    base = _files()[w["file"]]
    r = judge(w["file"], base, tuple(w["mut"]), repeat=200)
    return r[1] if r else None


def finalize(ctx, acc):
    if len(acc.outcomes) < 6:
        acc.harness_error("vacuous: only %d mutation classes explored" % len(acc.outcomes))
