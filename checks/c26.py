"""C26  Binary XML is converted to the XML tree it encodes  (engine E2: bounded structure enumeration).

XML models (gen/axmlgen.py model) are enumerated, serialised by the independent writer, parsed by
AXMLPrinter and compared with the model: element tags (namespace URI + local name), child order, attribute
expanded names, attribute values (string -> the pool string, typed -> ref/resval.py), text, tails, and the
prefix -> URI declarations in scope (elem.nsmap); the same comparison is repeated on get_xml() / get_buff()
re-parsed by lxml.

The full product of all dimensions is far too large, so the space is the union of these exhaustive sub-products
("one block of dimensions at full alphabet, the others at a base value"; every dimension is additionally crossed
with the pool encoding, and the pairs shape x namespaces, namespaces x attribute kinds, attributes x resource map,
strings x positions, shape x text are crossed in full):
  F1 shape x names x nscfg x pool x order  all 8 ordered trees with <= 4 elements and depth <= 3, every assignment of
                                           {a, b1, x.y-z} to the elements, every namespace configuration
  F2 attribute pairs                       one element: every attribute variant alone and every ordered pair of
                                           variants (kind {plain, android:, custom-ns} x value type x 2 boundary data)
                                           x pool x resource map {off, on}
  F2b attributes across elements           root variant x child variant x pool
  F6 shape x nscfg x variant x pool        every variant on the last element of every shape under every nscfg
                                           (thorough: also x every name assignment)
  F3 strings                               string alphabet^2 at (attribute value, text) + shared value x pool
  F4 text placement                        every shape x every subset of elements with a text first child x pool;
                                           text after a child element (tail), alone and with a first text
  F5 resource map                          ordered pairs of mapped attributes (known ids with matching names, unknown
                                           ids) x extra unmapped attribute x value type x pool x order x 3 shapes
  F8 XML Char boundaries                   each of U+0009 U+000A U+000D U+0020 U+007F U+0085 U+D7FF U+E000 U+FFFD U+10000
                                           U+10FFFF x position {alone, middle, first, last, twice} x place {plain value,
                                           android: value, text, value+text, two values + child text} x pool
  F9 attribute layout                      attributeStart {20, 24, 28} x attributeSize {20, 24, 28} x filler {0x00, 0xA5}
                                           x every ordered selection of 0..3 of six attribute variants on the root (+ a
                                           child with two attributes and text) x pool (x resource map for pairs)
  F10 id-only names x prefixes             attributes whose pool name is empty and whose name comes from the resource map id
                                           (name, label, layout_width, id) under the prefix android / a second prefix of the
                                           same URI / no namespace, ordered pairs with named-mapped, unknown-id and plain
                                           attributes x value type x 2 shapes x pool x 3 pool orders
  F11 maxima                               255 / 256 / 1000 / 4096 (thorough 65535) attributes on one element with a
                                           resource map of half of them, depth 40 / 200, 40 / 300 namespace declarations
  every document (except families F2, F6 and the permuted-pool F1 documents) is preceded, in the same judged unit, by a DECOY document with the same names, ids,
  namespaces and pool layout but other values; and (except F2, F2b, F6) is also read through the AXMLParser event
  iterator, whose event sequence must equal the model's
  F7 id/class/style indices                ordered selections of <= 3 of {android:id, class, style, plain} with the
                                           idIndex/classIndex/styleIndex header fields set x pool x resource map x 2 shapes
Caps: <= 4 elements, <= 4 attributes per document, depth <= 3.
"""
import itertools

from mc.core import Acc

PROPERTY = "C26"
LEVEL = "exploration"
RULE = ("union of exhaustive sub-products over XML models (<= 4 elements, depth <= 3, <= 4 attributes): shapes x names x "
        "namespace configurations, all ordered pairs of attribute variants (3 kinds x 14 types x 2 data), variants x shapes x "
        "namespaces, string alphabet^2, text placements, resource-map combinations, each in a UTF-8 and a UTF-16 pool; "
        "non-trivial = every document (none is empty); distinct by the serialised bytes")
ASSUMPTIONS = [
    "gen/axmlgen.py is the independent writer (byte layer reproduces 1005 shipped aapt/aapt2 files exactly; every generated "
    "document is additionally re-read by its strict reader and compared with the model)",
    "names and values are legal XML (androguard rewrites illegal ones: DESIGN 11), including every boundary character of "
    "the XML 1.0 Char production (F8); illegal characters (C0 controls other than TAB/LF/CR, U+FFFE, U+FFFF, lone "
    "surrogates) stay outside the alphabet; no comment indices; no styled pools",
    "dimension/fraction data use non-negative mantissas here: the sign of complex values is C27's subject and C27 runs it "
    "through this same writer",
    "resource map: ids known to androguard's public table are paired with their matching name or with an empty name "
    "(id-only, F10: the name then is the android.R.attr constant of that id; 7 well-known ids hard-coded in the check)",
    "the AXMLParser iterator reports mapped attribute names with ':' for '_' (layout:width); names are compared modulo that",
    "the default (empty-prefix) namespace is compared by URI only; TYPE_NULL attribute values are not compared",
    "full cartesian product is replaced by the union of sub-products listed in the module docstring",
]
MANIFEST = {
    "engine": "E2-structures",
    "technique": "bounded enumeration of XML models serialised by an independent AXML writer, tree comparison with the model",
    "text": "Every XML model of the stated sub-products (all tree shapes up to 4 elements, all name assignments, nine namespace "
            "configurations, every ordered pair of 84 attribute variants, string-length and encoding boundaries, text placements, "
            "resource maps) is written as binary XML in a UTF-8 and a UTF-16 pool, parsed by AXMLPrinter and compared with the "
            "model on tags, namespaces, attributes, typed values and text, for the object tree and for the printed XML.",
    "note": "Trusted: the writer (validated against shipped files and a strict reader) and ref/resval.py. The full product is "
            "replaced by a union of exhaustive sub-products; negative complex mantissas are left to C27.",
}

ANDROID = "http://schemas.android.com/apk/res/android"
APP = "http://schemas.android.com/apk/res-auto"
URI_A = "urn:x-a"
URI_B = "urn:x-b"

NAMES = ["a", "b1", "x.y-z"]
NAMES_THOROUGH = NAMES + ["_u", "A-1"]

# ordered trees as parent vectors (document order), <= 4 elements, depth <= 3
SHAPES = [(-1,), (-1, 0), (-1, 0, 0), (-1, 0, 1), (-1, 0, 0, 0), (-1, 0, 1, 0), (-1, 0, 0, 2), (-1, 0, 1, 1)]

# namespace configurations: name -> function(elems) that fills decl / element ns
NSCFG = ["none", "android-root", "android+app-root", "app-nested", "android-redeclared", "prefix-shadowed",
         "two-prefixes-one-uri", "element-ns-root", "element-ns-all", "default-ns", "app+android-root"]

STRINGS = {
    "empty": "", "len1": "x", "ascii": "hello world", "spaces": "  lead and trail ", "len127": "a" * 127, "len128": "b" * 128,
    "len300": "c" * 300, "bmp": "é中א", "bmp64": "é" * 64, "astral": "x\U0001F600y", "markup": "<&>\"'",
    "tab-mid": "a\tb", "lf-cr": "l1\nl2\r", "del-nel": "\x7f\x85", "bmp-edges": "\ud7ff\ue000\ufffd",
    "astral-edges": "\U00010000\U0010ffff",
}
# boundary characters of the XML 1.0 Char production (#x9 | #xA | #xD | [#x20-#xD7FF] | [#xE000-#xFFFD] |
# [#x10000-#x10FFFF]) plus DEL and NEL: all legal, none may be rewritten
XML_BOUNDARY = [0x09, 0x0A, 0x0D, 0x20, 0x7F, 0x85, 0xD7FF, 0xE000, 0xFFFD, 0x10000, 0x10FFFF]
CHAR_POSITIONS = {"alone": "%s", "middle": "a%sb", "first": "%sab", "last": "ab%s", "twice": "%sa%s"}

STRINGS_THOROUGH = {"len32767": "d" * 0x7FFF, "len32768-utf16only": "e" * 0x8000, "bmp-len127": "中" * 127}

# value variants: type -> two boundary data values (string: two strings)
TYPED = [
    (0x10, [0x80000000, 0x7FFFFFFF]), (0x11, [0x00000000, 0xFFFFFFFF]), (0x12, [0x00000000, 0xFFFFFFFF]),
    (0x04, [0x3F800000, 0xC2F6E979]), (0x05, [0x00000101, 0x7FFFFF35]), (0x06, [0x00004011, 0x7FFFFF30]),
    (0x01, [0x7F040001, 0x01040000]), (0x02, [0x7F010002, 0x01010036]), (0x1C, [0xFF000000, 0x00FFFFFF]),
    (0x1D, [0xFF112233, 0xFFFFFFFF]), (0x1E, [0xFFAABBCC, 0x00000000]), (0x1F, [0xFF778899, 0x80000000]),
    (0x00, [0, 1]),
]
KINDS = ["plain", "android", "custom"]
ATTR_NAMES = {"plain": ["p", "q", "r", "s"], "android": ["name", "label", "icon", "theme"], "custom": ["c", "d", "e", "f"]}
KNOWN_RID = {"name": 0x01010003, "label": 0x01010001, "icon": 0x01010002, "theme": 0x01010000,
             "layout_width": 0x010100F4, "versionCode": 0x0101021B, "id": 0x010100D0}
UNKNOWN_RID = {"future": 0x01019999, "c": 0x7F010000, "d": 0x7F010001}


def variants():
    """(kind, type, data-or-string) for every kind x type x two boundary values."""
    out = []
    for k in KINDS:
        out.append((k, 0x03, "v"))
        out.append((k, 0x03, ""))
        for t, ds in TYPED:
            for d in ds:
                out.append((k, t, d))
    return out


# ------------------------------------------------------------------------------------------------ model construction
def skeleton(shape, names):
    elems = [{"ns": None, "name": names[i], "decl": [], "attrs": [], "kids": []} for i in range(len(shape))]
    for i, p in enumerate(shape):
        if p >= 0:
            elems[p]["kids"].append(elems[i])
    return elems


def apply_ns(cfg, elems, shape):
    """Fill decl / ns; returns the attribute-kind -> URI available at each element (what is declared in scope)."""
    root = elems[0]
    first_child = elems[1] if len(elems) > 1 else None
    if cfg == "android-root":
        root["decl"] = [["android", ANDROID]]
    elif cfg == "android+app-root":
        root["decl"] = [["android", ANDROID], ["app", APP]]
    elif cfg == "app+android-root":          # the same two declarations in the other chunk order
        root["decl"] = [["app", APP], ["android", ANDROID]]
    elif cfg == "app-nested":
        root["decl"] = [["android", ANDROID]]
        (first_child or root)["decl"] = (first_child or root)["decl"] + [["app", APP]]
    elif cfg == "android-redeclared":
        root["decl"] = [["android", ANDROID]]
        if first_child:
            first_child["decl"] = [["android", ANDROID]]
    elif cfg == "prefix-shadowed":
        root["decl"] = [["android", ANDROID], ["p", URI_A]]
        if first_child:
            first_child["decl"] = [["p", URI_B]]
    elif cfg == "two-prefixes-one-uri":
        root["decl"] = [["android", ANDROID], ["a2", ANDROID], ["app", APP]]
    elif cfg == "element-ns-root":
        root["decl"] = [["android", ANDROID], ["app", APP]]
        root["ns"] = APP
    elif cfg == "element-ns-all":
        root["decl"] = [["android", ANDROID], ["app", APP]]
        for e in elems:
            e["ns"] = APP
    elif cfg == "default-ns":
        root["decl"] = [["android", ANDROID], ["", URI_A]]
        for e in elems:
            e["ns"] = URI_A
    scopes = []

    def walk(e, inh):
        m = dict(inh)
        for p, u in e["decl"]:
            m[p] = u
        scopes.append((e, m))
        for k in e["kids"]:
            if "text" not in k:
                walk(k, m)
    walk(root, {})
    avail = {}
    for e, m in scopes:
        uris = set(m.values())
        a = {"plain": None}
        if ANDROID in uris:
            a["android"] = ANDROID
        cust = [u for p, u in sorted(m.items()) if u != ANDROID and p != ""]
        if cust:
            # the innermost declaration of a shadowed prefix is the one in scope
            a["custom"] = m.get("app") or m.get("p") or cust[0]
        avail[id(e)] = a
    return avail


def make_attr(variant, slot, uri, rid_mode=None):
    kind, t, v = variant
    name = ATTR_NAMES[kind][slot]
    a = {"ns": uri, "name": name, "t": t, "d": 0}
    if t == 0x03:
        a["s"] = v
    else:
        a["d"] = v
    if rid_mode == "on":
        if kind == "android":
            a["rid"] = KNOWN_RID[name]
        elif kind == "custom" and name in UNKNOWN_RID:
            a["rid"] = UNKNOWN_RID[name]
    return a


POOLORDERS = ["first-use", "reversed", "sorted"]


def finish(elems, utf8, resmap, feat, order="first-use"):
    doc = {"utf8": utf8, "resmap": resmap, "root": elems[0]}
    if order != "first-use":
        doc["poolorder"] = order
        feat = dict(feat, poolorder=order)
    return {"doc": doc, "feat": feat}


# ------------------------------------------------------------------------------------------------ families
def fam_shapes(ctx, si, cfg):
    shape = SHAPES[si]
    names_alpha = NAMES_THOROUGH if ctx.thorough else NAMES
    for names in itertools.product(names_alpha, repeat=len(shape)):
        for utf8, order in itertools.product((False, True), POOLORDERS):
            elems = skeleton(shape, names)
            avail = apply_ns(cfg, elems, shape)
            ra, la = avail[id(elems[0])], avail[id(elems[-1])]
            elems[0]["attrs"].append(make_attr(("android", 3, "v") if "android" in ra else ("plain", 3, "v"), 0,
                                               ra.get("android")))
            elems[-1]["attrs"].append(make_attr(("plain", 0x10, 7), 1, None))
            elems[-1]["kids"].insert(0, {"text": "t"})
            yield finish(elems, utf8, False, {"fam": "F1", "shape": si, "ns": cfg}, order)


def fam_pairs(ctx, first):
    """F2: one element, `first` variant alone and followed by every other variant."""
    V = variants()
    v1 = V[first]
    for v2 in [None] + V:
        for utf8 in (False, True):
            for rm in ("off", "on"):
                elems = skeleton(SHAPES[0], ["a"])
                avail = apply_ns("android+app-root", elems, SHAPES[0])[id(elems[0])]
                elems[0]["attrs"].append(make_attr(v1, 0, avail[v1[0]], rm))
                if v2 is not None:
                    elems[0]["attrs"].append(make_attr(v2, 1, avail[v2[0]], rm))
                yield finish(elems, utf8, rm == "on", {"fam": "F2", "ns": "android+app-root", "resmap": rm})


def fam_cross(ctx, first):
    """F2b: root carries variant `first`, its child every variant."""
    V = variants()
    v1 = V[first]
    for v2 in V:
        for utf8 in (False, True):
            elems = skeleton(SHAPES[1], ["a", "b1"])
            avail = apply_ns("app-nested", elems, SHAPES[1])
            a0, a1 = avail[id(elems[0])], avail[id(elems[1])]
            if v1[0] not in a0:
                continue
            elems[0]["attrs"].append(make_attr(v1, 0, a0[v1[0]]))
            elems[1]["attrs"].append(make_attr(v2, 0, a1[v2[0]]))
            yield finish(elems, utf8, False, {"fam": "F2b", "ns": "app-nested"})


def fam_variant_shapes(ctx, si, cfg):
    """F6: every variant on the last element of the shape under the namespace configuration."""
    shape = SHAPES[si]
    V = variants()
    alpha = NAMES_THOROUGH if ctx.thorough else NAMES
    if ctx.thorough:
        name_sets = list(itertools.product(NAMES, repeat=len(shape)))
    else:
        name_sets = [tuple(alpha[(i + si) % len(alpha)] for i in range(len(shape)))]
    for names in name_sets:
        for vi, v in enumerate(V):
            for utf8 in (False, True):
                elems = skeleton(shape, names)
                avail = apply_ns(cfg, elems, shape)
                la = avail[id(elems[-1])]
                if v[0] not in la:
                    continue
                elems[-1]["attrs"].append(make_attr(v, 0, la[v[0]]))
                # a second, fixed attribute on the root so that attribute tables of different elements differ
                elems[0]["attrs"].append(make_attr(("plain", 0x11, 0xAB), 2, None))
                yield finish(elems, utf8, False, {"fam": "F6", "shape": si, "ns": cfg})


def fam_strings(ctx, sname):
    S = dict(STRINGS)
    if ctx.thorough:
        S.update(STRINGS_THOROUGH)
    s1 = S[sname]
    for s2name, s2 in S.items():
        for utf8 in (False, True):
            if utf8 and ("utf16only" in sname or "utf16only" in s2name):
                continue
            for layout in ("value+text", "two-values", "value-in-child", "android-value"):
                elems = skeleton(SHAPES[1], ["a", "b1"])
                apply_ns("android-root", elems, SHAPES[1])
                if layout == "value+text":
                    elems[0]["attrs"].append({"ns": None, "name": "p", "t": 3, "d": 0, "s": s1})
                    elems[1]["kids"].append({"text": s2})
                elif layout == "two-values":
                    elems[0]["attrs"].append({"ns": None, "name": "p", "t": 3, "d": 0, "s": s1})
                    elems[0]["attrs"].append({"ns": None, "name": "q", "t": 3, "d": 0, "s": s2})
                    elems[1]["attrs"].append({"ns": None, "name": "p", "t": 3, "d": 0, "s": s1})
                elif layout == "value-in-child":
                    elems[0]["kids"].insert(0, {"text": s1})
                    elems[1]["attrs"].append({"ns": None, "name": "q", "t": 3, "d": 0, "s": s2})
                else:
                    elems[0]["attrs"].append({"ns": ANDROID, "name": "label", "t": 3, "d": 0, "s": s1})
                    elems[0]["attrs"].append({"ns": ANDROID, "name": "name", "t": 3, "d": 0, "s": s2})
                yield finish(elems, utf8, False, {"fam": "F3", "ns": "android-root", "layout": layout})


def fam_text(ctx, si):
    shape = SHAPES[si]
    n = len(shape)
    names = [NAMES[i % 3] for i in range(n)]
    texts = ["t0", "u1", "é 2", "w3"]
    for utf8 in (False, True):
        # first-child text on every subset of the elements
        for mask in range(1 << n):
            elems = skeleton(shape, names)
            for i in range(n):
                if mask >> i & 1:
                    elems[i]["kids"].insert(0, {"text": texts[i]})
            yield finish(elems, utf8, False, {"fam": "F4", "shape": si, "ns": "none", "text": "first"})
        # text after the k-th child element of element i (tail), with and without a first text
        for i in range(n):
            kids = [k for k in range(n) if shape[k] == i]
            for pos in range(len(kids)):
                for with_first in (False, True):
                    elems = skeleton(shape, names)
                    k = elems[i]["kids"].index(elems[kids[pos]])
                    elems[i]["kids"].insert(k + 1, {"text": "tail%d" % pos})
                    if with_first:
                        elems[i]["kids"].insert(0, {"text": "first"})
                    yield finish(elems, utf8, False, {"fam": "F4", "shape": si, "ns": "none", "text": "tail"})


def fam_resmap(ctx, which):
    mapped = [("android", n, r, "known") for n, r in KNOWN_RID.items()] + \
             [("android", "future", 0x01019999, "unknown"), ("custom", "c", 0x7F010000, "unknown"), ("custom", "d", 0x7F010001, "unknown")]
    m1 = mapped[which]
    for m2 in [None] + [m for m in mapped if m[1] != m1[1]]:
        for extra in (False, True):
            for t, v in ((3, "v"), (0x10, 0x80000000), (0x01, 0x7F040001)):
                for si, names in ((0, ["a"]), (1, ["a", m1[1]]), (1, ["name", "c"])):
                    for utf8, order in itertools.product((False, True), POOLORDERS):
                        elems = skeleton(SHAPES[si], names)
                        apply_ns("android+app-root", elems, SHAPES[si])
                        tgt = elems[-1]
                        if extra:
                            # an unmapped attribute whose name equals a mapped one must keep its own pool entry
                            tgt["attrs"].append({"ns": None, "name": m1[1], "t": 3, "d": 0, "s": "plain-" + m1[1]})
                        for m in (m1, m2):
                            if m is None:
                                continue
                            a = {"ns": ANDROID if m[0] == "android" else APP, "name": m[1], "t": t, "d": 0, "rid": m[2]}
                            if t == 3:
                                a["s"] = v
                            else:
                                a["d"] = v
                            tgt["attrs"].append(a)
                        yield finish(elems, utf8, True, {"fam": "F5", "ns": "android+app-root", "resmap": m1[3]}, order)


def fam_index(ctx, first):
    """F7: id / class / style attributes with the idIndex / classIndex / styleIndex header fields set as aapt does."""
    pool = [{"ns": ANDROID, "name": "id", "t": 0x01, "d": 0x7F080001, "rid": KNOWN_RID["id"]},
            {"ns": None, "name": "class", "t": 3, "d": 0, "s": "com.x.Cls"},
            {"ns": None, "name": "style", "t": 0x01, "d": 0x7F0C0001},
            {"ns": None, "name": "p", "t": 0x10, "d": 7}]
    others = [i for i in range(4) if i != first]
    sels = [(first,)] + [(first, b) for b in others] + [(first, b, c) for b in others for c in others if b != c]
    for sel in sels:
        for utf8, rm, si in itertools.product((False, True), (False, True), (0, 1)):
            elems = skeleton(SHAPES[si], ["a", "b1"][:si + 1])
            apply_ns("android-root", elems, SHAPES[si])
            elems[-1]["attrs"] = [dict(pool[i]) for i in sel]
            item = finish(elems, utf8, rm, {"fam": "F7", "ns": "android-root", "resmap": "on" if rm else "off"})
            item["doc"]["autoidx"] = True
            yield item


def fam_chars(ctx, cp):
    """F8: one boundary character of the XML Char production at every position of a string attribute value (plain
    and android:), of a text chunk, and of both at once."""
    c = chr(cp)
    for pname, pat in CHAR_POSITIONS.items():
        v = pat.replace("%s", c)
        for where in ("plain-value", "android-value", "text", "value+text", "two-values+child-text"):
            for utf8 in (False, True):
                elems = skeleton(SHAPES[1], ["a", "b1"])
                apply_ns("android-root", elems, SHAPES[1])
                if where == "plain-value":
                    elems[0]["attrs"].append({"ns": None, "name": "p", "t": 3, "d": 0, "s": v})
                elif where == "android-value":
                    elems[1]["attrs"].append({"ns": ANDROID, "name": "label", "t": 3, "d": 0, "s": v})
                elif where == "text":
                    elems[1]["kids"].append({"text": v})
                elif where == "value+text":
                    elems[0]["attrs"].append({"ns": None, "name": "p", "t": 3, "d": 0, "s": v})
                    elems[0]["kids"].insert(0, {"text": v})
                else:
                    elems[0]["attrs"].append({"ns": None, "name": "p", "t": 3, "d": 0, "s": v})
                    elems[0]["attrs"].append({"ns": ANDROID, "name": "name", "t": 3, "d": 0, "s": "x" + v})
                    elems[1]["kids"].append({"text": v + "y"})
                yield finish(elems, utf8, False, {"fam": "F8", "ns": "android-root", "char": "U+%04X" % cp,
                                                  "pos": pname, "where": where})


LAYOUT_SIZES = [20, 24, 28]
LAYOUT_VARIANTS = [("plain", 0x03, "v"), ("android", 0x03, ""), ("plain", 0x10, 0x80000000), ("android", 0x01, 0x01040000),
                   ("custom", 0x05, 0x00000101), ("plain", 0x12, 0xFFFFFFFF)]


def fam_layout(ctx, astart, asize):
    """F9: attributeStart x attributeSize x filler; elements with 0..3 attributes (every ordered selection of the six
    reduced variants on the root, a fixed pair + text on a child)."""
    sels = [()]
    for n in (1, 2, 3):
        sels += list(itertools.product(range(len(LAYOUT_VARIANTS)), repeat=n))
    fills = (0,) if (astart, asize) == (20, 20) else (0, 0xA5)
    for sel in sels:
        for fill, utf8, rm in itertools.product(fills, (False, True), ("off", "on")):
            if rm == "on" and len(sel) != 2:
                continue
            elems = skeleton(SHAPES[1], ["a", "b1"])
            avail = apply_ns("android+app-root", elems, SHAPES[1])
            a0, a1 = avail[id(elems[0])], avail[id(elems[1])]
            for slot, vi in enumerate(sel):
                v = LAYOUT_VARIANTS[vi]
                elems[0]["attrs"].append(make_attr(v, slot, a0[v[0]], rm))
            elems[1]["attrs"].append(make_attr(("android", 0x03, "w"), 0, a1["android"], rm))
            elems[1]["attrs"].append(make_attr(("plain", 0x11, 0xAB), 1, None, rm))
            elems[1]["kids"].append({"text": "t"})
            item = finish(elems, utf8, rm == "on", {"fam": "F9", "ns": "android+app-root", "resmap": rm,
                                                    "layout": [astart, asize, fill]})
            if astart != 20:
                item["doc"]["attrstart"] = astart
            if asize != 20:
                item["doc"]["attrsize"] = asize
            if fill:
                item["doc"]["attrfill"] = fill
            yield item


def fam_ridonly(ctx, nskind):
    """F10: resource-id-only attribute names (empty pool string + id in the resource map, as aapt2 writes with name
    stripping) together with namespace prefixes: ordered selections of 1..2 of {four id-only android attributes, a named
    mapped one, an unknown-id custom one, a plain one}; the id-only attributes carry the android URI (declared under the
    prefix "android" or under a second prefix for the same URI) or no namespace."""
    uri = {"android": ANDROID, "second-prefix": ANDROID, "none": None}[nskind]
    cands = [("rid", "name"), ("rid", "label"), ("rid", "layout_width"), ("rid", "id"), ("named", "icon"), ("unknown", "c"), ("plain", "p")]
    sels = [(c,) for c in cands] + [(a, b) for a in cands for b in cands if a != b]
    for sel in sels:
        for (t, v), si, utf8, order in itertools.product(((3, "v"), (0x01, 0x7F040001)), (0, 1), (False, True), POOLORDERS):
            elems = skeleton(SHAPES[si], ["a", "b1"][:si + 1])
            apply_ns("two-prefixes-one-uri", elems, SHAPES[si])
            if nskind == "second-prefix":
                elems[0]["decl"] = [["a2", ANDROID], ["app", APP]]      # the android URI is only reachable through "a2"
            for kind, nm in sel:
                if kind == "rid":
                    a = {"ns": uri, "name": "", "rid": KNOWN_RID[nm]}
                elif kind == "named":
                    a = {"ns": ANDROID, "name": nm, "rid": KNOWN_RID[nm]}
                elif kind == "unknown":
                    a = {"ns": APP, "name": nm, "rid": UNKNOWN_RID[nm]}
                else:
                    a = {"ns": None, "name": nm}
                a["t"], a["d"] = t, 0
                if t == 3:
                    a["s"] = v
                else:
                    a["d"] = v
                elems[-1]["attrs"].append(a)
            yield finish(elems, utf8, True, {"fam": "F10", "ns": "ridonly-" + nskind, "resmap": "id-only"}, order)


def fam_maxima(ctx, which):
    """F11: one representative at (or across) the size limits the writer controls - outside the <= 4 element cap."""
    for utf8 in (False, True):
        if which == "attrs":
            counts = [255, 256, 1000, 4096] + ([65535] if ctx.thorough and not utf8 else [])
            for n in counts:
                elems = skeleton(SHAPES[0], ["a"])
                apply_ns("android+app-root", elems, SHAPES[0])
                for i in range(n):
                    if i % 2:
                        elems[0]["attrs"].append({"ns": None, "name": "p%d" % i, "t": 0x10, "d": i})
                    else:
                        elems[0]["attrs"].append({"ns": APP, "name": "r%d" % i, "t": 3, "d": 0, "s": "s%d" % (i % 7),
                                                  "rid": 0x7F010000 + i})
                yield finish(elems, utf8, True, {"fam": "F11", "ns": "android+app-root", "max": "attributes=%d" % n})
        elif which == "depth":
            for depth in (40, 200):
                e = {"ns": None, "name": "a", "decl": [["android", ANDROID]], "attrs": [], "kids": []}
                root = e
                for i in range(depth - 1):
                    k = {"ns": None, "name": NAMES[i % 3], "decl": [], "kids": [],
                         "attrs": [{"ns": ANDROID, "name": "label", "t": 0x10, "d": i}]}
                    e["kids"].append(k)
                    e = k
                e["kids"].append({"text": "deep"})
                yield finish([root], utf8, False, {"fam": "F11", "ns": "android-root", "max": "depth=%d" % depth})
        else:
            for n in (40, 300):
                elems = skeleton(SHAPES[1], ["a", "b1"])
                elems[0]["decl"] = [["n%d" % i, "urn:x-%d" % i] for i in range(n)] + [["android", ANDROID]]
                elems[1]["attrs"] = [{"ns": "urn:x-%d" % (n - 1), "name": "c", "t": 3, "d": 0, "s": "v"},
                                     {"ns": "urn:x-0", "name": "d", "t": 0x10, "d": 1},
                                     {"ns": ANDROID, "name": "name", "t": 3, "d": 0, "s": "w"}]
                yield finish(elems, utf8, False, {"fam": "F11", "ns": "many-decl", "max": "declarations=%d" % n})


FAMILIES = {"F11": fam_maxima, "F10": fam_ridonly, "F9": fam_layout, "F8": fam_chars, "F7": fam_index, "F1": fam_shapes, "F2": fam_pairs, "F2b": fam_cross, "F6": fam_variant_shapes, "F3": fam_strings,
            "F4": fam_text, "F5": fam_resmap}


GROUPS = 64


def shards(ctx):
    """64 groups of sub-shards; each group runs in a fork of a pristine process (mc/fresh.py), its document order being
    its history."""
    import androguard.core.axml      # noqa: loaded once in the runner (never called there), inherited by the forked workers
    return [("g", i) for i in range(GROUPS)]


def subshards(ctx):
    s = []
    nv = len(variants())
    for si in range(len(SHAPES)):
        for cfg in NSCFG:
            s.append(("F1", si, cfg))
            s.append(("F6", si, cfg))
    s += [("F2", i) for i in range(nv)]
    s += [("F2b", i) for i in range(nv)]
    S = list(STRINGS) + (list(STRINGS_THOROUGH) if ctx.thorough else [])
    s += [("F3", n) for n in S]
    s += [("F4", si) for si in range(len(SHAPES))]
    s += [("F5", i) for i in range(len(KNOWN_RID) + 3)]
    s += [("F7", i) for i in range(4)]
    s += [("F8", cp) for cp in XML_BOUNDARY]
    s += [("F9", a, b) for a in LAYOUT_SIZES for b in LAYOUT_SIZES]
    s += [("F10", k) for k in ("android", "second-prefix", "none")]
    s += [("F11", k) for k in ("attrs", "depth", "decls")]
    return s


def space(ctx):
    return {"shapes_parent_vectors": [list(x) for x in SHAPES], "element_names": NAMES_THOROUGH if ctx.thorough else NAMES,
            "namespace_configurations": NSCFG, "attribute_kinds": KINDS,
            "value_types": ["0x03 string"] + ["0x%02x" % t for t, _ in TYPED], "data_values_per_type": 2,
            "attribute_variants": len(variants()),
            "strings": sorted(STRINGS) + (sorted(STRINGS_THOROUGH) if ctx.thorough else []),
            "xml_char_boundaries(F8)": ["U+%04X" % c for c in XML_BOUNDARY], "char_positions(F8)": list(CHAR_POSITIONS),
            "attribute_layout(F9)": {"attributeStart": LAYOUT_SIZES, "attributeSize": LAYOUT_SIZES, "filler": ["0x00", "0xA5"],
                                     "attributes_on_root": "0..3 (ordered selections of 6 variants)"},
            "id_only_attribute_names(F10)": {"ids": ["name", "label", "layout_width", "id"],
                                             "namespace": ["android prefix", "second prefix for the android URI", "none"]},
            "maxima(F11)": {"attributes": [255, 256, 1000, 4096] + ([65535] if ctx.thorough else []), "depth": [40, 200],
                            "namespace_declarations": [40, 300]},
            "decoy_history": "every document except families F2, F6 and the F1 documents with a permuted pool", "event_iterator": "every document except F2, F2b, F6",
            "pools": ["utf16", "utf8"], "pool_entry_order(F1,F5)": POOLORDERS, "resource_map": ["off", "known ids + matching names", "unknown ids"],
            "caps": {"elements": 4, "depth": 3, "attributes_per_document": 4},
            "product": "NOT the full cartesian product: union of the exhaustive sub-products F1..F6 (module docstring); "
                       "pairs crossed in full: shape x nscfg (x names), nscfg x variant, variant x variant, variant x resmap, "
                       "string x string x position, shape x text placement; everything x pool encoding"}


# ------------------------------------------------------------------------------------------------ oracle
def strclass(s):
    if s == "":
        return "empty"
    special = sorted(set(ord(c) for c in s if ord(c) in XML_BOUNDARY and c != " "))
    if special:
        return "char-" + "+".join("U+%04X" % c for c in special)
    if s != s.strip(" "):
        return "edge-U+0020"
    n = len(s.encode("utf-16-le", "surrogatepass")) // 2
    if any(ord(c) > 0xFFFF for c in s):
        return "astral"
    non = any(ord(c) > 0x7F for c in s)
    size = "len>=32768" if n >= 0x8000 else "len>=128" if n >= 128 else "len<128"
    if non:
        return "nonascii:" + ("utf8len>=128" if len(s.encode("utf-8")) >= 128 and n < 128 else size)
    return size


# cost control (stated in space()): the two largest attribute-value products run without the decoy / the iterator pass;
# their attribute variants are all covered with both in F2b, F9 and F10
NO_DECOY = {"F2", "F6"}          # and F1 documents with a non-default pool order (see has_decoy)
NO_EVENTS = {"F2", "F2b", "F6"}
RID_NAMES = dict((v, k) for k, v in KNOWN_RID.items())      # public android attribute ids (android.R.attr constants)


def attr_name(a, doc):
    """The name an attribute has in the XML: its pool string, or - for a resource-id-only attribute (empty pool string, as
    aapt2 writes with name stripping) - the android attribute the id stands for."""
    if a["name"] == "" and doc.get("resmap") and a.get("rid") in RID_NAMES:
        return RID_NAMES[a["rid"]]
    return a["name"]


def decoy_of(doc):
    """A different document with the SAME element names, attribute names, namespaces, resource ids and pool layout but
    other values: every string value / text gets a suffix, every typed datum one mantissa/low bit flipped."""
    def conv(e):
        out = dict(e)
        out["attrs"] = []
        for a in e.get("attrs", ()):
            b = dict(a)
            if a["t"] == 0x03:
                b["s"] = a["s"][:20] + "~decoy"
            else:
                b["d"] = (a["d"] ^ 0x00000100) & 0xFFFFFFFF
            out["attrs"].append(b)
        out["kids"] = [({"text": k["text"][:20] + "~decoy"} if "text" in k else conv(k)) for k in e.get("kids", ())]
        return out
    d = dict(doc)
    d["root"] = conv(doc["root"])
    return d


def expect_events(doc):
    """Model -> the event sequence AXMLParser must yield: ("start", ns, name, [(ns, name, type, data|string)]),
    ("text", s), ("end", ns, name)."""
    out = []

    def walk(e):
        attrs = []
        for a in e.get("attrs", ()):
            attrs.append((a.get("ns") or "", attr_name(a, doc).replace(":", "_"), a["t"], a["s"] if a["t"] == 0x03 else a["d"] & 0xFFFFFFFF))
        out.append(("start", e.get("ns") or "", e["name"], attrs))
        for k in e.get("kids", ()):
            if "text" in k:
                out.append(("text", k["text"]))
            else:
                walk(k)
        out.append(("end", e.get("ns") or "", e["name"]))
    walk(doc["root"])
    return out


def real_events(ax, data):
    """The same sequence read through the AXMLParser iterator API (the layer below AXMLPrinter)."""
    p = ax.AXMLParser(data)
    out = []
    while p.is_valid():
        ev = next(p)
        if ev == ax.START_TAG:
            attrs = []
            for i in range(p.getAttributeCount()):
                t = p.getAttributeValueType(i)
                attrs.append((p.getAttributeNamespace(i), p.getAttributeName(i).replace(":", "_"), t,
                              p.getAttributeValue(i) if t == 0x03 else p.getAttributeValueData(i)))
            out.append(("start", p.namespace, p.name, attrs))
        elif ev == ax.END_TAG:
            out.append(("end", p.namespace, p.name))
        elif ev == ax.TEXT:
            out.append(("text", p.text))
        elif ev == ax.END_DOCUMENT:
            break
    if not p.is_valid():
        out.append(("invalid",))
    return out


def expect(doc):
    """Model -> expected tree: (tag, {qname: attr}, text, tail, nsmap, [children])."""
    def conv(e, inh):
        m = dict(inh)
        for p, u in e.get("decl", ()):
            m[p] = u
        tag = ("{%s}%s" % (e["ns"], e["name"])) if e.get("ns") else e["name"]
        attrs = {}
        for a in e.get("attrs", ()):
            nm = attr_name(a, doc)
            q = ("{%s}%s" % (a["ns"], nm)) if a.get("ns") else nm
            attrs[q] = a
        node = {"tag": tag, "attrs": attrs, "text": "", "tail": "", "nsmap": m, "kids": [], "e": e, "mixed": False}
        last = None
        for k in e.get("kids", ()):
            if "text" in k:
                if last is None:
                    node["text"] += k["text"]
                else:
                    last["tail"] += k["text"]
                    node["mixed"] = True
            else:
                last = conv(k, m)
                node["kids"].append(last)
        return node
    return conv(doc["root"], {})


def compare(x, got, doc, pretty, out):
    """Append (aspect-key, message) for every difference between expected node x and lxml element got."""
    from ref import resval
    pool = "utf8" if doc["utf8"] else "utf16"
    if got.tag != x["tag"]:
        kind = "plain" if not x["e"].get("ns") else "default-ns" if ["", x["e"]["ns"]] in _decls(doc) else "prefixed"
        out.append(("element-name:%s" % kind, "element %r came out as %r" % (x["tag"], got.tag)))
        return
    # attributes
    gq = dict(got.attrib)
    for q, a in x["attrs"].items():
        kind = "plain" if not a.get("ns") else "android" if a["ns"] == ANDROID else "custom"
        rm = "nomap" if not (doc.get("resmap") and a.get("rid") is not None) else \
            "known-id" if a["rid"] in KNOWN_RID.values() else "unknown-id"
        if q not in gq:
            out.append(("attr-name:%s:%s" % (kind, rm), "attribute %r of <%s> missing; got %r" % (q, x["tag"], sorted(gq))))
            continue
        val = gq.pop(q)
        if a["t"] == 0x03:
            if val != a["s"]:
                out.append(("attr-value:string:%s:%s" % (strclass(a["s"]), pool),
                            "string attribute %s=%r came out as %r" % (q, _short(a["s"]), _short(val))))
        else:
            why = resval.matches(a["t"], a["d"], val)
            if why is not None:
                out.append(("attr-value:%s" % resval.feature(a["t"], a["d"]),
                            "attribute %s type 0x%02x data 0x%08x came out as %r: %s" % (q, a["t"], a["d"], val, why)))
    for q in gq:
        out.append(("attr-name:extra", "unexpected attribute %r on <%s>" % (q, x["tag"])))
    # namespace declarations in scope (non-empty prefixes)
    gm = got.nsmap
    for p, u in x["nsmap"].items():
        if p != "" and gm.get(p) != u:
            out.append(("nsmap", "prefix %r should map to %r at <%s>, nsmap is %r" % (p, u, x["tag"], gm)))
            break
    # text / tail
    kids = [c for c in got if isinstance(c.tag, str)]
    gt = got.text or ""
    gtail = got.tail or ""
    if pretty:
        # pretty printing may add indentation where the model has no character data
        if not x["text"] and kids:
            gt = gt.strip()
        if not x["tail"]:
            gtail = gtail.strip()
    if gt != x["text"]:
        out.append(("mixed-content-tail" if x["mixed"] else "text:%s:%s" % (strclass(x["text"]), pool),
                    "text of <%s> should be %r, is %r" % (x["tag"], _short(x["text"]), _short(gt))))
    if gtail != x["tail"]:
        out.append(("mixed-content-tail", "tail of <%s> should be %r, is %r" % (x["tag"], _short(x["tail"]), _short(gtail))))
    if len(kids) != len(x["kids"]):
        out.append(("tree:children", "<%s> should have children %r, has %r"
                    % (x["tag"], [k["tag"] for k in x["kids"]], [c.tag for c in kids])))
        return
    for k, c in zip(x["kids"], kids):
        compare(k, c, doc, pretty, out)


def _decls(doc):
    from gen import axmlgen
    return [d for e in axmlgen._walk(doc["root"]) for d in e.get("decl", ())]


def _short(s):
    return s if len(s) <= 40 else "%s...(%d chars)" % (s[:20], len(s))


def check_doc(ax, acc, item, pf=None):
    """One document through the writer, the real parser and the comparison.  Shared by run_shard and replay."""
    from gen import axmlgen
    from lxml import etree
    doc, feat = item["doc"], item["feat"]
    cfg = feat.get("ns", "?")
    data = axmlgen.write(doc)
    # writer self-check (harness guard): the strict reader must give the model back
    try:
        back = axmlgen.to_doc(axmlgen.parse(data))
        if back != axmlgen.normalise(doc):
            acc.harness_error("writer self-check: strict reader does not return the model for %r" % (feat,))
            return
    except ValueError as e:
        acc.harness_error("writer self-check: strict reader rejects the writer's output (%s) for %r" % (e, feat))
        return
    diffs = []
    want = expect(doc)
    # decoy history: a different document with the same names / ids / pool indices goes through the same API first
    # (inside the judged unit, so that state carried from one document to the next reproduces in replay)
    if feat["fam"] not in NO_DECOY and not (feat["fam"] == "F1" and "poolorder" in feat):
        try:
            ax.AXMLPrinter(axmlgen.write(decoy_of(doc))).get_xml_obj()
            acc.count("decoy_documents")
        except Exception:      # noqa
            pass
    try:
        ap = ax.AXMLPrinter(data)
        root = ap.get_xml_obj()
    except Exception as e:      # noqa
        root = None
        diffs.append(("exception:%s" % feat["fam"], "AXMLPrinter raised %s: %s" % (type(e).__name__, e)))
    if root is None and not diffs:
        diffs.append(("no-tree:%s" % feat["fam"], "AXMLPrinter produced no root element"))
    if root is not None:
        compare(want, root, doc, False, diffs)
        if not diffs:
            for pretty, fn in ((False, ap.get_buff), (True, ap.get_xml)):
                try:
                    re_root = etree.fromstring(fn())
                    d2 = []
                    compare(want, re_root, doc, pretty, d2)
                    diffs += [("print:" + k, ("get_xml" if pretty else "get_buff") + " re-parsed: " + m) for k, m in d2]
                except Exception as e:      # noqa
                    diffs.append(("print:exception", "%s / re-parse raised %s: %s" % (fn.__name__, type(e).__name__, e)))
                if diffs:
                    break
        if not diffs and feat["fam"] not in NO_EVENTS:
            acc.count("event_iterator_documents")
            # alternative entry point: the AXMLParser event iterator must tell the same story
            try:
                ge, we = real_events(ax, data), expect_events(doc)
                if ge != we:
                    i = next((i for i, (g, w) in enumerate(zip(ge, we)) if g != w), min(len(ge), len(we)))
                    kind = (we[i][0] if i < len(we) else "extra")
                    diffs.append(("events:%s" % kind, "AXMLParser event %d is %r, the model has %r"
                                  % (i, ge[i] if i < len(ge) else None, we[i] if i < len(we) else None)))
            except Exception as e:      # noqa
                diffs.append(("events:exception", "AXMLParser iteration raised %s: %s" % (type(e).__name__, e)))
    acc.case(nontrivial=data, outcome=(feat["fam"], feat.get("shape"), cfg, sorted(set(k for k, _ in diffs))))
    seen = set()
    astart, asize = doc.get("attrstart") or 20, doc.get("attrsize") or 20
    if diffs and (astart, asize) != (20, 20):
        # input-side key: which header field departs from aapt's constant, and how many attributes the element carries
        nattr = max(len(e.get("attrs", ())) for e in axmlgen._walk(doc["root"]))
        lk = "attr-layout:%s:attrs%s" % ("+".join(n for n, v in (("attributeStart>20", astart), ("attributeSize>20", asize)) if v != 20),
                                         ">=2" if nattr >= 2 else "<2")
        diffs = [(lk, "attributeStart=%d attributeSize=%d: %s" % (astart, asize, m)) for _, m in diffs[:1]]
    for k, m in diffs:
        key = k + (":" + cfg if k in ("nsmap", "print:nsmap") else "")
        if key in seen:
            continue
        seen.add(key)
        w = {"history": [item]}
        if pf:
            w["_prefix"] = {"group": pf[0], "tier": pf[1], "upto": pf[2]}
            w["_pkey"] = key + ":history-dependent"
        acc.violation(key, w, m)


def _group(ctx, ax, g, acc, stop=None):
    """The document sequence of group g.  stop=n: run the same sequence, judge only document n (prefix replay)."""
    from gen import axmlgen
    dummy = Acc()
    n = 0
    for sub in subshards(ctx)[g::GROUPS]:
        fam, k = sub[0], 0
        for item in FAMILIES[fam](ctx, *sub[1:]):
            check_doc(ax, acc if stop is None or stop == n else dummy, item, pf=(g, ctx.tier, n))
            if stop == n:
                return
            n += 1
            k += 1
            if k == 3 and stop is None and sub in (("F1", 3, "app-nested"), ("F10", "android"), ("F5", 0)):
                acc.sample({"family": fam, "model": item["doc"], "bytes": len(axmlgen.write(item["doc"]))})
        if stop is None:
            acc.count("documents_" + fam, k)


def _group_main(ctx, shard):
    from androguard.core import axml as ax
    from mc import fresh
    acc = fresh.HistoryAcc(_SRV[0], replay, ctx)
    _group(ctx, ax, shard[1], acc)
    return acc


_SRV = [None]


def run_shard(ctx, shard):
    import os
    import androguard.core.axml      # noqa: imported, never called here - this process stays pristine
    from mc import fresh
    if _SRV[0] is None or _SRV[0].owner != os.getpid():
        _SRV[0] = fresh.Pristine()
    return fresh.isolated(_group_main, ctx, tuple(shard))


def replay(ctx, w):
    """Judges the witness document (with its decoy) in this fresh process; a prefix witness re-runs its group up to it."""
    from androguard.core import axml as ax
    from mc import core
    acc = Acc()
    if "prefix" in w:
        pf = w["prefix"]
        _group(core.Ctx(tier=pf["tier"]), ax, pf["group"], acc, stop=pf["upto"])
    else:
        check_doc(ax, acc, w["history"][-1] if "history" in w else w)
    if acc.harness_errors:
        return "HARNESS: " + "; ".join(acc.harness_errors)
    if acc.viol:
        return "; ".join("%s: %s" % (k, v["msg"]) for k, v in sorted(acc.viol.items()))
    return None


def finalize(ctx, acc):
    for fam in FAMILIES:
        if not acc.extra.get("documents_" + fam):
            acc.harness_error("family %s produced no documents" % fam)
    if len(acc.outcomes) < 100:
        acc.harness_error("space collapsed: %d distinct (family, shape, nscfg, verdict) outcomes" % len(acc.outcomes))
    if len(acc.nt) < 0.9 * acc.n:
        acc.harness_error("too many identical documents: %d distinct of %d" % (len(acc.nt), acc.n))
    # the comparison must be able to see a wrong tree: compare a model against the tree of a different model
    from lxml import etree
    a = {"utf8": False, "resmap": False, "root": {"ns": None, "name": "a", "decl": [], "attrs": [
        {"ns": None, "name": "p", "t": 0x10, "d": 5}], "kids": [{"text": "t"}]}}
    for xml, aspect in (("<a p='5'>t</a>", None), ("<b1 p='5'>t</b1>", "element-name"), ("<a p='6'>t</a>", "attr-value"),
                        ("<a q='5'>t</a>", "attr-name"), ("<a p='5'>u</a>", "text"), ("<a p='5'>t<a/></a>", "tree")):
        d = []
        compare(expect(a), etree.fromstring(xml), a, False, d)
        if (aspect is None) != (not d) or (aspect and not d[0][0].startswith(aspect)):
            acc.harness_error("comparison self-test failed on %s: %r" % (xml, d))
