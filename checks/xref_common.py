"""Shared driver + judging code for C13, C14, C15 (per-relation judges) and C16 (canonical dump), used by run_shard AND replay.

Everything observed from androguard goes through `Run` (objects) or `dump` (name-keyed canonical form); everything expected
comes from ref/xref.py.  Judges return a list of (key, message); keys classify from the input side (which kind of item,
which kind of target, where the target lives relative to the accessor).
"""
import collections

from ref import xref as RX

INV_FORM = {True: "3rc", False: "35c"}


def nd(d):
    return str(d).replace(" ", "")


_DECOY = {}
DECOYS = [0]
RUNS = [0]
DECOY_EVERY = 4


def decoy_history(which="xm3"):
    """Before judged analyses (the first of a process -- hence every replay -- and every 4th): analyse a fixed OTHER program that uses the same class names with other
    members (gen/xrefmodels.decoy) through the same API calls and query it; results are ignored.  State that survives from
    one DEX / Analysis object to the next in the same process then corrupts the judged run and is reported (and reproduces
    in the fresh-process confirmation)."""
    from androguard.core import dex
    from androguard.core.analysis.analysis import Analysis
    if which not in _DECOY:
        from gen import xrefmodels as X
        _DECOY[which] = X.to_bytes(X.decoy(which))
    vms = [dex.DEX(r) for r in _DECOY[which]]
    dx = Analysis()
    for vm in vms:
        dx.add(vm)
    dx.create_xref()
    for vm in vms:
        for c in vm.get_classes():
            for f in c.get_fields():
                dx.get_field_analysis(vm.get_encoded_field_descriptor(c.get_name(), f.get_name(), str(f.get_descriptor())))
            for m in c.get_methods():
                dx.get_method_analysis_by_name(c.get_name(), m.get_name(), str(m.get_descriptor()))
    DECOYS[0] += 1


class Run:
    """One real analysis: [decoy history,] DEX(raw) per file, Analysis.add in the given order, create_xref once."""

    def __init__(self, raws, after_add=None, xref=True, decoy="xm3"):
        from androguard.core import dex
        from androguard.core.analysis.analysis import Analysis
        # decoy before the first analysis of the process (so always in a replay / fresh-process confirmation) and then before
        # every DECOY_EVERY-th one; in between, the previously explored model (same class names, other bodies) is the history
        if decoy and RUNS[0] % DECOY_EVERY == 0:
            decoy_history(decoy)
        RUNS[0] += 1
        self.vms = [dex.DEX(r) for r in raws]
        self.dx = Analysis()
        for k, vm in enumerate(self.vms):
            self.dx.add(vm)
            if after_add:
                after_add(k, self)
        if xref:
            self.dx.create_xref()
        self._em = self._ef = None

    # -- name -> real object ----------------------------------------------------------------------------
    def em(self, triple):
        """EncodedMethod with that (class, name, descriptor) or None."""
        if self._em is None:
            self._em = {}
            for vm in self.vms:
                for c in vm.get_classes():
                    for m in c.get_methods():
                        self._em.setdefault((c.get_name(), m.get_name(), nd(m.get_descriptor())), []).append(m)
        l = self._em.get(triple)
        return l[0] if l else None

    def ef(self, triple):
        if self._ef is None:
            self._ef = {}
            for vm in self.vms:
                for c in vm.get_classes():
                    for f in c.get_fields():
                        self._ef.setdefault((c.get_name(), f.get_name(), str(f.get_descriptor())), []).append(f)
        l = self._ef.get(triple)
        return l[0] if l else None

    def ma(self, triple):
        e = self.em(triple)
        return self.dx.get_method(e) if e is not None else None


def mtrip(ma):
    m = ma.get_method()
    return (m.get_class_name(), m.get_name(), nd(m.get_descriptor()))


def ftrip(f):
    """EncodedField or FieldAnalysis -> (class, name, type)."""
    if hasattr(f, "get_field"):
        f = f.get_field()
    return (f.get_class_name(), f.get_name(), str(f.get_descriptor()))


def where(exp, src_cls, dst_cls):
    if dst_cls not in exp.dex_of_class:
        return "external"
    if src_cls == dst_cls:
        return "own-class"
    if exp.dex_of_class.get(src_cls) == exp.dex_of_class[dst_cls]:
        return "other-class"
    return "cross-dex"


def group(rel, pos=0):
    g = collections.defaultdict(list)
    for t in rel:
        g[t[pos]].append(t)
    return g


def _norm(out):
    """(key, message[, culprit method triple]) -> always 3-tuples"""
    return [t if len(t) == 3 else t + (None,) for t in out]


# =================================================================================================== C13
def target_kind(exp, caller, tgt):
    cls = tgt[0]
    if cls.startswith("["):
        el = RX.strip_array(cls)
        if not el.startswith("L"):
            return "array-primitive"
        dims = len(cls) - len(el)
        if (el, tgt[1], tgt[2]) in exp.methods:
            return "array-internal"
        return "array-object" + (":dim%d" % dims if dims > 1 else "")
    if tgt == caller:
        return "self"
    if tgt in exp.methods:
        w = where(exp, caller[0], cls)
        return "internal" + (":cross-dex" if w == "cross-dex" else "")
    if cls in exp.dex_of_class:
        return "internal-undefined"
    return "external"


def judge_c13(exp, run, stats=None):
    from androguard.core.analysis.analysis import REF_TYPE
    from gen import dalvik as D
    dx = run.dx
    out = []
    stubs = {}                                         # (class as resolved, name, desc) -> stub MethodAnalysis
    stub_sites = collections.Counter()
    exp_from = collections.defaultdict(set)            # id(callee ma) -> {(caller ca, caller ma, off)}
    exp_cto = collections.defaultdict(set)             # (id(ca), id(other ca)) -> {(kind, ma, off)}
    exp_cfrom = collections.defaultdict(set)
    by_caller = group(exp.calls)
    item_at = {}
    for rel, nm in ((exp.reads, "field"), (exp.writes, "field"), (exp.strings, "string")):
        for t in rel:
            item_at[(t[0], t[1])] = nm
    for t in exp.news | exp.consts:
        item_at[(t[0], t[1])] = "class-use"

    def account(cca, cma, ca, ma, off, op):
        """the edge as REPORTED is accounted for on the mirrored / class-level side (one defect, one key)"""
        kind = REF_TYPE(D.NAME2OP[op])
        exp_from[id(ma)].add((cca, cma, off))
        exp_cto[(id(cca), id(ca))].add((kind, ma, off))
        exp_cfrom[(id(ca), id(cca))].add((kind, cma, off))

    for caller in sorted(exp.coded):
        cma = run.ma(caller)
        cca = dx.get_class_analysis(caller[0])
        if cma is None or cca is None:
            out.append(("method-missing", "no MethodAnalysis/ClassAnalysis for defined method %r" % (caller,), caller))
            continue
        got = collections.defaultdict(list)
        for ca, ma, off in cma.get_xref_to():
            got[off].append((ca, ma))
        for (_, off, op, tgt) in sorted(by_caller.get(caller, ())):
            tk = target_kind(exp, caller, tgt)
            form = INV_FORM["/range" in op]
            if stats is not None:
                stats["invoke:" + op] += 1
                stats["target:" + tk] += 1
                if (caller, off) in exp.after_payload:
                    stats["invoke behind a mid-method payload"] += 1
            ent = got.pop(off, [])
            if tk == "array-primitive":
                if stats is not None:
                    stats["unjudged:array-of-primitive receiver"] += 1
                continue
            key = "callee:%s:%s" % (tk, form)
            site = "%s at +%d in %s->%s%s (target %s->%s%s)" % ((op, off) + caller + tgt)
            if not ent and (caller, off) in exp.after_payload:
                key = "callee:after-payload"
            if len(ent) != 1:
                out.append((key, "%s: get_xref_to() has %d entries at this offset, expected exactly 1: %r"
                            % (site, len(ent), [mtrip(m) for _, m in ent]), caller))
                for ca, ma in ent:
                    account(cca, cma, ca, ma, off, op)
                continue
            ca, ma = ent[0]
            got_t = mtrip(ma)
            if tk in ("internal", "internal:cross-dex", "self"):
                want = run.ma(tgt)
                if ma is not want or ma.is_external():
                    out.append((key, "%s: callee resolved to %r (external=%s), expected the MethodAnalysis of the defined method"
                                % (site, got_t, ma.is_external()), caller))
                    account(cca, cma, ca, ma, off, op)
                    continue
            else:
                el = (RX.strip_array(tgt[0]), tgt[1], tgt[2])
                ok_t = (tgt, el, ("Ljava/lang/Object;", tgt[1], tgt[2])) if tgt[0].startswith("[") else (tgt,)
                if got_t not in ok_t or not ma.is_external():
                    out.append((key, "%s: callee resolved to %r (external=%s), expected one external stub for %r "
                                "(no analysed method has that class, name and descriptor)" % (site, got_t, ma.is_external(), tgt), caller))
                    account(cca, cma, ca, ma, off, op)
                    continue
                if tk.startswith("array-object") and got_t != tgt and stats is not None:
                    stats["unjudged:stub of an array receiver is filed under the element class"] += 1
                first = stubs.setdefault(got_t, ma)
                stub_sites[got_t] += 1
                if first is not ma:
                    out.append(("stub-shared:%s" % tk, "%s: a second external stub object exists for %r" % (site, got_t), caller))
                    account(cca, cma, ca, ma, off, op)
                    continue
            if ca is not dx.get_class_analysis(got_t[0]):
                out.append((key, "%s: class element of the xref tuple is %r, not the ClassAnalysis of %s" % (site, ca, got_t[0]), caller))
            if (cca, cma, off) not in ma.get_xref_from():
                out.append(("caller-mirror:%s:%s" % (tk, form), "%s: edge is missing from the callee's get_xref_from(): %r"
                            % (site, sorted((mtrip(m), o) for _, m, o in ma.get_xref_from())), caller))
            kind = REF_TYPE(D.NAME2OP[op])
            if (kind, ma, off) not in cca.get_xref_to().get(ca, ()) or (kind, cma, off) not in ca.get_xref_from().get(cca, ()):
                out.append(("class-level:%s:%s" % (tk, form), "%s: class-level get_xref_to/get_xref_from lack the edge" % site, caller))
            account(cca, cma, ca, ma, off, op)
        for off, ent in sorted(got.items()):
            out.append(("callee:unexpected-at:%s" % item_at.get((caller, off), "no-reference-item"),
                        "get_xref_to() of %s->%s%s reports %r at +%d where the program has no invoke"
                        % (caller + ([mtrip(m) for _, m in ent], off)), caller))
    # exactness of the mirrored side and of uncoded methods; class level; call graph
    edges = set()
    for ma in dx.get_methods():
        extra = set(ma.get_xref_from()) - exp_from.get(id(ma), set())
        if extra:
            out.append(("caller-mirror:unexpected", "get_xref_from() of %r has edges no invoke accounts for: %r"
                        % (mtrip(ma), sorted((mtrip(m), o) for _, m, o in extra))))
        if mtrip(ma) not in exp.coded and ma.get_xref_to():
            out.append(("callee:unexpected-at:no-code", "%r has no code but reports callees" % (mtrip(ma),)))
        for _, callee, _ in ma.get_xref_to():
            edges.add((ma.get_method(), callee.get_method()))
    inv = set(range(0x6e, 0x73)) | set(range(0x74, 0x79))
    for ca in dx.get_classes():
        for oth, ents in ca.get_xref_to().items():
            extra = {e for e in ents if int(e[0]) in inv} - exp_cto.get((id(ca), id(oth)), set())
            if extra:
                out.append(("class-level:unexpected", "ClassAnalysis(%s).get_xref_to()[%s] has invoke entries no invoke accounts for: %r"
                            % (ca.name, oth.name, sorted((int(k), mtrip(m), o) for k, m, o in extra))))
        for oth, ents in ca.get_xref_from().items():
            extra = {e for e in ents if int(e[0]) in inv} - exp_cfrom.get((id(ca), id(oth)), set())
            if extra:
                out.append(("class-level:unexpected", "ClassAnalysis(%s).get_xref_from()[%s] has invoke entries no invoke accounts for: %r"
                            % (ca.name, oth.name, sorted((int(k), mtrip(m), o) for k, m, o in extra))))
    try:
        cg = dx.get_call_graph()
        cge = set(cg.edges())
    except Exception as e:      # noqa
        out.append(("callgraph:raised", "get_call_graph raised %s: %s" % (type(e).__name__, e)))
        cge = edges
    if cge != edges:
        def nm(m):
            return (m.get_class_name(), m.get_name(), nd(m.get_descriptor()))
        out.append(("callgraph:edges", "get_call_graph() edges differ from the reported callees: missing %r, extra %r"
                    % (sorted((nm(a), nm(b)) for a, b in edges - cge), sorted((nm(a), nm(b)) for a, b in cge - edges))))
    # alternative entry points must hand out the very objects the xrefs refer to
    import re
    n_alt = 0
    found = collections.defaultdict(list)
    for m in dx.find_methods():
        found[id(m)].append(m)
    internal, external = {id(m) for m in dx.get_internal_methods()}, {id(m) for m in dx.get_external_methods()}
    for ma in dx.get_methods():
        em = ma.get_method()
        t = (em.get_class_name(), em.get_name(), str(em.get_descriptor()))
        kind = "stub" if ma.is_external() else "defined"
        n_alt += 1
        if dx.get_method_analysis_by_name(*t) is not ma:
            out.append(("alt-entry:get_method_analysis_by_name:%s" % kind, "get_method_analysis_by_name%r does not return the MethodAnalysis "
                        "that get_methods() / the xrefs use" % (t,)))
        if dx.get_method_by_name(*t) is not (None if ma.is_external() else em):
            out.append(("alt-entry:get_method_by_name:%s" % kind, "get_method_by_name%r -> %r" % (t, dx.get_method_by_name(*t))))
        ca = dx.get_class_analysis(t[0])
        if ca is None or ca.get_method_analysis(em) is not ma or len(found.get(id(ma), ())) != 1 \
                or (id(ma) in external) != ma.is_external() or (id(ma) in internal) == ma.is_external():
            out.append(("alt-entry:class-or-find_methods:%s" % kind, "%r: ClassAnalysis.get_method_analysis / find_methods / "
                        "get_internal_methods / get_external_methods disagree with get_methods()" % (t,)))
        if len(found) <= 24 and list(dx.find_methods("^%s$" % re.escape(t[0]), "^%s$" % re.escape(t[1]), "^%s$" % re.escape(t[2]))) != [ma]:
            out.append(("alt-entry:find_methods-filter:%s" % kind, "find_methods(exact class, name, descriptor of %r) does not yield "
                        "exactly that MethodAnalysis" % (t,)))
    if stats is not None:
        stats["alternative_entry_points_compared"] += n_alt
        stats["external_stubs"] += len(stubs)
        stats["external_stubs_shared_by_several_call_sites"] += sum(1 for v in stub_sites.values() if v > 1)
        stats["callgraph_edges"] += len(edges)
    return _norm(out)


# =================================================================================================== C14
def judge_c14(exp, run, stats=None):
    dx = run.dx
    out = []
    acc_where = collections.defaultdict(set)
    for rel in (exp.reads, exp.writes):
        for (me, off, op, fld) in rel:
            if fld in exp.fields:
                acc_where[fld].add(where(exp, me[0], fld[0]))
    accessed_names = collections.defaultdict(set)         # (class, field name) -> types accessed somewhere in the model
    for rel in (exp.reads, exp.writes):
        for (me, off, op, fld) in rel:
            if fld in exp.fields:
                accessed_names[fld[:2]].add(fld[2])
    seen = collections.Counter(ftrip(fa) for fa in dx.get_fields())
    for fld in sorted(exp.fields):
        ws = acc_where.get(fld, ())
        w = next((x for x in ("other-class", "cross-dex", "own-class") if x in ws), "unaccessed")
        n = seen.get(fld, 0)
        if n != 1:
            out.append(("field-unique:%s" % w, "get_fields() yields %d FieldAnalysis objects for the defined field %s->%s %s "
                        "(accessed from: %s)" % ((n,) + fld + (sorted(ws),))))
        e = run.ef(fld)
        fa = dx.get_field_analysis(e) if e is not None else None
        if fa is None or ftrip(fa) != fld:
            out.append(("field-analysis:none", "get_field_analysis() returns %r for the defined field %r" % (fa, fld)))
            continue
        # alternative entry points: the defining ClassAnalysis and find_fields(exact class, name, type) hand out the same object
        import re
        ca = dx.get_class_analysis(fld[0])
        alt = list(dx.find_fields("^%s$" % re.escape(fld[0]), "^%s$" % re.escape(fld[1]), "^%s$" % re.escape(fld[2])))
        if ca.get_field_analysis(e) is not fa or alt != [fa] or sum(1 for x in ca.get_fields() if x is fa) != 1:
            extras = [x for x in alt if x is not fa]
            # a FieldAnalysis of ANOTHER class's field filed under this (accessing) class: the duplicate of field-unique:other-class
            dup = fa in alt and extras and all(ftrip(x)[0] != fld[0] for x in extras) and ca.get_field_analysis(e) is fa
            out.append(("field-unique:other-class" if dup else "alt-entry:find_fields", "ClassAnalysis(%s).get_field_analysis / get_fields / find_fields(exact) disagree with "
                        "get_field_analysis() for %r: find_fields -> %r" % (fld[0], fld, [ftrip(x) for x in alt])))
        if stats is not None:
            stats["alternative_entry_points_compared"] += 1
    for rel, rw in ((exp.reads, "read"), (exp.writes, "write")):
        for (me, off, op, fld) in sorted(rel):
            if fld not in exp.fields:
                if stats is not None:
                    stats["unjudged:access to a field not defined under that exact (class,name,type)"] += 1
                continue
            w = where(exp, me[0], fld[0])
            if w == "own-class" and (me, off) in exp.after_payload:
                w = "after-payload"
            elif w == "own-class" and len(accessed_names[fld[:2]]) > 1:
                w = "same-name-other-type"
            if stats is not None:
                stats["access:" + op] += 1
                stats["where:" + w] += 1
            e = run.ef(fld)
            fa = dx.get_field_analysis(e) if e is not None else None
            ama = run.ma(me)
            if fa is None or ama is None:
                continue                      # reported above / by C13
            lst = fa.get_xref_read(with_offset=True) if rw == "read" else fa.get_xref_write(with_offset=True)
            owner_ok = any(m is ama and o == off for (_, m, o) in lst)
            mlst = ama.get_xref_read() if rw == "read" else ama.get_xref_write()
            meth_ok = any(o == off and ftrip(x) == fld for (_, x, o) in mlst)
            if not (owner_ok and meth_ok):
                bad = []
                if not owner_ok:
                    bad.append("get_field_analysis(field).get_xref_%s(with_offset=True) lacks (method, %d): %r"
                               % (rw, off, sorted((mtrip(m), o) for _, m, o in lst)))
                if not meth_ok:
                    bad.append("the method's get_xref_%s() lacks (field, %d): %r"
                               % (rw, off, sorted((ftrip(x), o) for _, x, o in mlst)))
                out.append(("field-xref:%s" % w, "%s at +%d in %s->%s%s on %s->%s %s (%s): %s"
                            % ((op, off) + me + fld + (w, "; ".join(bad))), me))
    return _norm(out)


# =================================================================================================== C15
def type_kind(exp, me, t):
    """Operand kind of a new-instance / const-class.  Arrays of a class count for their ELEMENT class whatever the number of
    dimensions (androguard files `[LB;` under LB;: the same must hold for `[[LB;`, `[[[LB;` ...)."""
    el = RX.strip_array(t)
    dims = len(t) - len(el)
    if not el.startswith("L"):
        return "array-of-primitive"
    pre = "array-dim%s:" % (dims if dims <= 3 else "N") if dims else ""
    if el == me[0]:
        return pre + "self"
    if el in exp.dex_of_class:
        return pre + "internal" + (":cross-dex" if where(exp, me[0], el) == "cross-dex" else "")
    return pre + "external"


def judge_c15(exp, run, stats=None):
    dx = run.dx
    out = []
    # ---- strings
    sa_all = dx.get_strings_analysis()
    exp_s = collections.defaultdict(set)
    n_loaders = collections.defaultdict(set)
    for (me, off, op, val) in exp.strings:
        n_loaders[val].add(me)
    for (me, off, op, val) in sorted(exp.strings):
        if stats is not None:
            stats["string:" + op] += 1
        key = "string:%s%s" % (op, ":several-methods" if len(n_loaders[val]) > 1 else "")
        if val == "":
            key = "string:empty"
        elif (me, off) in exp.after_payload:
            key = "string:after-payload"
        if stats is not None:
            stats["string-value:%r" % val] += 1
        ma, ca = run.ma(me), dx.get_class_analysis(me[0])
        sa = sa_all.get(val)
        if sa is None or ma is None:
            out.append((key, "%s %r at +%d in %r: no StringAnalysis for the loaded value" % (op, val, off, me), me))
            continue
        exp_s[val].add((ca, ma, off))
        if (ca, ma, off) not in sa.get_xref_from(with_offset=True):
            out.append((key, "%s %r at +%d in %s->%s%s is missing from StringAnalysis(%r).get_xref_from(with_offset=True): %r"
                        % ((op, val, off) + me + (val, sorted((mtrip(m), o) for _, m, o in sa.get_xref_from(with_offset=True)))), me))
    import re
    in_list = {id(x) for x in dx.get_strings()}
    for val, sa in sa_all.items():
        # alternative forms: the legacy (class, method) view is the projection of the offset view; find_strings / get_strings
        # hand out the same object
        if set(sa.get_xref_from()) != {(c, m) for c, m, _ in sa.get_xref_from(with_offset=True)}:
            out.append(("alt-entry:string:legacy-view", "StringAnalysis(%r).get_xref_from() is not the projection of "
                        "get_xref_from(with_offset=True)" % val))
        if val in exp_s and (id(sa) not in in_list or not any(x is sa for x in dx.find_strings("^%s$" % re.escape(val)))):
            out.append(("alt-entry:string:find_strings", "find_strings / get_strings do not hand out the StringAnalysis of %r" % val))
        if stats is not None:
            stats["alternative_entry_points_compared"] += 1
        extra = set(sa.get_xref_from(with_offset=True)) - exp_s.get(val, set())
        if extra:
            out.append(("string:unexpected", "StringAnalysis(%r) lists uses no const-string of that value accounts for: %r"
                        % (val, sorted((mtrip(m), o) for _, m, o in extra))))
    # ---- class usage
    req = {"new-instance": (collections.defaultdict(set), collections.defaultdict(set)),
           "const-class": (collections.defaultdict(set), collections.defaultdict(set))}
    opt = {"new-instance": (collections.defaultdict(set), collections.defaultdict(set)),
           "const-class": (collections.defaultdict(set), collections.defaultdict(set))}
    self_refd = {me[0] for rel in (exp.news, exp.consts) for (me, off, t) in rel if RX.strip_array(t) == me[0]}
    self_seen = {True: [], False: []}
    for rel, op in ((exp.news, "new-instance"), (exp.consts, "const-class")):
        for (me, off, t) in sorted(rel):
            tk = type_kind(exp, me, t)
            if tk.endswith("self"):
                ca_, ma_ = dx.get_class_analysis(RX.strip_array(t)), run.ma(me)
                lst_ = (ca_.get_xref_new_instance() if op == "new-instance" else ca_.get_xref_const_class()) if ca_ else ()
                self_seen[(ma_, off) in lst_].append("%s %s at +%d in %s->%s%s" % ((op, t, off) + me))
                if stats is not None:
                    stats["%s:%s" % (op, tk)] += 1
                    stats["unjudged:self operand (listed or not, but uniformly)"] += 1
                opt[op][0][RX.strip_array(t)].add((ma_, off))
                opt[op][1][id(ma_)].add((RX.strip_array(t), off))
                continue
            if stats is not None:
                stats["%s:%s" % (op, tk)] += 1
            if tk == "array-of-primitive":
                continue                                  # no class: nothing may appear anywhere (caught as 'unexpected')
            ma = run.ma(me)
            el = RX.strip_array(t)                        # the class the xref belongs to, whatever the array dimension
            req[op][0][el].add((ma, off))
            req[op][1][id(ma)].add((el, off))
            ca = dx.get_class_analysis(el)
            key = "class-use:%s:%s" % (op, tk)
            if t != el:
                pass                                       # array operand: the dimension key says it
            elif el in self_refd:
                key = "class-use:self-then-other"          # the operand class also references itself somewhere
                if stats is not None:
                    stats["class-use of a class that also references itself"] += 1
            elif (me, off) in exp.after_payload:
                key = "class-use:after-payload"
            site = "%s %s at +%d in %s->%s%s" % ((op, t, off) + me)
            if ca is None or ma is None:
                out.append((key, "%s: no ClassAnalysis for the operand class" % site, me))
                continue
            clist = ca.get_xref_new_instance() if op == "new-instance" else ca.get_xref_const_class()
            mlist = ma.get_xref_new_instance() if op == "new-instance" else ma.get_xref_const_class()
            if (ma, off) not in clist:
                out.append((key, "%s: missing from ClassAnalysis(%s).get_xref_%s(): %r"
                            % (site, el, op.replace("-", "_"), sorted((mtrip(m), o) for m, o in clist)), me))
            if (ca, off) not in mlist:
                out.append((key, "%s: missing from the method's get_xref_%s(): %r"
                            % (site, op.replace("-", "_"), sorted((c.name, o) for c, o in mlist)), me))
    if self_seen[True] and self_seen[False]:
        out.append(("class-use:other-then-self", "references of a class to itself are treated inconsistently within one analysis: "
                    "listed: %r; not listed: %r" % (self_seen[True][:4], self_seen[False][:4])))
    item_at = {}
    for t in exp.news:
        item_at[(t[0], t[1])] = "new-instance"
    for t in exp.consts:
        item_at[(t[0], t[1])] = "const-class"
    for rel, nmr in ((exp.calls, "invoke"), (exp.reads, "field"), (exp.writes, "field"), (exp.strings, "const-string")):
        for t in rel:
            item_at[(t[0], t[1])] = nmr
    ext_ids, int_ids = {id(c) for c in dx.get_external_classes()}, {id(c) for c in dx.get_internal_classes()}
    for ca in dx.get_classes():
        if [x for x in dx.find_classes("^%s$" % re.escape(ca.name))] != [ca] or (id(ca) in ext_ids) != ca.is_external() \
                or (id(ca) in int_ids) == ca.is_external() or ca.is_external() != (ca.name not in exp.dex_of_class):
            out.append(("alt-entry:class:%s" % ("external" if ca.name not in exp.dex_of_class else "internal"),
                        "find_classes / get_internal_classes / get_external_classes / is_external disagree for %s" % ca.name))
        for op, lst in (("new-instance", ca.get_xref_new_instance()), ("const-class", ca.get_xref_const_class())):
            ok = req[op][0].get(ca.name, set()) | opt[op][0].get(ca.name, set())
            for (m, o) in set(lst) - ok:
                out.append(("class-use:unexpected:%s-list:at-%s" % (op, item_at.get((mtrip(m), o), "other-instruction")),
                            "ClassAnalysis(%s).get_xref_%s() lists (%r, +%d) but the program has no %s of that class there"
                            % (ca.name, op.replace("-", "_"), mtrip(m), o, op), mtrip(m)))
    for ma in dx.get_methods():
        for op, lst in (("new-instance", ma.get_xref_new_instance()), ("const-class", ma.get_xref_const_class())):
            ok = req[op][1].get(id(ma), set()) | opt[op][1].get(id(ma), set())
            for (c, o) in {(c.name, o) for c, o in lst} - ok:
                out.append(("class-use:unexpected:%s-list:at-%s" % (op, item_at.get((mtrip(ma), o), "other-instruction")),
                            "get_xref_%s() of %r lists (%s, +%d) but the program has no %s of that class there"
                            % (op.replace("-", "_"), mtrip(ma), c, o, op), mtrip(ma)))
    return _norm(out)


# =================================================================================================== C16 dump
def dump_sets(run):
    """Name-keyed, sorted dump of what exists in the analysis (no xrefs): usable after every add()."""
    dx = run.dx
    return {
        "classes": sorted((c.name, bool(c.is_external())) for c in dx.get_classes()),
        "methods": sorted(mtrip(m) + (bool(m.is_external()),) for m in dx.get_methods()),
        "fields": sorted(ftrip(f) for f in dx.get_fields()),
        "strings": sorted(dx.get_strings_analysis().keys()),
    }


def dump(run):
    """Canonical, NAME-KEYED, sorted dump of classes, methods, fields, strings and every xref relation."""
    dx = run.dx
    d = dump_sets(run)
    m_to, m_from, m_read, m_write, m_new, m_const, cg = set(), set(), set(), set(), set(), set(), set()
    for m in dx.get_methods():
        t = mtrip(m)
        for c, o, off in m.get_xref_to():
            m_to.add((t, off, mtrip(o), bool(o.is_external()), c.name))
        for c, o, off in m.get_xref_from():
            m_from.add((t, off, mtrip(o), c.name))
        for c, f, off in m.get_xref_read():
            m_read.add((t, ftrip(f), off))
        for c, f, off in m.get_xref_write():
            m_write.add((t, ftrip(f), off))
        for c, off in m.get_xref_new_instance():
            m_new.add((t, c.name, off))
        for c, off in m.get_xref_const_class():
            m_const.add((t, c.name, off))
    cls_to, cls_from, c_new, c_const = set(), set(), set(), set()
    for c in dx.get_classes():
        for o, ents in c.get_xref_to().items():
            for k, m, off in ents:
                cls_to.add((c.name, o.name, int(k), mtrip(m), off))
        for o, ents in c.get_xref_from().items():
            for k, m, off in ents:
                cls_from.add((c.name, o.name, int(k), mtrip(m), off))
        for m, off in c.get_xref_new_instance():
            c_new.add((c.name, mtrip(m), off))
        for m, off in c.get_xref_const_class():
            c_const.add((c.name, mtrip(m), off))
    f_read, f_write = set(), set()
    for vm in run.vms:
        for c in vm.get_classes():
            for f in c.get_fields():
                fa = dx.get_field_analysis(f)
                if fa is None:
                    continue
                for _, m, off in fa.get_xref_read(with_offset=True):
                    f_read.add((ftrip(f), mtrip(m), off))
                for _, m, off in fa.get_xref_write(with_offset=True):
                    f_write.add((ftrip(f), mtrip(m), off))
    s_from = set()
    for v, sa in dx.get_strings_analysis().items():
        for _, m, off in sa.get_xref_from(with_offset=True):
            s_from.add((v, mtrip(m), off))
    g = dx.get_call_graph()
    for a, b in g.edges():
        cg.add(((a.get_class_name(), a.get_name(), nd(a.get_descriptor())), (b.get_class_name(), b.get_name(), nd(b.get_descriptor()))))
    d["find_methods"] = sorted(mtrip(m) + (bool(m.is_external()),) for m in dx.find_methods())
    d["find_fields"] = sorted(ftrip(f) for f in dx.find_fields())
    d["by_name"] = sorted(mtrip(m) for m in dx.get_methods()
                          if dx.get_method_analysis_by_name(m.get_method().get_class_name(), m.get_method().get_name(),
                                                            str(m.get_method().get_descriptor())) is m)
    for k, v in (("m_to", m_to), ("m_from", m_from), ("m_read", m_read), ("m_write", m_write), ("m_new", m_new),
                 ("m_const", m_const), ("cls_to", cls_to), ("cls_from", cls_from), ("c_new", c_new), ("c_const", c_const),
                 ("f_read", f_read), ("f_write", f_write), ("s_from", s_from), ("callgraph", cg)):
        d[k] = sorted(v)
    return d


def expected_dump(exp):
    """The same relations derived from the reference (only those the reference defines; for models without array operands
    and without self class-use)."""
    ext_cls, stubs = set(), set()
    m_to, m_from, cg = set(), set(), set()
    for (me, off, op, tgt) in exp.calls:
        ext = tgt not in exp.methods
        if ext:
            stubs.add(tgt)
        if tgt[0] not in exp.dex_of_class:
            ext_cls.add(tgt[0])
        m_to.add((me, off, tgt, ext, tgt[0]))
        m_from.add((tgt, off, me, me[0]))
        cg.add((me, tgt))
    for (me, off, t) in exp.news | exp.consts:
        if t not in exp.dex_of_class:
            ext_cls.add(t)
    # a class's references to itself are expected to be ignored (analysis.py: "effectively ignoring calls to itself")
    d = {
        "classes": sorted([(c, False) for c in exp.dex_of_class] + [(c, True) for c in ext_cls]),
        "methods": sorted([m + (False,) for m in exp.methods] + [m + (True,) for m in stubs]),
        "fields": sorted(exp.fields),
        "m_to": sorted(m_to), "m_from": sorted(m_from), "callgraph": sorted(cg),
        "m_read": sorted((me, f, off) for (me, off, op, f) in exp.reads if f in exp.fields),
        "m_write": sorted((me, f, off) for (me, off, op, f) in exp.writes if f in exp.fields),
        "f_read": sorted((f, me, off) for (me, off, op, f) in exp.reads if f in exp.fields),
        "f_write": sorted((f, me, off) for (me, off, op, f) in exp.writes if f in exp.fields),
        "s_from": sorted((v, me, off) for (me, off, op, v) in exp.strings),
        "m_new": sorted((me, t, off) for (me, off, t) in exp.news if t != me[0]),
        "c_new": sorted((t, me, off) for (me, off, t) in exp.news if t != me[0]),
        "m_const": sorted((me, t, off) for (me, off, t) in exp.consts if t != me[0]),
        "c_const": sorted((t, me, off) for (me, off, t) in exp.consts if t != me[0]),
    }
    if exp.pool_strings is not None:
        d["strings"] = sorted(exp.pool_strings)
    d["find_methods"], d["find_fields"] = d["methods"], d["fields"]
    d["by_name"] = sorted(m[:3] for m in d["methods"])
    return d


# relation -> (family, function tuple -> (source class, target class))
REL = {
    "m_to": ("method-xref", lambda t: (t[0][0], t[2][0])),
    "m_from": ("method-xref", lambda t: (t[2][0], t[0][0])),
    "callgraph": ("method-xref", lambda t: (t[0][0], t[1][0])),
    "cls_to": (None, lambda t: (t[0], t[1])),
    "cls_from": (None, lambda t: (t[1], t[0])),
    "f_read": ("field-xref", lambda t: (t[1][0], t[0][0])),
    "f_write": ("field-xref", lambda t: (t[1][0], t[0][0])),
    "m_read": ("field-xref", lambda t: (t[0][0], t[1][0])),
    "m_write": ("field-xref", lambda t: (t[0][0], t[1][0])),
    "c_new": ("class-xref", lambda t: (t[1][0], t[0])),
    "c_const": ("class-xref", lambda t: (t[1][0], t[0])),
    "m_new": ("class-xref", lambda t: (t[0][0], t[1])),
    "m_const": ("class-xref", lambda t: (t[0][0], t[1])),
}


def classify_diff(exp, a, b, differential):
    """Symmetric difference of two dumps -> {key: [human-readable difference...]}; keys from the input side: relation
    family + where the target lives relative to the source in THIS split (exp.dex_of_class = add order index)."""
    keys = collections.defaultdict(list)
    loaders = collections.defaultdict(set)
    for (me, off, op, v) in exp.strings:
        loaders[v].add(exp.dex_of_class.get(me[0]))
    acc_where = collections.defaultdict(set)
    for rel in (exp.reads, exp.writes):
        for (me, off, op, fld) in rel:
            acc_where[fld].add(where(exp, me[0], fld[0]))
    for rel in sorted(set(a) & set(b)):
        if a[rel] == b[rel]:
            continue
        ca, cb = collections.Counter(map(repr, a[rel])), collections.Counter(map(repr, b[rel]))
        byrepr = {repr(t): t for t in list(a[rel]) + list(b[rel])}
        for r in sorted(set(ca) | set(cb)):
            if ca[r] == cb[r]:
                continue
            t = byrepr[r]
            txt = "%s: %s x%d vs x%d" % (rel, r, ca[r], cb[r])
            if rel in REL:
                fam, fn = REL[rel]
                src, dst = fn(t)
                if fam is None:
                    fam = "class-xref" if t[2] in (0x1c, 0x22) else "method-xref"
                w = where(exp, src, dst)
                if w == "cross-dex" and fam != "field-xref":
                    w += ":target-later" if exp.dex_of_class[dst] > exp.dex_of_class[src] else ":target-earlier"
                keys["%s:%s" % (fam, w)].append(txt)
            elif rel == "s_from":
                keys["string-xref:%s" % ("shared-cross-dex" if len(loaders[t[0]]) > 1 else "single-dex")].append(txt)
            elif rel == "by_name":
                keys["alt-entry:get_method_analysis_by_name"].append(txt)
            elif rel in ("fields", "find_fields"):
                ws = acc_where.get(tuple(t), ())
                w = next((x for x in ("other-class", "cross-dex", "own-class") if x in ws), "unaccessed")
                keys[("field-xref:%s" if differential else "field-unique:%s") % w].append(txt)
            else:
                keys["%s-set" % rel.replace("find_", "").rstrip("s").replace("classe", "class")].append(txt)
    # set-level differences that merely follow from an xref-level difference of the same family are dropped
    fams = {k.split(":")[0] for k in keys if ":" in k}
    if "method-xref" in fams:
        keys.pop("method-set", None)
    if "class-xref" in fams or "method-xref" in fams:
        keys.pop("class-set", None)
    return keys


# =================================================================================================== C13/C14/C15 exploration
def xm3_space(ctx):
    from gen import xrefmodels as X
    return {"model": "DEX0 = {LA; (m<k> = generated body, n = fixed body, fields f:I and f:String), LB; (t(IJ)V, clone(), fields "
                     "g:I and g:J, static s; u()I only declared)}, DEX1 = {LD; (r = fixed body, field k)}; externals Lext/E;, [Ljava/lang/Object;",
            "alphabet_size": len(X.ALPHABET), "extended_singles": len(X.ALPHABET_X),
            "invoke_ops": X.INVOKE_OPS, "invoke_targets": {k: "%s->%s%s" % (v[0], v[1], X.mdesc(v[2], v[3])) for k, v in X.METHODS.items()},
            "field_ops_in_sequences": X.FIELD_OPS, "field_ops_in_singles": X.FIELD_OPS_ALL,
            "field_targets": {k: "%s->%s %s" % v for k, v in X.FIELDS.items()},
            "strings": X.STRINGS, "string_ops": X.STRING_OPS, "const_class_types": X.CONST_CLASS_TYPES, "new_instance_types": X.NEW_INSTANCE_TYPES,
            "max_dimension_type_alone": "const-class on '[' x 255 + LB;", "type_ops": X.TYPE_OPS,
            "noise": ["%s %s" % n for n in X.NOISE],
            "payload_mid_method": ["fill-array-data + goto + fill-array-data-payload", "packed-switch + goto + packed-switch-payload"],
            "fixed_bodies": "A.n and D.r use the same targets (sharing across methods / DEX files); B.t instantiates B itself before "
                            "D.r instantiates B; B.clone references A (after A.m<k> may have referenced A itself) and accesses "
                            "the same-named fields B.g:I / B.g:J; A.n accesses A.f:I (A.f:String only through the alphabet)",
            "variants_of_every_single_item": ["class_defs order B,A", "generated method named z0 (processed after A.n)", "both"],
            "far_representatives": "10 items (one per family) behind 0x8000 nops (byte offset 0x10000), alone and doubled",
            "decoy_history": "before the first analysis of every process (so in every replay) and before every 4th one a fixed other program with the same class names LA; LB; LD; "
                             "LC0;..LC3; but other members is analysed and queried in the same process, results ignored",
            "alternative_entry_points": ["get_method_analysis_by_name", "get_method_by_name", "ClassAnalysis.get_method_analysis",
                                         "find_methods (all / exact filter)", "get_internal_methods / get_external_methods",
                                         "find_fields (exact filter)", "ClassAnalysis.get_field_analysis / get_fields",
                                         "find_strings / get_strings / legacy get_xref_from()", "find_classes / get_internal_classes / "
                                         "get_external_classes"],
            "max_sequence_length": 3 if ctx.thorough else 2,
            "sequences": sum(len(X.ALPHABET) ** k for k in range((3 if ctx.thorough else 2) + 1)) + len(X.ALPHABET_X),
            "batching": "bodies of length <= 2: one program per model; length 3 (thorough): the %d bodies sharing a 2-prefix are "
                        "methods m0..m%d of one class A, analysed together" % (len(X.ALPHABET), len(X.ALPHABET) - 1)}


def xm3_shards(ctx):
    from gen import xrefmodels as X
    n = len(X.ALPHABET)
    s = [("base",)] + [("pairs", a) for a in range(n)]
    if ctx.thorough:
        s += [("triples", a) for a in range(n)]
    return s


def xm3_models(shard):
    """-> iterable of (list of sequences, variant, far)   (one list = one model).
    variant: bit 0 = class_defs order B, A; bit 1 = generated method named z<k> (processed after A.n); far = 0x8000 nops first."""
    for seqs in _xm3_models(shard):
        yield seqs, 0, False
    if shard[0] == "base":                  # container order / processing order: every single item in the 3 other variants
        from gen import xrefmodels as X
        for variant in (1, 2, 3):
            for a in range(len(X.ALPHABET)):
                yield [(a,)], variant, False
        for a in X.far_codes():             # one representative per family at byte offset 0x10000, alone and followed by itself
            yield [(a,)], 0, True
            yield [(a, a)], 0, True


def _xm3_models(shard):
    from gen import xrefmodels as X
    n = len(X.ALPHABET)
    if shard[0] == "base":                  # simplest first: the empty body, every single item, every extended single item
        yield [()]
        for a in range(n):
            yield [(a,)]
        for k in range(len(X.ALPHABET_X)):
            yield [(-k - 1,)]
    elif shard[0] == "pairs":
        a = shard[1]
        for b in range(n):
            yield [(a, b)]
    else:
        a = shard[1]
        for b in range(n):
            yield [(a, b, c) for c in range(n)]


class RefMismatch(Exception):
    pass


def judge_xm3(seqs, second_first, judge, stats=None, crosscheck=True, variant=0, far=False):
    from gen import xrefmodels as X
    m = X.xm3([tuple(s) for s in seqs], second_first, variant, far)
    raws = X.to_bytes(m)
    exp = RX.expected(m)
    if crosscheck:
        r1, r2 = exp.relations(), RX.from_bytes(raws).relations()
        if r1 != r2:
            raise RefMismatch("model-derived and byte-derived references disagree for %r: %r"
                              % (seqs, {k: sorted(r1[k] ^ r2[k]) for k in r1 if r1[k] != r2[k]}))
    run = Run(raws)
    run.gen = lambda k: (X.A, X.gen_name(k, variant), "()V")       # triple of the k-th generated method
    return judge(exp, run, stats), exp, run


def describe(seq):
    from gen import xrefmodels as X
    out = []
    for c in seq:
        op, t = X.item_of(c)
        if X.kind_of(op) == "method":
            out.append("%s %s->%s%s" % (op, t[0], t[1], X.mdesc(t[2], t[3])))
        elif X.kind_of(op) == "field":
            out.append("%s %s->%s %s" % ((op,) + t))
        else:
            out.append("%s %r" % (op, t))
    return out


def explore_xm3(ctx, shard, judge, acc, orders, relevant, outcome):
    """Shared run_shard body of C13/C14/C15.  orders: tuple of second_first values to run each model with.
    relevant(item) -> bool marks items that make a body non-trivial for the property; outcome(run, k) -> observation of m<k>."""
    from gen import xrefmodels as X
    stats = collections.Counter()
    orders_of = orders if callable(orders) else (lambda seqs, _o=orders: _o)
    for seqs, variant, far in xm3_models(shard):
        orders = orders_of(seqs)
        if variant or far:
            acc.count("models_class_defs_order_B_A", variant & 1)
            acc.count("models_generated_method_after_A.n", (variant >> 1) & 1)
            acc.count("models_reference_at_offset_0x10000", int(far))
        for sf in orders:
            try:
                res, exp, run = judge_xm3(seqs, sf, judge, stats, variant=variant, far=far)
            except RefMismatch as e:
                acc.harness_error(str(e))
                continue
            if sf == orders[0]:
                acc.count("models")
            acc.count("analyses")
            for k, seq in enumerate(seqs):
                nt = any(relevant(X.item_of(c)) for c in seq)
                acc.case(outcome=outcome(run, k))
                if nt and sf == orders[0]:
                    acc.nt_disjoint += 1
            for key, msg, culprit in res:
                if key in acc.viol:
                    acc.viol[key]["count"] += 1
                    continue
                w = {"seqs": [list(s) for s in seqs], "second_first": sf, "key": key, "variant": variant, "far": far}
                if len(seqs) > 1:                       # a batch: look for a one-program witness of the same key
                    if culprit and culprit[0] == X.A and culprit[1][:1] == "m" and culprit[1][1:].isdigit():
                        cands = [[list(seqs[int(culprit[1][1:])])]]
                    else:
                        cands = [[[]], [list(seqs[0])]]
                    for one in cands:
                        r1, _, _ = judge_xm3(one, sf, judge)
                        if any(k2 == key for k2, _, _ in r1):
                            w["seqs"] = one
                            break
                w["program"] = [describe(s) for s in w["seqs"]][:3]
                acc.violation(key, w, msg)
            if sf == orders[0] and len(seqs) == 1 and len(seqs[0]) == 2 and seqs[0][0] == seqs[0][1] and relevant(X.item_of(seqs[0][0])):
                acc.sample({"A.m0": describe(seqs[0]), "note": "same target at two offsets"})
    for k, v in stats.items():
        acc.count(k, v)
    acc.count("decoy_histories_run", DECOYS[0])
    DECOYS[0] = 0


def replay_xm3(w, judge):
    res, _, _ = judge_xm3(w["seqs"], w.get("second_first", False), judge, variant=w.get("variant", 0), far=w.get("far", False))
    msgs = [m for k, m, _ in res if w.get("key") in (None, k)]
    return "\n".join(msgs[:6]) if msgs else None


# =================================================================================================== shipped corpus
SHIPPED_APKS = ("hello-world.apk", "TestActivity.apk", "multidex.apk")


def shipped_groups(repo):
    """[(name, [(member name, bytes)...])]: every tests/data/APK/*.dex alone, the DEX files of three APKs together."""
    import glob
    import os
    import zipfile
    out = []
    base = os.path.join(repo, "tests", "data", "APK")
    for p in sorted(glob.glob(os.path.join(base, "*.dex"))):
        with open(p, "rb") as f:
            raw = f.read()
        if raw[:4] == b"dex\n":
            out.append((os.path.basename(p), [(os.path.basename(p), raw)]))
    for a in SHIPPED_APKS:
        try:
            z = zipfile.ZipFile(os.path.join(base, a))
        except OSError:
            continue
        names = sorted((n for n in z.namelist() if n.startswith("classes") and n.endswith(".dex")),
                       key=lambda n: (len(n), n))
        out.append((a, [(n, z.read(n)) for n in names]))
    return out


def freeze_heap():
    """Called in the parent after the imports and before the pool forks: keeps the children's cyclic GC from walking (and so
    copy-on-write duplicating) the imported modules' objects."""
    import gc
    gc.collect()
    gc.freeze()
