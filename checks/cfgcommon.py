"""Shared driver of the CFG family (C10, C11, C12, C40): batching of generated methods into one-class DEX files,
extraction of plain-data observations from androguard, the shipped-corpus sweep, sharding and replay.

A check module supplies
    plans(ctx) -> [plan]   plan = {"id", "n", "kinds", "tries": None | (max_tries, both), "layouts": (...), "orphans": (...),
                                   "shared": bool}      (the generated space; see gen/methods.py)
    judge(acc, rm, obs, layout, ma=None, gen=True) -> [(key, msg)]   pure-data verdict of ONE method (ref/cfg.py) + counters
    optional: SPECIAL = True (observe special_ins), XREF = True (create_xref per DEX) with judge_xrefs(acc, dx, ems, builts),
              run_extra(ctx, acc, shard) for shard kinds of its own
and calls shards_common / run_shard_common / replay_common / space_common from here.  run_shard and replay share
run_batch()/run_ship(), i.e. the same judging code; a replayed generated method is alone in its DEX file.
"""
import itertools

from mc.core import Acc, h8
from gen import methods as M
from gen import dexread
from ref import cfg as R

BATCH = 256
SHIP_AGAIN_EVERY = 1        # every shipped method is analysed twice (raise to thin out the quick tier if needed)


def extra_plans(ctx, kinds_hist="GIKSA"):
    """Plans shared by C10 / C11 (C40 has its own variants): two same-kind switches on ONE payload, a payload table in
    the middle of the code, and the set_instructions() history family."""
    p = [{"id": "shared-n2", "n": 2, "kinds": "PTRXGIKS", "shared": "only"},
         {"id": "shared-n3", "n": 3, "kinds": "TGIKS" if not ctx.thorough else "PTRXGIKS", "shared": "only"},
         {"id": "mid-n1", "n": 1, "kinds": "PTRXGIKS", "layouts": ("mid",)},
         {"id": "mid-n2", "n": 2, "kinds": "PTRXGIKS", "layouts": ("mid",)},
         {"id": "mid-n3", "n": 3, "kinds": "TGIK" if not ctx.thorough else "PTRXGIKS", "layouts": ("mid",)},
         {"id": "hist-n1", "n": 1, "kinds": kinds_hist, "history": M.EDITS},
         {"id": "hist-n2", "n": 2, "kinds": kinds_hist, "history": M.EDITS}]
    if ctx.thorough:
        p.append({"id": "hist-n3", "n": 3, "kinds": "GIKA", "history": M.EDITS})
    return p + again_plans(ctx) + combo_plans(ctx)


def combo_plans(ctx):
    """Two features together that the base plans only exercise separately: try ranges x payload tables before / in the
    middle of the code x two switches on one payload."""
    return [{"id": "combo-n2", "n": 2, "kinds": "TGIK", "layouts": ("first", "mid"), "tries": (1, False), "shared": True}]


def again_plans(ctx, kinds="PTRXGIKS", reduced="TRXGIK", **kw):
    """No-op history: every method analysed a second (MethodAnalysis) and third (second Analysis of the DEX) time."""
    p = [dict({"id": "again-n%d" % n, "n": n, "kinds": kinds, "history": ("reanalyse",)}, **kw) for n in (0, 1, 2)]
    p.append(dict({"id": "again-n3", "n": 3, "kinds": kinds if ctx.thorough else reduced, "history": ("reanalyse",)}, **kw))
    return p


# --------------------------------------------------------------------------------------------------- androguard side
def load(raw, xref=False):
    from androguard.core import dex
    from androguard.core.analysis.analysis import Analysis
    vm = dex.DEX(raw)
    dx = Analysis(vm)
    if xref:
        dx.create_xref()
    ems = {}
    for c in vm.get_classes():
        for m in c.get_methods():
            ems[(c.get_name(), m.get_name(), m.get_descriptor().replace(" ", ""))] = m
    return vm, dx, ems


def _payload_obj_desc(o):
    n = type(o).__name__
    try:
        if n == "PackedSwitch":
            return ("packed", list(o.get_keys()), list(o.get_targets()))
        if n == "SparseSwitch":
            return ("sparse", list(o.get_keys()), list(o.get_targets()))
        if n == "FillArrayData":
            return ("array", o.element_width, bytes(o.get_data())[:o.element_width * o.size])
    except Exception as e:      # noqa
        return ("error", n, repr(e))
    return ("other", n)


def observe(ma, em, special=False, alt=("blocks", "edges", "exc", "offsets")):
    """MethodAnalysis + EncodedMethod -> plain data (see ref/cfg.py)."""
    sweep = list(em.get_instructions_idx())
    obs = {"idx": [(o, i.get_length(), i.get_op_value()) for o, i in sweep], "blocks": []}
    for b in ma.get_basic_blocks().get():
        d = {"start": b.get_start(), "end": b.get_end(),
             "ins": [(i.get_length(), i.get_op_value()) for i in b.get_instructions()],
             "childs": [c[2].get_start() for c in b.childs],
             "fathers": [f[2].get_start() for f in b.fathers],
             "exc": None, "special": {}}
        ea = b.get_exception_analysis()
        if ea is not None:
            d["exc"] = {"start": ea.start, "end": ea.end,
                        "handlers": [(h[0], h[1], h[2].get_start() if h[2] is not None else None) for h in ea.exceptions]}
        if special:
            for idx in list(b.special_ins):
                o = b.get_special_ins(idx)
                found = None
                for off, ins in sweep:
                    if ins is o:
                        found = off
                        break
                d["special"][idx] = (found, _payload_obj_desc(o) if o is not None else None)
        obs["blocks"].append(d)
    obs["alt"] = _alt_entry_points(ma, em, sweep, alt) if alt else []
    return obs


def _alt_entry_points(ma, em, sweep, topics):
    """Other public routes to the facts the judges read; -> [(topic, what, message)] for every disagreement."""
    out = []
    bbs = ma.get_basic_blocks()
    it = list(bbs.get())
    if "blocks" in topics and (list(bbs.gets()) != it or [bbs[i] for i in range(len(bbs))] != it or list(iter(bbs)) != it \
            or [bbs.get_basic_block_pos(i) for i in range(len(bbs))] != it):
        out.append(("blocks", "list-forms", "BasicBlocks.get()/gets()/__getitem__/__iter__/get_basic_block_pos disagree"))
    for b in it:
        ins = list(b.get_instructions()) if "blocks" in topics else None
        if ins is None:
            pass
        elif b.get_nb_instructions() != len(ins):
            out.append(("blocks", "get_nb_instructions", "block %#x: get_nb_instructions()=%d, get_instructions() yields %d"
                        % (b.get_start(), b.get_nb_instructions(), len(ins))))
        if ins and (b.get_last() is not ins[-1] or b.get_last_length() != ins[-1].get_length()):
            out.append(("blocks", "get_last", "block %#x: get_last()/get_last_length() is not the last instruction"
                        % b.get_start()))
        for off in ((b.get_start(), b.get_end() - 2) if "blocks" in topics else ()):
            if bbs.get_basic_block(off) is not b:
                out.append(("blocks", "get_basic_block", "get_basic_block(%#x) is not the block [%#x,%#x) that contains it"
                            % (off, b.get_start(), b.get_end())))
        if "edges" in topics and (b.get_next() != b.childs or b.get_prev() != b.fathers):
            out.append(("edges", "get_next/get_prev", "block %#x: get_next()/get_prev() differ from childs/fathers"
                        % b.get_start()))
        ea = b.get_exception_analysis() if "exc" in topics else None
        if ea is not None and all(h[2] is not None for h in ea.exceptions):
            d = ea.get()
            want = {"start": ea.start, "end": ea.end,
                    "list": [{"name": h[0], "idx": h[1], "basic_block": h[2].get_name()} for h in ea.exceptions]}
            if d != want:
                out.append(("exc", "ExceptionAnalysis.get", "block %#x: ExceptionAnalysis.get() = %r, attributes say %r"
                            % (b.get_start(), d, want)))
        if ea is not None and ea not in ma.exceptions.gets():
            out.append(("exc", "Exceptions.gets", "block %#x reports an ExceptionAnalysis that MethodAnalysis.exceptions "
                        "does not hold" % b.get_start()))
    if "offsets" in topics and len(sweep) <= 64:
        bc = em.get_code().get_bc()
        pos = 0
        lst = list(em.get_instructions())
        for n, (off, ins) in enumerate(sweep):
            if off != pos or lst[n] is not ins:
                out.append(("offsets", "get_instructions", "get_instructions_idx() offset %#x differs from the running sum "
                            "of get_instructions() lengths %#x" % (off, pos)))
                break
            pos += ins.get_length()
            if bc.off_to_pos(off) != n or bc.get_ins_off(off) is not ins or bc.get_instruction(0, off) is not ins:
                out.append(("offsets", "off_to_pos/get_ins_off/get_instruction",
                            "offset %#x (position %d): off_to_pos=%r, get_ins_off / get_instruction(off=) return %s"
                            % (off, n, bc.off_to_pos(off), "the same object" if bc.get_ins_off(off) is ins else "another object")))
                break
    return out


def alt_violations(mod, obs):
    topics = getattr(mod, "ALT_TOPICS", ())
    return [("alt-entry:%s" % what, msg) for topic, what, msg in obs.get("alt", ()) if topic in topics]


def signature(obs):
    return tuple((b["start"], b["end"], tuple(sorted(set(b["childs"]))), b["exc"] is not None) for b in obs["blocks"])


# --------------------------------------------------------------------------------------------------- generated space
def plan_alphabet(plan):
    return M.alphabet(plan["n"] + 1, plan["kinds"], plan.get("bogus", ()))


def _try_tables(plan):
    n = plan["n"]
    if plan.get("tries3"):
        return list(M.try3_configs(n + 1, plan["tries3"]))
    if plan.get("tries"):
        return list(M.try_configs(n + 1, *plan["tries"]))
    return None


def plan_size(plan):
    a = len(plan_alphabet(plan))
    per = 1
    tt = _try_tables(plan)
    if tt is not None:
        per = len(tt)
    per *= len(plan.get("layouts", ("aligned",))) * (1 + len(plan.get("orphans", ()))) * max(1, len(plan.get("history", ())))
    cnt = a ** plan["n"]
    if plan.get("require_bogus"):
        cnt -= len(M.alphabet(plan["n"] + 1, plan["kinds"])) ** plan["n"]
    return cnt * per


def shards_common(ctx, plans, ship_parts=8, per_shard=40000):
    s = []
    for pi, p in enumerate(plans):
        al = plan_alphabet(p)
        if p["n"] == 0:
            s.append(("gen", pi, None, 0, 1))
            continue
        per_first = plan_size(p) // len(al)
        parts = max(1, min(len(al) if p["n"] > 1 else 1, -(-per_first // per_shard)))
        for i0 in range(len(al)):
            for r in range(parts):
                s.append(("gen", pi, i0, r, parts))
    s += [("big", name) for name in BIG]
    for name in shipped_names(ctx):
        parts = ship_parts if name.endswith("classes.dex") and ":" not in name else 1
        s += [("ship", name, k, parts) for k in range(parts)]
    return s


_SHIP_CACHE = {}


def shipped_names(ctx):
    key = (ctx.repo, ctx.thorough)
    if key not in _SHIP_CACHE:
        _SHIP_CACHE[key] = [n for n, _ in M.shipped_files(ctx.repo, quick=not ctx.thorough)]
    return _SHIP_CACHE[key]


def enum_plan(plan, i0, r, parts):
    """Yield Built objects of one shard of a plan, simplest first."""
    n = plan["n"]
    al = plan_alphabet(plan)
    layouts = plan.get("layouts", ("aligned",))
    orphans = (None,) + tuple(plan.get("orphans", ()))
    tcs = _try_tables(plan)
    need_bogus = plan.get("require_bogus")
    if n == 0:
        sks = [()]
    else:
        sks = itertools.product([al[i0]], *([al] * (n - 1)))
    for k, sk in enumerate(sks):
        if parts > 1 and (al.index(sk[1]) % parts) != r:
            continue
        if need_bogus and not any(x[0] in M.BOGUS for x in sk):
            continue
        if plan.get("shared") == "only":
            variants = shared_variants(sk)[1:]
        elif plan.get("shared"):
            variants = shared_variants(sk)
        else:
            variants = [sk]
        for skv in variants:
            for lay in layouts:
                for orph in orphans:
                    b = M.build(skv, (), lay, orph)
                    if b is None:
                        continue
                    if plan.get("history"):
                        for tries, share in (tcs or [((), False)]):
                            for e in plan["history"]:
                                c = M.retry(b, tries, share)
                                c.edit = e
                                yield c
                    elif tcs is None:
                        yield b
                    elif plan.get("hperms"):
                        # every other order of the encoded_catch_handler_list entries (identity order = the base plans)
                        for tries, share in tcs:
                            for k in range(1, plan["hperms"]):
                                c = M.retry(b, tries, share, k)
                                if c is not None:
                                    yield c
                    else:
                        for tries, share in tcs:
                            yield M.retry(b, tries, share)


def shared_variants(sk):
    """sk itself plus, for every ordered pair of same-kind switch slots (i, j), sk with slot i re-using j's payload."""
    out = [sk]
    for i, s in enumerate(sk):
        if s[0] in ("K", "S"):
            for j, t in enumerate(sk):
                if j != i and t[0] == s[0]:
                    v = list(sk)
                    v[i] = (s[0] + "s", j)
                    out.append(tuple(v))
    return out


def _judge_one(mod, acc, b, ma, em):
    rm = R.from_built(b)
    code = b.code
    if callable(code):
        code = code(_FakePool())
    if not R.same_listing(rm, R.from_bytes(code, b.dex_tries, b.dex_handlers)):
        acc.harness_error("generator and reference decoder disagree on %r" % (b.witness(),))
        return []
    obs = observe(ma, em, special=getattr(mod, "SPECIAL", False), alt=getattr(mod, "ALT_TOPICS", ()))
    viol = mod.judge(acc, rm, obs, b.layout, ma=ma, gen=True) + alt_violations(mod, obs)
    acc.count("alt_entry_point_sweeps")
    f = R.features(rm)
    nt = len(obs["blocks"]) > 1 or bool(rm.tries)
    acc.n += 1
    if nt:
        acc.nt_disjoint += 1
        if len(acc.samples) < 1 and len(obs["blocks"]) > 3 and len(b.sk) >= 2:
            acc.sample({"method": b.witness(), "blocks": [[x["start"], x["end"], sorted(set(x["childs"]))]
                                                         for x in obs["blocks"]]})
    if len(acc.outcomes) < 100000:
        acc.outcomes.add(h8(signature(obs)))
    for x in f:
        acc.count("methods_with_" + x)
    return viol


def _judge_again(mod, acc, b, vm, em, again):
    """No-op history: the SAME parsed code analysed again without any edit -- a stand-alone MethodAnalysis(vm, em) (second
    analysis) and a second Analysis(vm) over the same DEX object (third); both judged exactly like the first."""
    from androguard.core.analysis.analysis import Analysis, MethodAnalysis
    rm = R.from_built(b)
    res = []
    for nth in ("second", "third"):
        if nth == "second":
            ma = MethodAnalysis(vm, em)
        else:
            if again.get("dx") is None:
                again["dx"] = Analysis(vm)
            ma = again["dx"].get_method(em)
        obs = observe(ma, em, special=getattr(mod, "SPECIAL", False), alt=getattr(mod, "ALT_TOPICS", ()))
        acc.n += 1
        acc.nt_disjoint += 1
        acc.count("reanalyses[%s]" % nth)
        res += [(key + ":second-analysis", "%s analysis of the same parsed code: %s" % (nth, msg))
                for key, msg in mod.judge(acc, rm, obs, b.layout, ma=ma, gen=True) + alt_violations(mod, obs)]
    return res


def _judge_history(mod, acc, b, vm, em, again=None):
    from androguard.core import dex
    from androguard.core.analysis.analysis import MethodAnalysis
    if b.edit == "reanalyse":
        return _judge_again(mod, acc, b, vm, em, again if again is not None else {})
    want, pos, n = M.edited_code(b, b.edit)
    ins = list(em.get_instructions())
    new = ins[:pos] + [dex.Instruction10x(vm.CM, b"\x00\x00") for _ in range(n)] + ins[pos:]
    em.set_instructions(new)
    raw = bytes(em.get_code().get_bc().get_raw())
    if raw != want:
        acc.harness_error("edit %s of %r: raw code after set_instructions is %s, expected %s"
                          % (b.edit, b.witness(), raw.hex(), want.hex()))
        return []
    rm = R.from_bytes(raw)
    acc.n += 1
    acc.nt_disjoint += 1
    acc.count("histories[%s]" % b.edit)
    layout = b.layout
    if any(i[2] == "payload" and i[0] % 4 == 2 for i in rm.ins):
        layout = "misaligned"
    if getattr(mod, "HISTORY_SKIP_UNALIGNED", False) and \
            any(i[2] == "switch" and i[4] is not None and i[4] % 4 == 2 for i in rm.ins):
        acc.count("histories_unaligned_switch_offset_not_judged")      # nop-skip domain of determineNext (not well-formed)
        return []
    ma2 = MethodAnalysis(vm, em)
    obs = observe(ma2, em, special=getattr(mod, "SPECIAL", False), alt=getattr(mod, "ALT_TOPICS", ()))
    if len(acc.outcomes) < 100000:
        acc.outcomes.add(h8(("h", b.edit, signature(obs))))
    return [(key + ":after:set_instructions", msg)
            for key, msg in mod.judge(acc, rm, obs, layout, ma=ma2, gen=True) + alt_violations(mod, obs)]


class _FakePool:
    def string(self, s): return 0
    def type(self, t): return 0
    def field(self, *a): return 0
    def method(self, *a): return 0
    def proto(self, *a): return 0


_DECOY = []


def decoy(xref=False):
    """Decoy history INSIDE the judging path (run_shard and replay alike): a fixed different input under the same class /
    method / field names goes through the same API calls first; its results are ignored."""
    if not _DECOY:
        _DECOY.append(M.decoy_dex())
    vm, dx, ems = load(_DECOY[0], xref)
    for em in ems.values():
        ma = dx.get_method(em)
        for b in ma.get_basic_blocks().get():
            b.get_exception_analysis()
            list(b.get_instructions())


def run_batch(mod, acc, builts):
    xref = getattr(mod, "XREF", False)
    decoy(xref)
    acc.count("decoy_runs")
    try:
        raw = M.wrap(builts)
        vm, dx, ems = load(raw, xref)
    except Exception as e:      # noqa  -- isolate the offending method
        if len(builts) == 1:
            b = builts[0]
            acc.n += 1
            acc.violation("analysis-raises:%s" % type(e).__name__, b.witness(),
                          "loading/analysing the method raised %s: %s" % (type(e).__name__, e))
            return
        for b in builts:
            run_batch(mod, acc, [b])
        return
    for k, b in enumerate(builts):
        em = ems[(M.CLS, M.method_name(k), "()V")]
        ma = dx.get_method(em)
        for key, msg in _judge_one(mod, acc, b, ma, em):
            acc.violation(key, b.witness(), "%s\n  method: %s" % (msg, describe(b)))
    if xref and hasattr(mod, "judge_xrefs"):
        for key, k, msg in mod.judge_xrefs(acc, dx, ems, builts):
            b = builts[k]
            acc.violation(key, b.witness(), "%s\n  method: %s" % (msg, describe(b)))

    # history family: ONE edit through set_instructions() on the SAME EncodedMethod, then a NEW MethodAnalysis
    again = {}
    for k, b in enumerate(builts):
        if getattr(b, "edit", None):
            em = ems[(M.CLS, M.method_name(k), "()V")]
            try:
                res = _judge_history(mod, acc, b, vm, em, again)
            except Exception as e:      # noqa
                res = [("analysis-raises:%s:after:set_instructions" % type(e).__name__, "%s: %s" % (type(e).__name__, e))]
            for key, msg in res:
                acc.violation(key, b.witness(), "%s\n  method: %s, history: %s" % (msg, describe(b), (
                    "analysed again without any edit" if b.edit == "reanalyse" else
                    "edit %s via set_instructions, then a new MethodAnalysis" % b.edit)))


def describe(b):
    return "slots %s%s%s%s" % (" ".join("%s%s" % (s[0], ("->" + ",".join(map(str, s[1:]))) if len(s) > 1 else "")
                                       for s in list(b.sk) + [("R",)]),
                               (" tries " + repr(list(b.tries))) if b.tries else "",
                               (" layout " + b.layout) if b.layout != "aligned" else "",
                               (" orphan " + repr(b.orphan)) if b.orphan else "")


# --------------------------------------------------------------------------------------------------- shipped corpus
def ship_methods(raw):
    """[(class, name, descriptor, RM)] by the independent reader + decoder."""
    model = dexread.Reader(raw).model()
    out = []
    for c in model.classes:
        for m in c.dmethods + c.vmethods:
            if m.code is None:
                continue
            rm = R.from_bytes(m.code.insns, m.code.tries, m.code.handlers)
            out.append((c.name, m.name, "(" + "".join(m.params) + ")" + m.ret, rm))
    return out


def run_ship(mod, ctx, acc, name, k, parts, only=None):
    from androguard.core import dex
    from androguard.core.analysis.analysis import MethodAnalysis
    decoy()
    acc.count("decoy_runs")
    raw = M.shipped_file(ctx.repo, name)
    vm = dex.DEX(raw)
    ems = {}
    for c in vm.get_classes():
        for m in c.get_methods():
            ems[(c.get_name(), m.get_name(), m.get_descriptor().replace(" ", ""))] = m
    msgs = []
    for n, (cn, mn, desc, rm) in enumerate(ship_methods(raw)):
        if only is not None:
            if (cn, mn, desc) != only:
                continue
        elif n % parts != k:
            continue
        em = ems.get((cn, mn, desc))
        w = {"shipped": name, "method": [cn, mn, desc]}
        if em is None:
            acc.harness_error("shipped method %s %s%s of %s not found through androguard" % (cn, mn, desc, name))
            continue
        try:
            ma = MethodAnalysis(vm, em)
            obs = observe(ma, em, special=getattr(mod, "SPECIAL", False), alt=getattr(mod, "ALT_TOPICS", ()))
        except Exception as e:  # noqa
            acc.n += 1
            acc.violation("analysis-raises:%s" % type(e).__name__, w, "%s %s%s: %s" % (cn, mn, desc, e))
            continue
        viol = mod.judge(acc, rm, obs, "aligned", ma=ma, gen=False) + alt_violations(mod, obs)
        if only is not None or ctx.thorough or n % SHIP_AGAIN_EVERY == 0:
            # no-op history on the shipped corpus: the same parsed code analysed a second time
            try:
                ma2 = MethodAnalysis(vm, em)
                obs2 = observe(ma2, em, special=getattr(mod, "SPECIAL", False), alt=getattr(mod, "ALT_TOPICS", ()))
                viol = viol + [(key + ":second-analysis", "second analysis of the same parsed code: " + msg)
                               for key, msg in mod.judge(acc, rm, obs2, "aligned", ma=ma2, gen=False)]
                acc.n += 1
                acc.count("shipped_reanalyses")
            except Exception as e:  # noqa
                viol = viol + [("analysis-raises:%s:second-analysis" % type(e).__name__, "%s %s%s: %s" % (cn, mn, desc, e))]
        acc.n += 1
        acc.count("shipped_methods")
        if len(obs["blocks"]) > 1 or rm.tries:
            acc.nt.add(h8((name, cn, mn, desc)))
        if len(acc.outcomes) < 100000:
            acc.outcomes.add(h8(signature(obs)))
        for key, msg in viol:
            m = "%s\n  method: %s:%s->%s%s" % (msg, name, cn, mn, desc)
            acc.violation(key, w, m)
            acc.count("shipped_violations[%s]" % key)
            msgs.append(m)
    return msgs


BIG = M.BIG


def run_big(mod, acc, name):
    """Field maxima and encoding-width boundaries: fixed representatives (gen/methods.BIG_BUILDERS)."""
    decoy()
    for _once in (0,):
        code, tries, handlers = M.big_method(name)
        rm = R.from_bytes(code, tries, handlers)
        w = {"big": name}
        try:
            vm, dx, ems = load(M.wrap_raw(code, tries, handlers), getattr(mod, "XREF", False))
            em = ems[(M.CLS, "big", "()V")]
            ma = dx.get_method(em)
            obs = observe(ma, em, special=getattr(mod, "SPECIAL", False), alt=getattr(mod, "ALT_TOPICS", ()))
        except Exception as e:  # noqa
            acc.n += 1
            acc.violation("analysis-raises:%s:big:%s" % (type(e).__name__, name), w, "%s: %s" % (type(e).__name__, e))
            continue
        acc.n += 1
        acc.nt.add(h8(("big", name)))
        acc.count("field_maxima_methods")
        for key, msg in mod.judge(acc, rm, obs, "aligned", ma=ma, gen=False) + alt_violations(mod, obs):
            fam = name.rsplit("-", 1)[0] if name.startswith("handlers-") else name
            acc.violation(key + ":big:" + fam, w, "%s\n  method: field-maximum / width-boundary representative %s" % (msg, name))


# --------------------------------------------------------------------------------------------------- entry points
def run_shard_common(mod, ctx, shard):
    acc = Acc()
    if shard[0] == "gen":
        _, pi, i0, r, parts = shard
        plan = mod.plans(ctx)[pi]
        batch = []
        for b in enum_plan(plan, i0, r, parts):
            batch.append(b)
            if len(batch) >= BATCH:
                run_batch(mod, acc, batch)
                batch = []
        if batch:
            run_batch(mod, acc, batch)
    elif shard[0] == "ship":
        run_ship(mod, ctx, acc, shard[1], shard[2], shard[3])
    elif shard[0] == "big":
        run_big(mod, acc, shard[1])
    else:
        mod.run_extra(ctx, acc, shard)
    return acc


def replay_common(mod, ctx, w):
    acc = Acc()
    if "shipped" in w:
        if w.get("xref"):
            mod.run_extra(ctx, acc, ("shipx", w["shipped"]), only=tuple(w["method"]))
        else:
            run_ship(mod, ctx, acc, w["shipped"], 0, 1, only=tuple(w["method"]))
    elif "big" in w:
        run_big(mod, acc, w["big"])
    else:
        b = M.from_witness(w)
        if b is None:
            return None
        run_batch(mod, acc, [b])
    if acc.harness_errors:
        return "HARNESS: " + "; ".join(acc.harness_errors)
    if acc.viol:
        return "\n".join("[%s] %s" % (k, v["msg"]) for k, v in sorted(acc.viol.items()))
    return None


def space_common(ctx, plans):
    return {"slot_alphabet": {"P": "const/4", "T": "div-int (can throw)", "R": "return-void", "X": "throw", "G": "goto->t",
                              "I": "if-eqz->t", "K": "packed-switch->{t,u}", "S": "sparse-switch->{t,u}",
                              "A": "fill-array-data", "C": "const-string", "V": "invoke-static", "N": "new-instance",
                              "F": "sget"},
            "targets": "every slot 0..n (n = the appended final return-void), t <= u for switches",
            "plans": [dict(p, methods=plan_size(p)) for p in plans],
            "field_maxima_and_width_boundaries": list(BIG),
            "decoy_history": "before every batch / shipped shard / replay a fixed different DEX with the same class, method "
                             "and field names (LT; m0..m3 callee f) is loaded and analysed, results ignored",
            "alternative_entry_points": "BasicBlocks list forms, get_basic_block, get_nb_instructions, get_last (C10); "
                                        "get_next/get_prev (C11); ExceptionAnalysis.get(), Exceptions.gets() (C12); "
                                        "off_to_pos / get_ins_off / get_instruction(off=) / get_instructions (C40)",
            "handler_list_orders": "plans with 'hperms': every non-identity order of the encoded_catch_handler_list entries",
            "shipped": shipped_names(ctx)}
