"""C16  Multi-DEX analysis is independent of how the code is split and ordered   (engine E3: history exploration).

Space: class sets C0..Cn-1 (each: field f, static field s, method m with a generated body, static method t) with an
interaction matrix -- for every ordered pair (i, j): none / Ci.m calls Cj.m and Cj.t / reads Cj.f and writes Cj.s /
new-instance + const-class Cj / loads the string Cj also loads / all of these; every class also calls Lext/E;->x(I)V and
instantiates itself (a self reference, which must stay ignored whatever the processing order).
quick: the full-interaction 4-class model x ALL 75 ordered set partitions into 1..4 DEX files x every class_defs order inside
each file (192 histories), and 3 classes x all 2^6 {none, all} matrices x all 13 ordered partitions x class_defs orders (24).  thorough: additionally 3 classes x all 5^6 single-interaction matrices x 13
and 4 classes x all 2^12 {none, all} matrices x 75.
History = the sequence of Analysis.add calls (one per block of the ordered partition), then create_xref() once.
Oracles: (a) after every add the name-keyed sets of classes / methods / fields / strings equal what the model says for the classes
added so far (a function of the set, not of the order); (b) the final canonical NAME-KEYED dump of classes, methods, fields,
strings and all xref relations equals the dump of the single-DEX run (differential) and (c) the relations of ref/xref.py.
"""
import collections

from mc.core import Acc
from checks import xref_common as C

PROPERTY = "C16"
LEVEL = "model_checking"
RULE = ("every ordered set partition (= DEX split + add order) of 3- and 4-class models with an interaction matrix per ordered "
        "class pair; one trace = one add sequence + create_xref validated against the single-DEX run and the reference; "
        "non-trivial = at least two DEX files and at least one interaction that crosses a DEX boundary; distinct by construction "
        "(matrix x ordered partition = enumeration index)")
ASSUMPTIONS = ["class names are distinct across the DEX files (the statement's premise)",
               "iteration order of classes / strings follows the add order and is not part of the statement: dumps are name-keyed and sorted",
               "the add order of the files is the order of the blocks; the order inside a block is the class_defs order of that file",
               "trusted: gen/dexgen.py, gen/dexread.py, gen/dalvik.py, ref/xref.py (model- and byte-derived references compared once per matrix)"]
MANIFEST = {
    "engine": "E3-history-bfs",
    "technique": "exhaustive enumeration of add histories (all ordered set partitions of small class sets) with canonical state dumps, differential against the single-DEX run plus a reference relation",
    "text": "For every interaction matrix in the bound and every way of splitting the classes into 1..n DEX files in every add "
            "order, the real Analysis is driven add by add; after each add the name-keyed class/method/field/string sets are "
            "compared with the model, and after create_xref the complete name-keyed dump of all xref relations is compared "
            "with the single-DEX run of the same classes and with the relation derived from the generating model.  Every "
            "history in the bound is executed against the implementation (traces validated = histories), so the claim is "
            "complete for the stated bound.",
    "note": "Trusted: gen/dexgen.py writer, ref/xref.py. Class sets larger than 4 and bodies beyond the fixed interaction "
            "templates are not covered; create_xref is called once at the end as the API documents.",
}

FULL = 5
CH4 = 12         # histories per shard for the full 4-class model (192 = ordered partitions x class_defs orders)
CHM3 = 2         # matrices per shard, 3 classes {none, all}
CHT3 = 125       # matrices per shard, 3 classes x 5^6 (thorough)
CHT4 = 32        # matrices per shard, 4 classes x 2^12 (thorough)


def space(ctx):
    from gen import xrefmodels as X
    s = {"interactions": X.INTERACTIONS,
         "quick": {"4 classes, full interaction": "75 ordered partitions x every class_defs order inside each DEX = 192 histories",
                   "3 classes x {none,all}^6": "64 matrices x (13 ordered partitions x class_defs orders = 24 histories)"},
         "decoy_history": "before the first analysis of a process and every 4th one a fixed other program using the same class names LC0;..LC3; "
                          "is analysed and queried; in between, the previous history (same names, other bodies) is the decoy",
         "alternative_entry_points_in_dump": ["find_methods", "find_fields", "get_method_analysis_by_name"],
         "ordered_partitions": {"3": len(X.ordered_partitions(3)), "4": len(X.ordered_partitions(4))}}
    if ctx.thorough:
        s["thorough"] = {"3 classes x {none,call,field,class-use,string}^6": "15625 matrices x 13",
                         "4 classes x {none,all}^12": "4096 matrices x 75"}
    return s


def shards(ctx):
    import androguard.core.analysis.analysis  # noqa  (warm the import before the pool forks)
    C.freeze_heap()
    s = [("m3o", (0, FULL), lo, lo + CHM3) for lo in range(0, 64, CHM3)]      # simplest first
    s += [("full4", lo, lo + CH4) for lo in range(0, 192, CH4)]
    if ctx.thorough:
        s += [("m3", (0, 1, 2, 3, 4), lo, lo + CHT3) for lo in range(0, 5 ** 6, CHT3)]
        s += [("m4", (0, FULL), lo, lo + CHT4) for lo in range(0, 2 ** 12, CHT4)]
    return s


# ---------------------------------------------------------------------------------------------------------------
def _pools(model):
    """String pools per DEX as laid out by the independent writer."""
    from gen import dexgen as G
    from gen import xrefmodels as X
    raws, pools = [], []
    for d in X.to_dexgen(model):
        raw, lay = G.build(d, return_layout=True)
        raws.append(raw)
        pools.append(set(lay["pools"].slist))
    return raws, pools


def run_history(n, matrix, blocks, acc=None):
    """One trace: add the blocks in order, dump after every add, create_xref, final dump.
    -> (violations [(key, msg)], final dump, exp)"""
    from gen import xrefmodels as X
    from ref import xref as RX
    model = X.interaction(n, matrix, blocks)
    raws, pools = _pools(model)
    exp = RX.expected(model)
    exp.pool_strings = set().union(*pools)
    viol = []

    def after_add(k, run):
        added = {c.name for d in model.dexes[:k + 1] for c in d}
        got = C.dump_sets(run)
        want = {"classes": sorted((c, False) for c in added),
                "methods": sorted(m + (False,) for m in exp.methods if m[0] in added),
                "fields": sorted(f for f in exp.fields if f[0] in added),
                "strings": sorted(set().union(*pools[:k + 1]))}
        if acc is not None:
            acc.state(("added", n, matrix, tuple(sorted(added)), repr(got)))
            acc.transitions += 1
        for rel in want:
            if got[rel] != want[rel]:
                viol.append(("state-after-add:%s" % rel, "after add #%d (classes so far %s) the %s differ from the model: got-only %r, model-only %r"
                             % (k + 1, sorted(added), rel, [x for x in got[rel] if x not in want[rel]][:6],
                                [x for x in want[rel] if x not in got[rel]][:6])))

    run = C.Run(raws, after_add=after_add, decoy="c16")
    d = C.dump(run)
    if acc is not None:
        acc.state(("final", n, matrix, repr(d)))
        acc.transitions += 1
        acc.traces += 1
    return viol, d, exp


def judge_history(n, matrix, blocks, single=None, acc=None):
    """-> ([(key, msg)], single-DEX dump for reuse)."""
    viol, d, exp = run_history(n, matrix, blocks, acc)
    whole = [list(range(n))]
    if single is None:
        if list(map(list, blocks)) == whole:
            single = d
        else:
            _, single, _ = run_history(n, matrix, whole)
    out = list(viol)
    for differential, other, label in ((True, single, "differs from the single-DEX run"),
                                       (False, C.expected_dump(exp), "differs from the reference relation")):
        if other is d:
            continue
        for key, diffs in sorted(C.classify_diff(exp, d, other, differential).items()):
            out.append((key, "%s (this run vs %s): %s%s" % (label, "single DEX" if differential else "reference",
                                                             "; ".join(diffs[:4]), " ... +%d more" % (len(diffs) - 4) if len(diffs) > 4 else "")))
    return out, single, d


def _matrix_at(n, values, idx):
    from gen import xrefmodels as X
    pairs = [(i, j) for i in range(n) for j in range(n) if i != j]
    m = [[0] * n for _ in range(n)]
    for (i, j) in reversed(pairs):
        idx, r = divmod(idx, len(values))
        m[i][j] = values[r]
    return tuple(tuple(r) for r in m)


def _crosses(n, matrix, blocks):
    where = {c: bi for bi, b in enumerate(blocks) for c in b}
    return sum(1 for i in range(n) for j in range(n) if i != j and matrix[i][j] and where[i] != where[j])


def run_shard(ctx, shard):
    from gen import xrefmodels as X
    from ref import xref as RX
    acc = Acc()
    kind = shard[0]
    if kind == "full4":
        n = 4
        mats = [tuple(tuple(0 if i == j else FULL for j in range(4)) for i in range(4))]
        parts = X.ordered_partitions_with_class_order(4)[shard[1]:shard[2]]
    else:
        n = 4 if kind == "m4" else 3
        mats = [_matrix_at(n, shard[1], k) for k in range(shard[2], shard[3])]
        # quick families: every class_defs order inside every DEX file as well; thorough-only families: blocks in index order
        parts = X.ordered_partitions_with_class_order(n) if kind == "m3o" else X.ordered_partitions(n)
    for matrix in mats:
        single = None
        if kind != "full4" or shard[1] == 0:
            # reference self-check once per matrix: model-derived == byte-derived relations on the single-DEX build
            model = X.interaction(n, matrix, [list(range(n))])
            r1, r2 = RX.expected(model).relations(), RX.from_bytes(X.to_bytes(model)).relations()
            if r1 != r2:
                acc.harness_error("model- and byte-derived references disagree for n=%d matrix=%r" % (n, matrix))
        for blocks in parts:
            res, single, d = judge_history(n, matrix, blocks, single, acc)
            cross = _crosses(n, matrix, blocks)
            acc.case(outcome=repr(sorted(d.items())))
            acc.count("add_orders_run")
            acc.count("partitions_with_%d_dex" % len(blocks))
            acc.count("cross_dex_interactions", cross)
            if len(blocks) > 1 and cross:
                acc.nt_disjoint += 1
            for key, msg in res:
                acc.violation(key, {"n": n, "matrix": [list(r) for r in matrix], "blocks": [list(b) for b in blocks], "key": key},
                              "n=%d matrix=%r DEX files (add order)=%r: %s" % (n, matrix, blocks, msg))
        if kind != "full4" or shard[1] == 0:
            acc.count("matrices")
    acc.count("decoy_histories_run", C.DECOYS[0])
    C.DECOYS[0] = 0
    if kind == "full4" and shard[1] == 0:
        acc.sample({"classes": 4, "matrix": "all pairs: all interactions", "dex_files_in_add_order": parts[-1]})
    if kind == "m3o" and shard[2] == 2:
        acc.sample({"classes": 3, "matrix": [list(r) for r in mats[-1]], "dex_files_in_add_order": parts[-1]})
    return acc


def replay(ctx, w):
    res, _, _ = judge_history(w["n"], tuple(tuple(r) for r in w["matrix"]), [list(b) for b in w["blocks"]])
    msgs = [m for k, m in res if w.get("key") in (None, k)]
    return "\n".join(msgs[:6]) if msgs else None


def finalize(ctx, acc):
    x = acc.extra
    want = 192 + 64 * 24 + ((5 ** 6) * 13 + 4096 * 75 if ctx.thorough else 0)
    if acc.traces != want or x.get("add_orders_run") != want:
        acc.harness_error("expected %d add histories, ran %d" % (want, acc.traces))
    for k in ("partitions_with_1_dex", "partitions_with_2_dex", "partitions_with_3_dex", "partitions_with_4_dex", "cross_dex_interactions"):
        if not x.get(k):
            acc.harness_error("vacuity: %s is zero" % k)
    if len(acc.outcomes) < 60 or len(acc.states) < 200:
        acc.harness_error("vacuity: %d distinct final dumps, %d states for %d traces" % (len(acc.outcomes), len(acc.states), acc.traces))
