"""C08  Try/catch tables are reported exactly  (engine E2: bounded structure enumeration).

Space: code items over an instruction skeleton of L code units (L = 6 even, L = 7 odd -> 2-byte padding before the tries),
k in {1,2,3} try items whose (start,count) are ALL ordered non-overlapping ranges of the skeleton; each try picks its
handler from the handler alphabet H (typed x {0,1,2} pairs in both orders, catch-all present/absent, explicit Throwable + catch-all,
the same type listed twice, type index < 128 and
>= 128 (two-byte uleb), handler addresses at both ends of the skeleton); the encoded handler list is the distinct picked
handlers in first-use order, in reversed order, with an unused handler in front, and with legal NON-minimal LEB128
numbers in all handlers / in the first handler only (shared vs distinct handler lists arise
from the picks).  k=3 uses the reduced alphabet H3 in quick, all of H in thorough.
Oracle: the generating model.  determineException as a multiset of [start*2, end*2-1, (type,addr*2)..., (Throwable, catch_all*2)]
with the handler order preserved inside each range; DalvikCode.get_tries / get_handlers in file order; the alternative entry
points agree (get_tries_size, handler-list and per-handler get_size, TryItem.get_raw, and for the minimal-LEB128 layouts
DalvikCode.get_raw() reproduces the code item's bytes in the file).
"""
import itertools
import struct

from mc.core import Acc, h8

PROPERTY = "C08"
LEVEL = "exploration"
RULE = ("all ordered non-overlapping try ranges (k<=3) over skeletons of 6 and 7 code units x handler picks from an 8-handler "
        "alphabet x 3 handler-list layouts; each method serialised by gen/dexgen, 64 methods per DEX; distinct by construction; "
        "non-trivial = k>1 or a handler with catch-all or a shared handler")
ASSUMPTIONS = ["gen/dexgen's code_item/try_item/encoded_catch_handler_list encoding follows the DEX spec (round-trips through gen/dexread "
               "on shipped files with exception tables, e.g. ExceptionHandling.dex)"]
MANIFEST = {
    "engine": "E2-structures",
    "technique": "bounded exhaustive enumeration of try/handler tables serialised by an independent DEX writer",
    "text": "Every arrangement of up to three non-overlapping try ranges over an even and an odd length skeleton, with every "
            "combination of typed / catch-all / shared / reordered handler lists from an 8-handler alphabet, is written into real "
            "DEX files; determineException, get_tries and get_handlers must report exactly the encoded table.",
    "note": "Trusted: gen/dexgen code-item writer (conformance-checked on shipped files).",
}

EXC, BIG, THR = "Ljava/lang/Exception;", "Lzz/Big;", "Ljava/lang/Throwable;"
NH = 10
BATCH = 64


def handler_alphabet(L):
    a0, a1 = 0, L - 1
    return [
        ([(EXC, a0)], None), ([(BIG, a1)], None), ([(EXC, a0), (BIG, a1)], None), ([(BIG, a0), (EXC, a1)], None),
        ([], a1), ([(EXC, a0)], a1), ([(EXC, a0), (BIG, a1)], a0), ([(BIG, a1)], a0),
        # the try/catch(Throwable)/finally shape javac emits: Throwable named explicitly AND a catch-all; the same type listed twice
        ([(THR, a0)], a1), ([(EXC, a0), (EXC, a1)], None),
    ]


H3 = [0, 4, 6, 8]


def ranges(L, k):
    """all k-tuples of ordered non-overlapping (start,count), count>=1, inside [0,L)"""
    def rec(lo, k):
        if k == 0:
            yield ()
            return
        for s in range(lo, L):
            for c in range(1, L - s + 1):
                for rest in rec(s + c, k - 1):
                    yield ((s, c),) + rest
    return rec(0, k)


def cases(ctx):
    """yield (L, tries ranges, picks, layout)"""
    for L in (6, 7):
        for k in (1, 2, 3):
            alpha = range(NH) if (k < 3 or ctx.thorough) else H3
            for rg in ranges(L, k):
                for picks in itertools.product(alpha, repeat=k):
                    for layout in (0, 1, 2, 3, 4):
                        if layout == 1 and len(set(picks)) == 1:
                            continue        # reversed order identical
                        if layout in (3, 4) and k == 3 and not ctx.thorough and picks[0] not in (0, 6):
                            continue        # padded-number layouts for k=3: reduced in quick
                        yield (L, rg, picks, layout)


def build_case(case):
    """-> (tries [(start,count,handler_index)], handlers [(pairs, catch_all)])"""
    L, rg, picks, layout = case
    H = handler_alphabet(L)
    used = list(dict.fromkeys(picks))
    if layout == 1:
        used = used[::-1]
    hl = [H[i] for i in used]
    off = 0
    if layout == 2:
        unused = [i for i in range(NH) if i not in picks][0]
        hl = [H[unused]] + hl
        off = 1
    tries = [(s, c, used.index(p) + off) for (s, c), p in zip(rg, picks)]
    return tries, hl


def pad_flags(case, nh):
    """which handlers of the encoded list carry non-minimal LEB128 numbers"""
    layout = case[3]
    if layout == 3:
        return [True] * nh
    if layout == 4:
        return [True] + [False] * (nh - 1)
    return [False] * nh


def features(case):
    L, rg, picks, layout = case
    H = handler_alphabet(L)
    f = ["k%d" % len(rg)]
    if L % 2:
        f.append("odd-insns")
    if len(set(picks)) < len(picks):
        f.append("shared-handler")
    if any(not H[p][0] for p in picks):
        f.append("catchall-only")
    if any(H[p][0] and H[p][1] is not None for p in picks):
        f.append("typed+catchall")
    if any(t == BIG for p in picks for t, _ in H[p][0]):
        f.append("uleb2-type-idx")
    if 8 in picks:
        f.append("explicit-throwable+catchall")
    if 9 in picks:
        f.append("same-type-twice")
    if layout:
        f.append(["", "reversed-list", "unused-handler-first", "nonminimal-leb128", "first-handler-nonminimal-leb128"][layout])
    return f


def skeleton(L):
    from gen import dalvik as D
    return D.enc("nop") * (L - 1) + D.enc("return-void")


def build_dex(batch):
    from gen import dexgen as G
    ms = []
    for i, case in enumerate(batch):
        tries, hl = build_case(case)
        pf = pad_flags(case, len(hl))
        code = G.Code(1, 0, 0, skeleton(case[0]), tries, [G.Handler(p, ca, pad=f) for (p, ca), f in zip(hl, pf)])
        ms.append(G.Method("m%03d" % i, "V", (), G.ACC_STATIC | G.ACC_PUBLIC, code))
    big_types = ["Lzy/T%03d;" % i for i in range(140)]        # push Lzz/Big; to a type index >= 128
    return G.Dex([G.Class("La/T;", dmethods=ms)], extra_types=big_types)


def expected(case):
    tries, hl = build_case(case)
    det = []
    for (s, c, hi) in tries:
        pairs, ca = hl[hi]
        z = [s * 2, s * 2 + c * 2 - 1] + [[t, a * 2] for t, a in pairs]
        if ca is not None:
            z.append(["Ljava/lang/Throwable;", ca * 2])
        det.append(z)
    return det, [(s, c) for s, c, _ in tries], [([(t, a) for t, a in p], ca) for p, ca in hl], [hi for _, _, hi in tries]


def judge_batch(batch):
    """-> list of (case, key, msg)"""
    from gen import dexgen as G
    from androguard.core import dex
    out = []
    raw = G.build(build_dex(batch))
    try:
        vm = dex.DEX(raw)
        methods = {m.get_name(): m for m in vm.get_classes()[0].get_methods()}
    except Exception as e:     # noqa
        return [(batch[0], "parse:exception", "%s: %s" % (type(e).__name__, e))]
    for i, case in enumerate(batch):
        m = methods["m%03d" % i]
        det, tr, hls, his = expected(case)
        feat = "+".join(features(case))
        try:
            got = dex.determineException(vm, m)
            if sorted(map(repr, got)) != sorted(map(repr, det)):
                out.append((case, "determineException:" + feat, "determineException %r != encoded %r" % (got, det)))
            code = m.get_code()
            gt = [(t.get_start_addr(), t.get_insn_count()) for t in code.get_tries()]
            if gt != tr:
                out.append((case, "get_tries:" + feat, "get_tries %r != %r" % (gt, tr)))
            hl = code.get_handlers()
            gh = []
            for h in hl.get_list():
                pairs = [(vm.get_cm_type(p.get_type_idx()), p.get_addr()) for p in h.get_handlers()]
                gh.append((pairs, h.get_catch_all_addr() if h.get_size() <= 0 else None))
            if gh != hls:
                out.append((case, "get_handlers:" + feat, "get_handlers %r != %r" % (gh, hls)))
            # each try's handler_off must address the handler the model assigned
            offs = [h.get_off() - hl.get_off() for h in hl.get_list()]
            gi = [offs.index(t.get_handler_off()) if t.get_handler_off() in offs else None for t in code.get_tries()]
            if gi != his:
                out.append((case, "handler_off:" + feat, "try->handler indices %r != %r" % (gi, his)))
            # the alternative entry points must tell the same story: sizes, per-item re-encodings, the code item's own bytes
            if code.get_tries_size() != len(tr) or hl.get_size() != len(hls):
                out.append((case, "sizes:" + feat, "get_tries_size()=%r handlers.get_size()=%r, encoded %d tries / %d handlers"
                            % (code.get_tries_size(), hl.get_size(), len(tr), len(hls))))
            sz = [h.get_size() for h in hl.get_list()]
            wsz = [(-len(p) if ca is not None else len(p)) for p, ca in hls]
            if sz != wsz:
                out.append((case, "handler-size:" + feat, "EncodedCatchHandler.get_size() %r != encoded %r" % (sz, wsz)))
            traw = b"".join(bytes(t.get_raw()) for t in code.get_tries())
            wraw = b"".join(struct.pack("<IHH", s_, c_, t.get_handler_off()) for (s_, c_), t in zip(tr, code.get_tries()))
            if traw != wraw:
                out.append((case, "try-raw:" + feat, "TryItem.get_raw() %s != %s" % (traw.hex(), wraw.hex())))
            if case[3] in (0, 1, 2):
                off = m.get_code_off()
                mine = bytes(code.get_raw())
                if raw[off:off + len(mine)] != mine:
                    out.append((case, "code-raw:" + feat, "DalvikCode.get_raw() (%d bytes) differs from the file bytes at the code offset: %s vs %s"
                                % (len(mine), mine.hex(), raw[off:off + len(mine)].hex())))
        except Exception as e:     # noqa
            out.append((case, "exception:%s:%s" % (type(e).__name__, feat), "%s: %s" % (type(e).__name__, e)))
    return out


NSH = 64


def shards(ctx):
    return list(range(NSH))


def space(ctx):
    n = sum(1 for _ in cases(ctx))
    return {"skeleton_units": [6, 7], "k": [1, 2, 3], "handler_alphabet": NH, "k3_alphabet": NH if ctx.thorough else 4,
            "layouts": ["first-use order", "reversed", "unused handler first", "all numbers non-minimal LEB128", "first handler non-minimal LEB128"], "methods": n, "methods_per_dex": BATCH}


def run_shard(ctx, shard):
    acc = Acc()
    batch = []

    def flush():
        for case, key, msg in judge_batch(batch):
            acc.violation(key, {"case": [case[0], [list(r) for r in case[1]], list(case[2]), case[3]]}, msg)
        batch.clear()
    for n, case in enumerate(cases(ctx)):
        if (n // BATCH) % NSH != shard:
            continue
        batch.append(case)
        acc.n += 1
        f = features(case)
        if f != ["k1"]:
            acc.nt_disjoint += 1
        acc.outcomes.add(h8(tuple(f)))
        if len(batch) == BATCH:
            if shard == 0 and len(acc.samples) < 2:
                tries, hl = build_case(case)
                acc.sample({"skeleton_units": case[0], "tries": tries, "handlers": hl})
            flush()
    if batch:
        flush()
    return acc


def replay(ctx, w):
    c = w["case"]
    case = (c[0], tuple(tuple(r) for r in c[1]), tuple(c[2]), c[3])
    res = judge_batch([case])
    return "\n".join("%s: %s" % (k, m) for _, k, m in res) if res else None


def finalize(ctx, acc):
    if len(acc.outcomes) < 20:
        acc.harness_error("vacuous: only %d feature combinations" % len(acc.outcomes))
