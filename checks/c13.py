"""C13  Method cross-references are exact and symmetric   (engine E2: bounded structure enumeration).

Space: the three-class / two-DEX model of gen/xrefmodels.xm3; the body of A.m<k> is every sequence of <= 2 (thorough: <= 3)
items of the reference alphabet (10 invoke opcodes x 7 targets, 8 field opcodes x 7 fields, const-string(/jumbo) x 4 strings,
new-instance / const-class x 5 types, 3 other type-referencing instructions, 2 forms of a switch / array-data payload placed
in the middle of the method with a goto over it), plus every item of the extended alphabet (all
28 field opcodes, A.n as target) alone.  A.n and D.r (second DEX) have fixed bodies calling the same targets, so resolution is
shared across methods and across DEX files.  Each model is written by gen/dexgen, analysed by the real
DEX / Analysis.add / create_xref, and judged against ref/xref.py (which is cross-checked against a byte-level sweep).
"""
from mc.core import Acc
from checks import xref_common as C

PROPERTY = "C13"
LEVEL = "exploration"
RULE = ("every body of <= 2 (thorough <= 3) items over a 169-item reference alphabet + 160 extended single items, one generated "
        "program per body; non-trivial = the body contains at least one invoke; distinct by construction (the sequence is the "
        "enumeration index)")
ASSUMPTIONS = ["invoke on an array-of-primitive receiver is skipped by design and is not in the alphabet",
               "for an object-array receiver the external stub may carry the array type, its element class (androguard strips '[') "
               "or java.lang.Object as class name; only name, descriptor, externality and sharing are judged there",
               "an array receiver whose element class defines a method of that name and descriptor must still resolve to an "
               "external stub: no analysed method has the array type as its class (statement: 'same class, name and descriptor')",
               "class-level get_xref_to/get_xref_from are judged for invoke kinds only (presence of every edge, no unexplained edge)",
               "trusted: gen/dexgen.py writer, gen/dalvik.py tables, ref/xref.py (two derivations compared on every model)"]
MANIFEST = {
    "engine": "E2-structures",
    "technique": "exhaustive enumeration of short instruction sequences in generated multi-class DEX models against a reference xref relation",
    "text": "Every method body of up to 2 (thorough: 3) reference-carrying instructions over the full alphabet of invoke kinds, "
            "/range forms and target kinds (defined, declared-only, self, external, object-array receiver, second DEX) is "
            "serialised by an independent DEX writer, analysed by the real Analysis, and get_xref_to / get_xref_from / "
            "class-level xrefs / get_call_graph are compared edge by edge, offset by offset and by object identity with the "
            "relation derived from the generating model; complete for the stated bound.",
    "note": "Trusted: gen/dexgen.py, gen/dalvik.py, ref/xref.py. Receivers that are arrays of primitives are out of scope. "
            "Length-3 bodies are analysed 169 at a time as sibling methods of one class.",
}


def space(ctx):
    return C.xm3_space(ctx)


def shards(ctx):
    import androguard.core.analysis.analysis  # noqa  (warm the import before the pool forks)
    C.freeze_heap()
    return C.xm3_shards(ctx)


def _relevant(item):
    return item[0].startswith("invoke")


def _outcome(run, k):
    ma = run.ma(run.gen(k))
    if ma is None:
        return None
    cca = run.dx.get_class_analysis("LA;")
    kinds = sorted((int(kd), off) for c in run.dx.get_classes() for kd, m, off in c.get_xref_from().get(cca, ()) if m is ma)
    return (tuple(sorted((off, C.mtrip(m), bool(m.is_external())) for _, m, off in ma.get_xref_to())), tuple(kinds))


def run_shard(ctx, shard):
    acc = Acc()
    C.explore_xm3(ctx, shard, C.judge_c13, acc, (False,), _relevant, _outcome)
    return acc


def replay(ctx, w):
    return C.replay_xm3(w, C.judge_c13)


def finalize(ctx, acc):
    x = acc.extra
    from gen import xrefmodels as X
    missing = [op for op in X.INVOKE_OPS if not x.get("invoke:" + op)]
    need = ["target:internal", "target:internal:cross-dex", "target:internal-undefined", "target:self", "target:external",
            "target:array-object", "target:array-internal", "external_stubs_shared_by_several_call_sites", "callgraph_edges",
            "invoke behind a mid-method payload"]
    missing += [k for k in need if not x.get(k)]
    if missing:
        acc.harness_error("vacuity: never exercised: %r" % missing)
    if len(acc.outcomes) < (1500 if acc.n > 5000 else 50):
        acc.harness_error("vacuity: only %d distinct callee relations observed over %d bodies" % (len(acc.outcomes), acc.n))
