"""C33  APK Signing Block contents are reported as encoded  (engine E2: bounded structure enumeration).

Space: APK Signing Blocks serialised by gen/apkgen (struct only, from the v2/v3/v3.1 format description) and spliced in
front of the central directory of a 2-entry zip written by stdlib zipfile (EOCD offset patched), with and without a zip
comment (never containing the EOCD magic).  The block is described by
  layout   which ids appear, in which order, and which of them carries the enumerated signers (role A) or a fixed,
           different signer list (roles B, C): none / empty block / v2 / v3 / v3.1 without v3 / unknown id / v2+v3 / v3+v3.1
           in both role assignments and both orders / v2+v3+v3.1 / unknown before and after v2 / v2 twice (A first, B first) /
           v3 twice / v3.1 twice / v2,v3,v2 / unknown twice / v3,v3.1,v3.1; and 22 layouts with an EMPTY-valued pair (12 bytes)
           of every id {v2, v3, v3.1, unknown, duplicate of an earlier id} in first / middle / LAST position
  signers  0..3 signers, each {digest lengths (0..3 of {0,1,32,64}), signature lengths (same), certificates (0..2 of the
           fixed test certificates), additional attributes (none / one / two), public key (rsa / ec / dsa / empty),
           v3 SDK bounds (6 boundary tuples, signed-data and signer level independent)}
The product is bounded as "one or two dimensions at full alphabet x the rest at base":
  P1  single signer, ALL digest-length tuples (85) x ALL signature-length tuples (85), layouts v2 / v3 / v3.1-only / v3+v3.1
  P2  single signer, ALL digest-length tuples x ALL certificate lists (7) x ALL attribute blobs (3), layouts v2 / v3
  P3  single signer, ALL signature-length tuples x ALL public keys (4) x ALL SDK tuples (6), layouts v2 / v3 / v3.1-only
  P5  single signer (+ one 3-signer case per tuple), element SLACK: 4 / 12 extra bytes after the fields of one digest and/or
      signature element (inside its length prefix), every element position of 6 length tuples, layouts v2 / v3 / v3.1-only / v3+v3.1
  P6  maxima: 70000-byte digest, 65536/65535-byte signatures, 40 digests + 40 signatures, 8 certificates, a 76800-byte attribute,
      8 signers; layouts v2 / v3 / v2+v3+v3.1
  P4  ALL layouts x ALL signer lists of length 0..3 over a reduced alphabet of 6 signer shapes (10 in thorough) x zip comment
Oracle = the generating model: is_signed_v2/v3/v31 true exactly when a block with that id is present;
has_duplicate_apk_signature_ids() (asked first on a fresh object, and again after the flags) <=> some id occurs twice;
parse_v2_signing_block / parse_v3_signing_block(v31) signers: digests, certificates, attributes, signatures, public key and
(v3) the four SDK bounds of the FIRST block with that id (slack bytes inside a digest / signature element are not content); get_certificates_der_* / get_public_keys_der_* /
get_certificates_* / get_public_keys_* the corresponding flattened lists; absent scheme -> empty lists.  For a scheme whose
first block has an empty value only the flags (and that no exception escapes the flag / duplicate queries) are judged.
"""
import itertools

from mc.core import Acc

PROPERTY = "C33"
LEVEL = "exploration"
RULE = ("APK Signing Blocks over 45 id layouts (23 with filled values + 22 with an empty-valued pair first/middle/last) x 0..3 signers x {digest, signature length tuples of size <= 3 over {0,1,32,64}} x "
        "certificate lists x attribute blobs x public keys x v3 SDK boundary tuples, bounded as four sub-products (two dimensions "
        "at full alphabet, the rest at base); written by gen/apkgen into a zip before the central directory; distinct by "
        "construction; non-trivial = the block holds a v2/v3/v3.1 id")
ASSUMPTIONS = ["gen/apkgen's signing-block layout follows source.android.com apksigning v2/v3/v3.1 (uint64 sizes, uint32 ids, "
               "uint32 length-prefixed sequences); every generated archive is re-read by stdlib zipfile",
               "SDK bounds are compared as the encoded unsigned 32-bit values",
               "additional attributes are compared as the raw bytes of the attribute sequence (the API exposes them raw)",
               "zip comments containing the EOCD magic are not in the alphabet (DESIGN section 11)",
               "signature VALIDITY of v2/v3 blocks is out of scope (androguard does not verify them)"]
MANIFEST = {
    "engine": "E2-structures",
    "technique": "bounded exhaustive enumeration of APK Signing Block structures written by an independent serialiser",
    "text": "Signing blocks for every id layout (single, combined, unknown, duplicated ids, v3.1 without v3) with 0-3 signers, "
            "every digest/signature count and length combination up to 3 elements, certificate lists, attribute blobs, public "
            "keys and SDK boundary values are written into real zip archives; presence flags, duplicate-id flag and every field "
            "of every signer reported by the real parser must equal the model, always for the first block of an id.",
    "note": "Trusted: gen/apkgen serialiser (format description), stdlib zipfile. The four sub-products are exhaustive; the full "
            "cross product is not claimed.",
}

NSH = 64
LENS = [0, 1, 32, 64]
ALGS = [0x0103, 0x0104, 0x0201, 0x0101, 0x0102, 0x0202, 0x0301, 0x0421]
CERTS = [[], ["rsa"], ["ec"], ["rsa", "ec"], ["ec", "rsa"], ["rsa", "rsa"], ["dsa", "rsa"],
         ["rsa", "ec", "dsa", "rsa2", "ec2", "dsa2", "rsa", "ec"]]        # index 7: only used by the P6 maxima cases
NCERTS_ENUM = 7
KEYS = ["rsa", "ec", "dsa", ""]
SDKS = [(24, 0x7FFFFFFF, 24, 0x7FFFFFFF), (0, 0, 0, 0), (28, 0xFFFFFFFF, 28, 0xFFFFFFFF), (33, 33, 33, 33),
        (0x7FFFFFFF, 0x80000000, 1, 2), (0xFFFFFFFF, 0xFFFFFFFE, 0x80000000, 0x7FFFFFFF)]
NATTR = 3
COMMENTS = ["", "verif comment PK\x05 PK\x05\x05 end"]

# layout: name -> [(id tag, role)]   role A = enumerated signers, B / C = fixed different signer lists, None = unknown id
LAYOUTS = {
    "none": None, "empty-block": [],
    "decoy": [("v2", "A"), ("unk2", None), ("v3", "A"), ("v31", "B"), ("v2", "B")],      # not enumerated: the decoy history only
    "v2": [("v2", "A")], "v3": [("v3", "A")], "v31-only": [("v31", "A")], "unknown": [("unk", None)],
    "v2+v3": [("v2", "A"), ("v3", "A")],
    "v3A+v31B": [("v3", "A"), ("v31", "B")], "v3B+v31A": [("v3", "B"), ("v31", "A")], "v31A+v3B": [("v31", "A"), ("v3", "B")],
    "v2+v3+v31": [("v2", "A"), ("v3", "A"), ("v31", "A")],
    "unk+v2": [("unk", None), ("v2", "A")], "v2+unk": [("v2", "A"), ("unk", None)],
    "v2A+v2B": [("v2", "A"), ("v2", "B")], "v2B+v2A": [("v2", "B"), ("v2", "A")],
    "v3A+v3B": [("v3", "A"), ("v3", "B")], "v31A+v31B": [("v31", "A"), ("v31", "B")],
    "v2A+v3A+v2B": [("v2", "A"), ("v3", "A"), ("v2", "B")],
    "unk+unk": [("unk", None), ("unk2", None)],
    "v3A+v31A+v31B": [("v3", "A"), ("v31", "A"), ("v31", "B")],
    "v3B+v3A+v31C": [("v3", "B"), ("v3", "A"), ("v31", "C")],
    # v2 and v3 together, BOTH duplicated, interleaved; the enumerated signers first resp. second
    "v2A+v3A+v2B+v3B": [("v2", "A"), ("v3", "A"), ("v2", "B"), ("v3", "B")],
    "v3B+v2B+v3A+v2A": [("v3", "B"), ("v2", "B"), ("v3", "A"), ("v2", "A")],
    # pairs with an EMPTY value (role E: the pair is 12 bytes, uint64 size = 4) in first / middle / last position, for every id and
    # as duplicate of an earlier id.  Only the flags are judged for a scheme whose FIRST block is empty.
    "v2E": [("v2", "E")], "v3E": [("v3", "E")], "v31E": [("v31", "E")],
    "v2A+v3E": [("v2", "A"), ("v3", "E")], "v3A+v31E": [("v3", "A"), ("v31", "E")], "v2A+v31E": [("v2", "A"), ("v31", "E")],
    "v3A+v2E": [("v3", "A"), ("v2", "E")], "v2A+unkE": [("v2", "A"), ("unk", None)],
    "v2A+v2E": [("v2", "A"), ("v2", "E")], "v3A+v3E": [("v3", "A"), ("v3", "E")], "v31A+v31E": [("v31", "A"), ("v31", "E")],
    "unk9+unkE": [("unk2", None), ("unk", None)], "v2A+v3A+v2E": [("v2", "A"), ("v3", "A"), ("v2", "E")],
    "v2E+v3A": [("v2", "E"), ("v3", "A")], "v3E+v2A": [("v3", "E"), ("v2", "A")], "v31E+v3A": [("v31", "E"), ("v3", "A")],
    "v2A+v3E+unk9": [("v2", "A"), ("v3", "E"), ("unk2", None)], "v2A+v31E+v3A": [("v2", "A"), ("v31", "E"), ("v3", "A")],
    "v3A+v2E+v31A": [("v3", "A"), ("v2", "E"), ("v31", "A")], "v2A+v2E+v3A": [("v2", "A"), ("v2", "E"), ("v3", "A")],
    "v2A+unkE+v3A": [("v2", "A"), ("unk", None), ("v3", "A")], "unkE+unk9+v2A": [("unk", None), ("unk2", None), ("v2", "A")],
}
LAYOUT_ORDER = [k for k in LAYOUTS if k != "decoy"]

BASE = {"d": [32], "s": [64], "c": 1, "a": 0, "k": 0, "sdk": 0}
SHAPES = [
    BASE,
    {"d": [], "s": [], "c": 0, "a": 0, "k": 3, "sdk": 1},                     # everything empty
    {"d": [32, 64], "s": [64, 32, 1], "c": 3, "a": 1, "k": 1, "sdk": 2},       # several of everything
    {"d": [0], "s": [0, 0], "c": 5, "a": 2, "k": 2, "sdk": 4},                 # zero-length elements, repeated certificate
    {"d": [64, 1, 0], "s": [1], "c": 2, "a": 1, "k": 0, "sdk": 5},
    {"d": [1], "s": [32, 32], "c": 4, "a": 0, "k": 1, "sdk": 3},
]
SHAPES_MORE = [
    {"d": [0, 0, 0], "s": [64, 64, 64], "c": 6, "a": 2, "k": 3, "sdk": 5},
    {"d": [32], "s": [], "c": 0, "a": 1, "k": 0, "sdk": 1},
    {"d": [], "s": [64], "c": 1, "a": 0, "k": 2, "sdk": 2},
    {"d": [1, 1], "s": [0, 1, 32], "c": 3, "a": 0, "k": 1, "sdk": 4},
]
BIG_SHAPES = [{"d": [70000], "s": [65536, 65535], "c": 1, "a": 0, "k": 0, "sdk": 0},
              {"d": [1] * 40, "s": [0] * 40, "c": 7, "a": 3, "k": 0, "sdk": 5}]
SLACK_TUPLES = [(32,), (0,), (32, 64), (0, 1), (1, 32, 64), (64, 0, 32)]
SLACK = {4: b"\xEE\xEE\xEE\xEE", 12: b"\x08\x00\x00\x00\x21\x04\x00\x00\x00\x00\x00\x00"}   # 12: looks like an element (0x421, b"")
ROLE_B = [{"d": [1, 32], "s": [1], "c": 6, "a": 1, "k": 2, "sdk": 3}]
ROLE_C = [{"d": [64], "s": [32, 1], "c": 2, "a": 2, "k": 1, "sdk": 2}, {"d": [], "s": [0], "c": 1, "a": 0, "k": 0, "sdk": 1}]


def len_tuples():
    for n in range(4):
        yield from itertools.product(LENS, repeat=n)


def cases(ctx):
    """yield (part, layout name, [signer shape, ...], comment index) - simplest first inside each part"""
    LT = [list(t) for t in len_tuples()]
    for lay in ("v2", "v3", "v31-only", "v3B+v31A"):
        for d in LT:
            for s in LT:
                yield ("P1", lay, [dict(BASE, d=d, s=s)], 0)
    for lay in ("v2", "v3"):
        for d in LT:
            for c in range(NCERTS_ENUM):
                for a in range(NATTR):
                    yield ("P2", lay, [dict(BASE, d=d, c=c, a=a)], 0)
    for lay in ("v2", "v3", "v31-only"):
        for s in LT:
            for k in range(len(KEYS)):
                for sdk in range(len(SDKS)):
                    yield ("P3", lay, [dict(BASE, s=s, k=k, sdk=sdk)], 0)
    # P5: elements with SLACK bytes after their fields, inside the element's own length prefix (legal; readers skip to the
    # length-prefixed end): 4 / 12 bytes, in the digest list, the signature list or both, at every element position
    for lay in ("v2", "v3", "v31-only", "v3B+v31A"):
        for t in SLACK_TUPLES:
            for i in range(len(t)):
                for n in (4, 12):
                    for which in ("d", "s", "ds"):
                        sh = dict(BASE, d=list(t), s=list(t))
                        if "d" in which:
                            sh["dslack"] = [[i, n]]
                        if "s" in which:
                            sh["sslack"] = [[i, n]]
                        yield ("P5", lay, [sh], 0)
                        if i == 0 and n == 12 and which == "ds":
                            yield ("P5", lay, [SHAPES[2], sh, dict(sh, dslack=[[j, 4] for j in range(len(t))])], 1)
    # P6: one representative at large sizes / counts of every length field the generator controls
    for lay in ("v2", "v3", "v2+v3+v31"):
        for sh in BIG_SHAPES:
            yield ("P6", lay, [sh], 1)
        yield ("P6", lay, [BIG_SHAPES[0]] + [BASE] * 7, 0)          # 8 signers
    shapes = SHAPES + (SHAPES_MORE if ctx.thorough else [])
    for n in range(4):
        for lay in LAYOUT_ORDER:
            for sig in itertools.product(range(len(shapes)), repeat=n):
                for cm in range(len(COMMENTS)):
                    yield ("P4", lay, [shapes[i] for i in sig], cm)


# ------------------------------------------------------------------------------------------------ model -> bytes
def blob(role, i, j, what, n):
    """distinct, recognisable bytes for element j of signer i"""
    seed = (ord(role) * 31 + i * 16 + j * 4 + {"d": 1, "s": 2}[what]) & 0xFF
    return bytes((seed + 7 * k) & 0xFF for k in range(n))


def attrs(a):
    from gen import apkgen as G
    if a == 0:
        return b""
    if a == 1:
        return G.attrs_blob([(0xBEEFF00D, G.u32(3))])
    if a == 3:
        return G.attrs_blob([(0xBEEFF00D, G.u32(3)), (0x3BA06F8C, bytes(range(256)) * 300)])     # 76800-byte attribute
    return G.attrs_blob([(0xBEEFF00D, G.u32(3)), (0x3BA06F8C, b"\x01\x02\x03\x04\x05")])


def materialise(role, shapes):
    """shape list -> signer models for gen/apkgen (also the expectation)"""
    from gen import apkgen as G
    out = []
    for i, sh in enumerate(shapes):
        mn, mx, smn, smx = SDKS[sh["sdk"]]
        dsl, ssl = dict(map(tuple, sh.get("dslack", []))), dict(map(tuple, sh.get("sslack", [])))
        digests = [(ALGS[(i + j) % len(ALGS)], blob(role, i, j, "d", n)) for j, n in enumerate(sh["d"])]
        sigs = [(ALGS[(i + j + 3) % len(ALGS)], blob(role, i, j, "s", n)) for j, n in enumerate(sh["s"])]
        out.append({
            "digests": digests, "sigs": sigs,
            "digests_wire": [p + ((SLACK[dsl[j]],) if j in dsl else ()) for j, p in enumerate(digests)],
            "sigs_wire": [p + ((SLACK[ssl[j]],) if j in ssl else ()) for j, p in enumerate(sigs)],
            "certs": [G.cert_der(c) for c in CERTS[sh["c"]]],
            "attrs": attrs(sh["a"]),
            "pubkey": G.pubkey_der(KEYS[sh["k"]]) if KEYS[sh["k"]] else b"",
            "min": mn, "max": mx, "smin": smn, "smax": smx, "shape": sh})
    return out


_zip = {}


def base_zip(cm):
    from gen import apkgen as G
    if cm not in _zip:
        _zip[cm] = G.make_zip([("a.txt", b"1", "stored"), ("res/b.bin", b"22" * 50, "deflated")],
                              comment=COMMENTS[cm].encode("latin-1"))
        assert G.EOCD_MAGIC not in _zip[cm][-len(COMMENTS[cm]):] or not COMMENTS[cm]
    return _zip[cm]


def build(case):
    """-> (apk bytes, model).  model = {"blocks": {"v2": [signer lists in file order], ...}, "dup": bool, "dup_ids": [...]}"""
    from gen import apkgen as G
    _, lay, shapes, cm = case
    raw = base_zip(cm)
    layout = LAYOUTS[lay]
    model = {"blocks": {"v2": [], "v3": [], "v31": []}, "dup_ids": []}
    if layout is None:
        return raw, model
    ids = {"v2": G.ID_V2, "v3": G.ID_V3, "v31": G.ID_V31, "unk": G.ID_UNKNOWN, "unk2": G.ID_UNKNOWN}
    pairs, seen = [], []
    for tag, role in layout:
        if role is None:
            val = b"" if tag == "unk" else b"\x00" * 9
        elif role == "E":
            val = b""
            model["blocks"][tag].append(None)
        else:
            signers = materialise(role, shapes if role == "A" else (ROLE_B if role == "B" else ROLE_C))
            val = G.v2_value(signers) if tag == "v2" else G.v3_value(signers)
            model["blocks"][tag].append(signers)
        name = "unknown" if tag.startswith("unk") else tag
        if ids[tag] in seen and name not in model["dup_ids"]:
            model["dup_ids"].append(name)
        seen.append(ids[tag])
        pairs.append((ids[tag], val))
    return G.insert_signing_block(raw, pairs), model


# ------------------------------------------------------------------------------------------------ judging
def count_feature(lst):
    n = len(lst)
    if n > 1:
        return "count>1"
    if n == 1:
        return "count=1:len=%d" % len(lst[0][1])
    return "count=0"


def first_diff(got, exp, v3):
    """compare one reported signer with the model -> (field, feature) | None"""
    sd = got.signed_data
    if list(sd.digests) != exp["digests"]:
        return "digests", count_feature(exp["digests"]) + (":element-slack" if exp["shape"].get("dslack") else "")
    if [bytes(c) for c in sd.certificates] != exp["certs"]:
        return "certificates", "count=%d" % len(exp["certs"])
    if bytes(sd.additional_attributes) != exp["attrs"]:
        return "attributes", "present" if exp["attrs"] else "empty"
    if list(got.signatures) != exp["sigs"]:
        return "signatures", count_feature(exp["sigs"]) + (":element-slack" if exp["shape"].get("sslack") else "")
    if bytes(got.public_key) != exp["pubkey"]:
        return "public-key", "present" if exp["pubkey"] else "empty"
    if v3:
        g = (sd.minSDK, sd.maxSDK, got.minSDK, got.maxSDK)
        e = (exp["min"], exp["max"], exp["smin"], exp["smax"])
        if g != e:
            which = [n for n, a, b in zip(("signed-data-min", "signed-data-max", "signer-min", "signer-max"), g, e) if a != b]
            return "sdk-bounds", which[0] + (":>=0x80000000" if e[("signed-data-min", "signed-data-max", "signer-min",
                                                                  "signer-max").index(which[0])] >= 0x80000000 else "")
    return None


_decoy = []


def decoy():
    """DECOY HISTORY: a fixed APK whose signing block holds the SAME ids (v2, v3, v3.1, unknown, v2 again) with other contents
    is opened and queried through the same calls before every judged case (inside judge(), so also in replay())."""
    from androguard.core import apk as A
    if not _decoy:
        _decoy.append(build(("decoy", "decoy", ROLE_C, 1))[0])
    try:
        a = A.APK(_decoy[0], raw=True, skip_analysis=True)
        a.has_duplicate_apk_signature_ids(), a.is_signed_v2(), a.is_signed_v3(), a.is_signed_v31(), a.is_signed()
        for sfx in ("v2", "v3", "v31"):
            getattr(a, "get_certificates_der_" + sfx)(), getattr(a, "get_public_keys_der_" + sfx)()
        a.get_certificates()
    except Exception:     # noqa
        pass


def judge(case):
    """-> list of (key, msg)"""
    from androguard.core import apk as A
    decoy()
    raw, model = build(case)
    part, lay, shapes, cm = case
    tag = "%s layout=%s signers=%r comment=%d" % (part, lay, shapes, cm)
    out = []
    want_dup = bool(model["dup_ids"])
    dupname = "+".join(model["dup_ids"]) + "-twice" if want_dup else "no-duplicate"
    try:
        a0 = A.APK(raw, raw=True, skip_analysis=True)
        if bool(a0.has_duplicate_apk_signature_ids()) != want_dup:
            out.append(("duplicate-ids:asked-first" + ("" if want_dup else ":no-duplicate"),
                        "%s: has_duplicate_apk_signature_ids() asked first on a fresh APK object = %r, duplicated ids: %r"
                        % (tag, a0.has_duplicate_apk_signature_ids(), model["dup_ids"])))
    except Exception as e:     # noqa
        out.append(("duplicate-ids:asked-first:exception:%s" % type(e).__name__, "%s: %s: %s" % (tag, type(e).__name__, e)))
    try:
        a = A.APK(raw, raw=True, skip_analysis=True)
        flags = {"v2": a.is_signed_v2(), "v3": a.is_signed_v3(), "v31": a.is_signed_v31()}
    except Exception as e:     # noqa
        return out + [("flags:exception:%s:%s" % (type(e).__name__, lay), "%s: is_signed_* raised %s: %s" % (tag, type(e).__name__, e))]
    for s in ("v2", "v3", "v31"):
        if bool(flags[s]) != bool(model["blocks"][s]):
            out.append(("flag:is_signed_%s:%s" % (s, lay), "%s: is_signed_%s() = %r but the block %s an id of that scheme"
                        % (tag, s, flags[s], "holds" if model["blocks"][s] else "does not hold")))
    try:
        if bool(a.has_duplicate_apk_signature_ids()) != want_dup:
            out.append(("duplicate-ids:" + dupname, "%s: has_duplicate_apk_signature_ids() = %r, duplicated ids: %r"
                        % (tag, a.has_duplicate_apk_signature_ids(), model["dup_ids"])))
    except Exception as e:     # noqa
        out.append(("duplicate-ids:exception:%s" % type(e).__name__, "%s: %s: %s" % (tag, type(e).__name__, e)))

    for s in ("v2", "v3", "v31"):
        blocks = model["blocks"][s]
        if blocks and blocks[0] is None:
            continue            # first block of this id has an empty value: what its signers are is not settled by the statement
        exp = blocks[0] if blocks else []
        label = {"v2": "v2", "v3": "v3", "v31": "v3.1"}[s]
        if s == "v31" and blocks and not model["blocks"]["v3"]:
            label = "v3.1-only"
        if not blocks:
            label += ":absent"
        try:
            if s == "v2":
                a.parse_v2_signing_block()
                got = a._v2_signing_data
            elif s == "v3":
                a.parse_v3_signing_block()
                got = a._v3_signing_data
            else:
                a.parse_v3_signing_block(v31=True)
                got = a._v31_signing_data
            got = list(got)
        except Exception as e:     # noqa
            slack = ":element-slack" if any(x["shape"].get("dslack") or x["shape"].get("sslack") for x in exp) else ""
            out.append(("%s:parse-exception:%s%s" % (label, type(e).__name__, slack), "%s: parsing the %s block raised %s: %s"
                        % (tag, s, type(e).__name__, e)))
            continue
        if len(got) != len(exp):
            if len(blocks) > 1 and blocks[1] is not None and len(got) == len(blocks[1]):
                why = "signers-of-a-later-block"
            else:
                why = "signers-empty" if not got else ("signers-count:%d" % len(exp))
            out.append(("%s:%s" % (label, why), "%s: %s block reported %d signers, encoded %d" % (tag, s, len(got), len(exp))))
            continue
        bad = False
        for i, (g, e) in enumerate(zip(got, exp)):
            try:
                d = first_diff(g, e, s != "v2")
            except Exception as ex:     # noqa
                d = ("exception", type(ex).__name__)
            if d:
                later = ""
                if len(blocks) > 1 and blocks[1] is not None and i < len(blocks[1]):
                    try:
                        if first_diff(g, blocks[1][i], s != "v2") is None:
                            later = ":value-of-a-later-block"
                    except Exception:     # noqa
                        pass
                out.append(("%s:%s:%s%s" % (label, d[0], d[1], later),
                            "%s: %s signer %d: field %s differs from the encoded value (shape %r)" % (tag, s, i, d[0], e["shape"])))
                bad = True
                break
        if bad:
            continue
        # flattened accessors
        sfx = {"v2": "v2", "v3": "v3", "v31": "v31"}[s]
        ecerts = [c for e in exp for c in e["certs"]]
        ekeys = [e["pubkey"] for e in exp]
        try:
            g = [bytes(x) for x in getattr(a, "get_certificates_der_" + sfx)()]
            if g != ecerts:
                out.append(("%s:get_certificates_der:count=%d" % (label, len(ecerts)),
                            "%s: get_certificates_der_%s() returned %d certificates, encoded %d (or different bytes)"
                            % (tag, sfx, len(g), len(ecerts))))
            g = [bytes(x) for x in getattr(a, "get_public_keys_der_" + sfx)()]
            if g != ekeys:
                out.append(("%s:get_public_keys_der:count=%d" % (label, len(ekeys)),
                            "%s: get_public_keys_der_%s() returned %d keys, encoded %d (or different bytes)" % (tag, sfx, len(g), len(ekeys))))
            g = [x.dump() for x in getattr(a, "get_certificates_" + sfx)()]
            if g != ecerts:
                out.append(("%s:get_certificates:count=%d" % (label, len(ecerts)),
                            "%s: get_certificates_%s() objects do not re-encode to the %d encoded certificates" % (tag, sfx, len(ecerts))))
            if all(ekeys):
                g = [x.dump() for x in getattr(a, "get_public_keys_" + sfx)()]
                if g != ekeys:
                    out.append(("%s:get_public_keys:count=%d" % (label, len(ekeys)),
                                "%s: get_public_keys_%s() objects do not re-encode to the encoded keys" % (tag, sfx)))
        except Exception as e:     # noqa
            out.append(("%s:accessor-exception:%s" % (label, type(e).__name__), "%s: accessor raised %s: %s" % (tag, type(e).__name__, e)))
    # alternative entry points: is_signed() / is_signed_v1() and the union get_certificates()
    try:
        want = any(model["blocks"][s] for s in ("v2", "v3", "v31"))
        if bool(a.is_signed()) != want or a.is_signed_v1():
            out.append(("flag:is_signed:%s" % lay, "%s: is_signed() = %r, is_signed_v1() = %r (no META-INF signature; scheme ids present: %r)"
                        % (tag, a.is_signed(), a.is_signed_v1(), want)))
        if not out and not any(b and b[0] is None for b in model["blocks"].values()):
            exp_all = []
            for s in ("v2", "v3", "v31"):
                for e in (model["blocks"][s][0] if model["blocks"][s] else []):
                    for c in e["certs"]:
                        if c not in exp_all:
                            exp_all.append(c)
            got_all = [c.dump() for c in a.get_certificates()]
            if got_all != exp_all:
                out.append(("get_certificates:union:%s" % lay, "%s: get_certificates() gave %d certificates, the first blocks of v2, v3, "
                            "v3.1 hold %d distinct ones (in that order)" % (tag, len(got_all), len(exp_all))))
    except Exception as e:     # noqa
        out.append(("alt-entry-point:exception:%s" % type(e).__name__, "%s: %s: %s" % (tag, type(e).__name__, e)))
    return out


def shards(ctx):
    return list(range(NSH))


def space(ctx):
    per = {}
    for c in cases(ctx):
        per[c[0]] = per.get(c[0], 0) + 1
    return {"layouts": {k: v for k, v in LAYOUTS.items()}, "element_lengths": LENS, "length_tuples": 85,
            "certificate_lists": CERTS, "public_keys": KEYS, "sdk_tuples(min,max,signer-min,signer-max)": SDKS,
            "attribute_blobs": ["none", "stripping-protection", "stripping-protection + one unknown"],
            "zip_comments": COMMENTS, "signer_shapes_P4": len(SHAPES) + (len(SHAPES_MORE) if ctx.thorough else 0),
            "cases_per_part": per,
            "element_slack": {"bytes": [4, 12], "tuples": [list(t) for t in SLACK_TUPLES], "lists": ["digests", "signatures", "both"],
                              "position": "every element index"},
            "P6_maxima": [{k: (v if len(str(v)) < 60 else "%d x %r" % (len(v), v[0])) for k, v in sh.items()} for sh in BIG_SHAPES],
            "decoy_history": "an APK whose block holds v2, unknown, v3, v3.1, v2-again with other contents is queried first, inside judge()",
            "alternative_entry_points": ["is_signed", "is_signed_v1", "get_certificates (ordered distinct union)"],
            "bounding": "P6 one representative per size field; P5 slack at every position; P1 digests x signatures full; P2 digests x certificates x attributes full; P3 signatures x keys x SDK full; "
                        "P4 every layout x every list of 0..3 signers over the shape alphabet x comment"}


def run_shard(ctx, shard):
    acc = Acc()
    for idx, case in enumerate(cases(ctx)):
        if idx % NSH != shard:
            continue
        part, lay, shapes, cm = case
        acc.case(outcome=(lay, len(shapes), tuple(count_feature([(0, b"x" * n) for n in sh["d"]]) for sh in shapes)))
        if LAYOUTS[lay] and any(r for _, r in LAYOUTS[lay]):
            acc.nt_disjoint += 1
        acc.count("cases_" + part)
        if part == "P4":
            acc.count("P4_layout:" + lay)
        acc.count("signers_encoded", len(shapes))
        for key, msg in judge(case):
            acc.violation(key, {"case": [part, lay, shapes, cm]}, msg)
        if shard == 0 and len(acc.samples) < 3 and part in ("P1", "P4") and len(shapes) >= 1 and idx > 2000 * len(acc.samples):
            acc.sample({"part": part, "layout": lay, "signers": shapes, "comment": COMMENTS[cm]})
    return acc


def replay(ctx, w):
    part, lay, shapes, cm = w["case"]
    res = judge((part, lay, shapes, cm))
    return "\n".join("%s: %s" % r for r in res) if res else None


def finalize(ctx, acc):
    if len(acc.outcomes) < 200:
        acc.harness_error("vacuous: only %d distinct (layout, signer count, digest shape) classes" % len(acc.outcomes))
    nshape = len(SHAPES) + (len(SHAPES_MORE) if ctx.thorough else 0)
    per_layout = sum(nshape ** n for n in range(4)) * len(COMMENTS)
    for lay in LAYOUT_ORDER:
        if acc.extra.get("P4_layout:" + lay) != per_layout:
            acc.harness_error("P4 layout %s: %r cases judged, %d in the space" % (lay, acc.extra.get("P4_layout:" + lay), per_layout))
    for p in ("P1", "P2", "P3", "P4", "P5", "P6"):
        if not acc.extra.get("cases_" + p):
            acc.harness_error("vacuous: part %s empty" % p)
    # self-test of the model/serialiser pair: the block written for a known case must contain what the model says
    from gen import apkgen as G
    raw, model = build(("P4", "v2A+v2B", [SHAPES[2]], 1))
    if raw.count(G.SIG_MAGIC) != 1 or model["dup_ids"] != ["v2"] or len(model["blocks"]["v2"]) != 2:
        acc.harness_error("self-test: generated duplicate-id block is not what the model describes")
    cd, _, _ = G.central_directory(raw)
    if raw[cd - 16:cd] != G.SIG_MAGIC:
        acc.harness_error("self-test: signing block does not end right before the central directory")
